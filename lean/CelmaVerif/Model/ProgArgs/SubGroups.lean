import CelmaVerif.Model.ProgArgs.Handler
import CelmaVerif.Model.ProgArgs.Groups
import CelmaVerif.Model.ProgArgs.GroupsCross
import CelmaVerif.Model.KeysSub
/-
  Sub-group arguments of celma::prog_args::Handler, as a conservative extension of the handler model
  (src/library/prog_args/handler.cpp: `Handler::addArgument( spec, Handler& subGroup, desc)`,
  `Handler::processArg`, `Handler::evalArguments`, `Handler::checkMissingMandatoryCardinality`,
  `Handler::crossCheckArguments`; detail/typed_arg_sub_group.{hpp,cpp};
  detail/argument_container.cpp: `addArgument( …, also_check)`, `checkKeyUnused`; groups.cpp).

  A handler tree of depth 2: the main handler (`Cfg` / `HState`, unchanged) plus the entries of its
  second container `mSubGroupArgs`.  An entry is a `TypedArgSubGroup` (a value-less argument whose
  `assign()` only sets `mWasCalled`) together with the handler object it refers to.

  What the code does, and what is modelled here branch by branch:
  * `processArg` looks the key up over BOTH containers (after the `fix:` "an abbreviation of a
    sub-group argument's long key shadowed the exact key of a plain argument"): exact match in
    `mSubGroupArgs`, exact match in `mArguments`, then the abbreviation search in `mSubGroupArgs`
    which must not also succeed in `mArguments` (`findSub`).  The abbreviation flag of
    `mSubGroupArgs` is the main handler's (`(flag_set & hfNoAbbr) == 0`, first constructor argument
    of `ArgumentContainer( abbr_allowed, stores_sub_args)`).
  * on a hit: `handleIdentifiedArg( hdl, key)` on the MAIN handler's constraint container and
    handler constraints, with the main handler's read mode and inversion flag; then a copy `subAI`
    of the cursor is stepped once and the sub handler's `evalSingleArgument( subAI, end)` is called
    as long as it answers `consumed`; after each such answer `ai = subAI++` (`ai` is the element
    handled last, `subAI` the next one).  The first other answer (`unknown`: an argument of the main
    handler, an unknown key, a value nobody takes) leaves `ai` where it was, the caller's `++ai`
    moves to exactly that element (after the `fix:` "the word after a sub-group argument was
    skipped …"; the pinned code stepped `ai` itself first and lost that element).  Finally
    `mpLastArg = nullptr` in the main handler.
  * the sub handler keeps its own state between two visits (its `mpLastArg`, `mInverted`, pending
    constraints, counters); its read mode is its own member and stays `commandLine` also while the
    main handler reads a file or the environment variable.
  * end of the evaluation: `mArguments.checkMandatoryCardinality()`,
    `mSubGroupArgs.checkMandatoryCardinality()` (mandatory flag and cardinality of the sub-group
    ARGUMENT), `mConstraints.checkRequired()`, `checkGlobalConstraints()` — all on the main handler.
    No function of the SUB handler is called at the end: its mandatory arguments, its pending
    `requires` entries and the end conditions of its handler constraints are never checked
    (`endChecksT` reads nothing of `cfg.subs[j].sub` and nothing of `t.subs`: theorem
    `C02_sub_handler_end_checks_never_run`).
  * through `Groups`: `checkMissingMandatoryCardinality()` of a member = both containers.
-/
namespace CelmaVerif.ProgArgs
open CelmaVerif CelmaVerif.Keys

/-- one entry of `mSubGroupArgs`: the `TypedArgSubGroup` and the handler it refers to.  What
    `TypedArgBase` offers and a `TypedArgSubGroup` keeps: key, mandatory flag, cardinality (the
    constructor resets it to "none"; `setCardinality` may install one), argument constraints
    (`addConstraint`, stored in the MAIN handler's container), deprecation.  Value mode is fixed to
    `none`, there are no checks/formats, `hasValue()` = `mWasCalled`. -/
structure SubDef where
  key         : Key
  mandatory   : Bool := false
  card        : Card := .unlimited
  constraints : List (CType × List Key) := []
  deprecated  : Bool := false
  /-- the sub handler: its own arguments, handler constraints and abbreviation flag -/
  sub         : Cfg
  deriving Repr, Inhabited

/-- the sub-group argument seen as an argument definition (a value-less flag) -/
def SubDef.argDef (s : SubDef) : ArgDef :=
  { key := s.key, kind := .flag, vmode := .none, card := s.card, mandatory := s.mandatory,
    constraints := s.constraints, deprecated := s.deprecated }

structure TCfg where
  main : Cfg
  subs : List SubDef := []
  deriving Repr, Inhabited

/-- `mSubGroupArgs.mArguments` -/
def TCfg.subTable (cfg : TCfg) : List (Key × SubDef) := cfg.subs.map (fun s => (s.key, s))

structure TState where
  main    : HState
  /-- per sub-group argument: `hasValueSet` = `mWasCalled`, `cnt` = cardinality counter -/
  subArgs : List ArgSt := []
  /-- per sub-group argument: the state of the handler it refers to -/
  subs    : List HState := []
  deriving Repr, Inhabited

/-- initial values: the main handler's destinations and, per sub-group argument, the sub handler's -/
structure TInits where
  main : List DVal := []
  subs : List (List DVal) := []
  deriving Repr, Inhabited

def TCfg.initState (cfg : TCfg) (inits : TInits) : TState :=
  { main := cfg.main.initState inits.main,
    subArgs := cfg.subs.map (fun _ => { dest := .flag false }),
    subs := (cfg.subs.zip (inits.subs ++ List.replicate cfg.subs.length [])).map
              (fun (s, i) => s.sub.initState i) }

/-- embed a result over the main handler's state -/
def liftMain {α : Type} (t : TState) (r : Res (HState × α)) : Res (TState × α) :=
  match r with
  | .ok (h, a) => .ok ({ t with main := h }, a)
  | .throw e => .throw e
  | .oob w => .oob w

def liftMain' (t : TState) (r : Res HState) : Res TState :=
  match r with
  | .ok h => .ok { t with main := h }
  | .throw e => .throw e
  | .oob w => .oob w

/-! ## the sub-group branch of `processArg` -/

/-- `handleIdentifiedArg( p_arg_hdl, key)` for the sub-group argument `j`: constraint container and
    handler constraints of the main handler, then `TypedArgBase::assignValue( mReadMode != 0, "",
    mInverted)` with `TypedArgSubGroup::assign` (sets `mWasCalled`), then `mInverted = false` -/
def handleIdentifiedSub (cfg : TCfg) (t : TState) (j : Nat) (d : SubDef) : Res TState := do
  let pending ← pendingIdentified d.key t.main.pending
  let globals ← executeGlobals cfg.main.globals t.main.globals d.key
  throwIf d.deprecated .runtime_error
  let st := t.subArgs.getD j default
  let cnt ← countValue t.main.fromSrc d.card st.cnt
  throwIf t.main.inverted .runtime_error
  pure { t with main := { t.main with pending := activateConstraints d.constraints pending,
                                      globals := globals, inverted := false },
                subArgs := t.subArgs.set j { st with cnt := cnt, hasValueSet := true } }

/-- the `while` loop: `while ((subAI != end) && (sub->evalSingleArgument( subAI, end) == consumed))
    ai = subAI++;`  Returns the sub handler's state and the main cursor `ai`. -/
def subLoop (sc : Cfg) : (fuel : Nat) → HState → It → It → Res (HState × It)
  | 0, _, _, _ => .oob "processArg: sub-group loop: fuel exhausted"
  | fuel + 1, sh, ai, subAI =>
    if subAI.atEnd then .ok (sh, ai)
    else do
      let (sh', subAI', r) ← evalSingleArgument sc sh subAI
      if r = .consumed then do
        let next ← subAI'.step          -- `subAI++`: `ai` gets the old value
        subLoop sc fuel sh' subAI' next
      else pure (sh', ai)

/-- `Handler::processArg( key, ai, end)` of a handler with sub-group arguments -/
def processArgT (cfg : TCfg) (t : TState) (key : Key) (ai : It) : Res (TState × It × ArgResult) := do
  let found ← findSub cfg.main.abbr cfg.subTable cfg.main.table key
  match found with
  | some (j, d) => do
    let t ← handleIdentifiedSub cfg t j d
    let subAI ← ai.step                     -- `auto subAI( ai); ++subAI;`
    let (sh, ai') ← subLoop d.sub (totalChars ai.argv) (t.subs.getD j default) ai subAI
    pure ({ t with subs := t.subs.set j sh, main := { t.main with lastArg := none } }, ai', .consumed)
  | none => liftMain t (processArg cfg.main t.main key ai)

/-- `Handler::evalSingleArgument( ai, end)`: only the two key branches reach `processArg` -/
def evalSingleArgumentT (cfg : TCfg) (t : TState) (ai : It) : Res (TState × It × ArgResult) :=
  match ai.cur.ty with
  | .singleCharArg => processArgT cfg t (Key.ofChar ai.cur.ch) ai
  | .stringArg => do
    let key ← wordKey ai.cur.str
    processArgT cfg t key ai
  | _ => liftMain t (evalSingleArgument cfg.main t.main ai)

def iterateLoopT (cfg : TCfg) : (fuel : Nat) → TState → It → Res TState
  | 0, _, _ => .oob "iterateArguments: fuel exhausted"
  | fuel + 1, t, ai =>
    if ai.atEnd then .ok t
    else do
      let (t', ai', r) ← evalSingleArgumentT cfg t ai
      match r with
      | .unknown => .throw .invalid_argument
      | .last => pure t'
      | .consumed => do
        let ai'' ← ai'.step
        iterateLoopT cfg fuel t' ai''

def iterateArgumentsT (cfg : TCfg) (t : TState) (argv : List Word) : Res TState := do
  let ai ← It.begin argv
  iterateLoopT cfg (totalChars argv) t ai

def setFromSrc (t : TState) (b : Bool) : TState := { t with main := { t.main with fromSrc := b } }

def readFileLinesT (cfg : TCfg) : List Word → TState → Res TState
  | [], t => .ok t
  | line :: rest, t =>
    if line.isEmpty || line.head? == some '#' then readFileLinesT cfg rest t
    else do
      let t' ← iterateArgumentsT cfg t (ArgString.defaultProgName :: ArgString.splitString line)
      readFileLinesT cfg rest t'

def evalFileSourceT (cfg : TCfg) (file : Option (List Word)) (t : TState) : Res TState :=
  match file with
  | some lines => do
    let t' ← readFileLinesT cfg lines (setFromSrc t true)
    pure (setFromSrc t' false)
  | none => pure t

def evalEnvSourceT (cfg : TCfg) (env : Option Word) (t : TState) : Res TState :=
  match env with
  | some e => do
    let t' ← iterateArgumentsT cfg (setFromSrc t true) (ArgString.defaultProgName :: ArgString.splitString e)
    pure (setFromSrc t' false)
  | none => pure t

/-- `mSubGroupArgs.checkMandatoryCardinality()` -/
def checkSubMandatoryCardinality (subs : List SubDef) (sts : List ArgSt) : Res Unit :=
  checkMandatoryCardinality (subs.map SubDef.argDef) sts

/-- the final checks of `Handler::evalArguments`: both containers, then the constraints of the main
    handler.  Nothing of a sub handler is checked. -/
def endChecksT (cfg : TCfg) (t : TState) : Res TState := do
  let h := { t.main with lastArg := none }
  checkMandatoryCardinality cfg.main.args h.args
  checkSubMandatoryCardinality cfg.subs t.subArgs
  pendingCheckRequired h.pending
  checkGlobals cfg.main.args h.args cfg.main.globals h.globals
  pure { t with main := h }

/-- `Handler::evalArguments( argc, argv)` of a handler with sub-group arguments -/
def evalArgumentsT (cfg : TCfg) (t : TState) (src : Sources) (argv : List Word) : Res TState := do
  let t ← evalFileSourceT cfg src.file t
  let t ← evalEnvSourceT cfg src.env t
  let t ← iterateArgumentsT cfg t argv
  endChecksT cfg t

/-! ## evaluation through Groups: members with sub-group arguments -/

def clearLastT (ms : List (TCfg × TState)) : List (TCfg × TState) :=
  ms.map (fun (c, t) => (c, { t with main := { t.main with lastArg := none } }))

def offerT (isKey : Bool) : List (TCfg × TState) → It → Res (List (TCfg × TState) × It × ArgResult)
  | [], ai => .ok ([], ai, .unknown)
  | (c, t) :: rest, ai => do
    let (t', ai', r) ← evalSingleArgumentT c t ai
    if r != .unknown then pure ((c, t') :: (if isKey then clearLastT rest else rest), ai', r)
    else do
      let (rest', ai'', r') ← offerT isKey rest ai
      let t'' := if isKey && r' != .unknown then { t' with main := { t'.main with lastArg := none } } else t'
      pure ((c, t'') :: rest', ai'', r')

def groupsLoopT : (fuel : Nat) → List (TCfg × TState) → It → Res (List (TCfg × TState))
  | 0, _, _ => .oob "Groups::evalArguments: fuel exhausted"
  | fuel + 1, ms, ai =>
    if ai.atEnd then .ok ms
    else do
      let (ms', ai', r) ← offerT (ai.cur.ty != .value) ms ai
      if r == .unknown then .throw .runtime_error
      else do
        let ai'' ← ai'.step
        groupsLoopT fuel ms' ai''

/-- `checkMissingMandatoryCardinality()` (both containers), `mConstraints.checkRequired()`,
    `checkGlobalConstraints()` of one member -/
def memberEndChecksT (c : TCfg) (t : TState) : Res Unit := do
  checkMandatoryCardinality c.main.args t.main.args
  checkSubMandatoryCardinality c.subs t.subArgs
  pendingCheckRequired t.main.pending
  checkGlobals c.main.args t.main.args c.main.globals t.main.globals

def groupsEndChecksT : List (TCfg × TState) → Res Unit
  | [] => pure ()
  | (c, t) :: rest => do memberEndChecksT c t; groupsEndChecksT rest

/-- indices of the sub-group arguments owned by member `m` -/
def memberSubIdx (subMember : List Nat) (m : Nat) : List Nat :=
  (List.range subMember.length).filter (fun a => subMember.getD a 0 == m)

def memberTCfg (cfg : TCfg) (argMember subMember globMember : List Nat) (m : Nat) : TCfg :=
  { main := memberCfg cfg.main argMember globMember m,
    subs := (memberSubIdx subMember m).filterMap (fun a => cfg.subs[a]?) }

def memberTInits (inits : TInits) (argMember subMember : List Nat) (m : Nat) : TInits :=
  { main := memberInits inits.main argMember m,
    subs := (memberSubIdx subMember m).map (fun a => inits.subs.getD a []) }

/-- `Groups::evalArguments( argc, argv)`; `subMember[j]` = the member that owns sub-group argument `j` -/
def groupsEvalT (cfg : TCfg) (inits : TInits) (argMember subMember globMember order : List Nat)
    (argv : List Word) : Res (List (TCfg × TState)) := do
  throwIf order.isEmpty .runtime_error
  let ms := order.map (fun m =>
    let c := memberTCfg cfg argMember subMember globMember m
    (c, c.initState (memberTInits inits argMember subMember m)))
  let ai ← It.begin argv
  let ms' ← groupsLoopT (totalChars argv) ms ai
  groupsEndChecksT ms'
  pure ms'

/-- forget the (empty) sub-group part of the members -/
def plainMembers (ms : List (TCfg × TState)) : List (Cfg × HState) := ms.map (fun (c, t) => (c.main, t.main))

/-- members without sub-group arguments -/
def treeMembers (ms : List (Cfg × HState)) : List (TCfg × TState) :=
  ms.map (fun (c, h) => ({ main := c }, { main := h }))

/-! ## definition time -/

/-- `Handler::crossCheckArguments( own, other)`: the four `checkArgMix` calls in the order of the code -/
def crossCheckHandlers (ownPlain ownSub otherPlain otherSub : List Key) : Res Unit := do
  checkArgMix ownPlain otherPlain
  checkArgMix ownPlain otherSub
  checkArgMix ownSub otherPlain
  checkArgMix ownSub otherSub

/-- `Groups::crossCheckArguments( mod_handler)`: every other member, (plain keys, sub-group keys) each -/
def crossCheckT (ownPlain ownSub : List Key) : List (List Key × List Key) → Res Unit
  | [] => pure ()
  | (p, s) :: rest => do crossCheckHandlers ownPlain ownSub p s; crossCheckT ownPlain ownSub rest

/-! ## definition histories over both containers of every member (`pa gdef` with sub-group definitions) -/

/-- the two key tables of one handler: (`mArguments`, `mSubGroupArgs`) -/
abbrev Tables2 := List (Key × Unit) × List (Key × Unit)

/-- one definition on a handler that is used by a group.
    `isSub = false`: `Handler::addArgument( spec, dest, desc)` → `internAddArgument`:
    `mArguments.addArgument( obj, key, &mSubGroupArgs)`, then `Groups::crossCheckArguments( this)`.
    `isSub = true`: `Handler::addArgument( spec, Handler& subGroup, desc)`:
    `mSubGroupArgs.addArgument( obj, key, &mArguments)`, then (since `fix:` b870f06)
    `Groups::crossCheckArguments( this)`.
    In both: the OTHER container of the handler is asked first (`checkKeyUnused`), then the own table
    (`Storage::addArgument`), then the handler's two containers are checked against the two
    containers of every other member (`Handler::crossCheckArguments`, four `checkArgMix` calls). -/
def groupAddArgumentT (isSub : Bool) (own : Tables2) (others : List (List Key × List Key)) (k : Key) :
    Res Tables2 := do
  let own' : Tables2 ←
    if isSub then (do let s ← addArgumentChecked own.2 own.1 k (); pure (own.1, s))
    else (do let p ← addArgumentChecked own.1 own.2 k (); pure (p, own.2))
  crossCheckT (own'.1.map (·.1)) (own'.2.map (·.1)) others
  pure own'

/-- the key lists of every member but `m`, registration order -/
def otherTables (tables : List Tables2) (m : Nat) : List (List Key × List Key) :=
  (tables.zipIdx.filter (fun ti => ti.2 != m)).map (fun ti => (ti.1.1.map (·.1), ti.1.2.map (·.1)))

/-- a sequence of definitions `(member, is a sub-group argument, key specification)` on a group whose
    members were created first: index and exception class of the first definition that is refused,
    `none` if all are accepted (`groupDefineSeq` with both containers). -/
def groupDefineSeqT : List Tables2 → List (Nat × Bool × List Char) → Nat → Option (Exc × Nat)
  | _, [], _ => none
  | tables, (m, isSub, spec) :: rest, idx =>
    match Key.parse spec with
    | .throw e => some (e, idx)
    | .oob _ => some (.other, idx)
    | .ok k =>
      match groupAddArgumentT isSub (tables.getD m ([], [])) (otherTables tables m) k with
      | .ok t => groupDefineSeqT (tables.set m t) rest (idx + 1)
      | .throw e => some (e, idx)
      | .oob _ => some (.other, idx)

end CelmaVerif.ProgArgs
