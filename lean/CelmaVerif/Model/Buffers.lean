import CelmaVerif.Base.Res
/-
  Model of celma::common::WriteBuffer<N,P> and ReadBuffer<N,P>
  (src/celma/common/write_buffer.hpp, read_buffer.hpp), branch by branch.
  The buffer is an explicit list of N bytes, every memcpy/memmove is checked.
-/
namespace CelmaVerif.Buffers
open CelmaVerif

/-! ## WriteBuffer -/

structure WBuf where
  N    : Nat
  buf  : List Byte          -- the `new unsigned char[N]`
  pos  : Nat                -- mWritePos
  sink : List (List Byte)   -- blocks handed to writeData(), in order
  deriving Repr

def WBuf.new (N : Nat) : WBuf := { N := N, buf := List.replicate N 0, pos := 0, sink := [] }

/-- `flush()` -/
def WBuf.flush (b : WBuf) : Res WBuf :=
  if b.pos > 0 then do
    let blk ← Mem.read b.buf 0 b.pos "flush: read buffer"
    pure { b with sink := b.sink ++ [blk], pos := 0 }
  else pure b

/-- `append(data, len)` with `len = data.length`, `data ≠ nullptr` -/
def WBuf.append (b : WBuf) (data : List Byte) : Res WBuf :=
  let len := data.length
  if len == 0 then pure b
  else if len ≥ b.N then do
    let b' ← b.flush
    pure { b' with sink := b'.sink ++ [data] }
  else if b.N - b.pos < len then do
    let b' ← b.flush
    let buf ← Mem.write b'.buf 0 data "append: memcpy to buffer start"
    pure { b' with buf := buf, pos := len }
  else do
    let buf ← Mem.write b.buf b.pos data "append: memcpy at write pos"
    pure { b with buf := buf, pos := b.pos + len }

inductive WOp where
  | append (data : List Byte)
  | flush
  deriving Repr

def WBuf.step (b : WBuf) : WOp → Res WBuf
  | .append d => b.append d
  | .flush => b.flush

def WBuf.run (b : WBuf) : List WOp → Res WBuf
  | [] => pure b
  | op :: ops => do let b' ← b.step op; b'.run ops

def appended : List WOp → List Byte
  | [] => []
  | .append d :: ops => d ++ appended ops
  | .flush :: ops => appended ops

/-! ## ReadBuffer -/

structure RBuf where
  N      : Nat
  buf    : List Byte
  start  : Nat              -- mDataStart
  stop   : Nat              -- mDataEnd
  src    : List Byte        -- bytes the source has not delivered yet
  chunks : List Nat         -- sizes the source will offer on the next readData() calls;
                            -- when exhausted the source delivers whatever is asked
  deriving Repr

def RBuf.new (N : Nat) (src : List Byte) (chunks : List Nat) : RBuf :=
  { N := N, buf := List.replicate N 0, start := 0, stop := 0, src := src, chunks := chunks }

/-- outcome of one `get(data, len)` -/
inductive GetOut where
  | data (bytes : List Byte)
  | throw (e : Exc)
  | oob (what : String)
  deriving Repr

/-- One `readData(&buf[stop], N - stop)` call.  The harness' source throws `eof`
    when it has no byte left, otherwise returns `min(request, chunk, remaining)`. -/
def RBuf.readOnce (r : RBuf) : Res (RBuf × Nat) :=
  if r.src.isEmpty then .throw .eof
  else
    let req := r.N - r.stop
    let offer := r.chunks.headD req
    let rest := r.chunks.tail
    let n := min (min req offer) r.src.length
    match Mem.write r.buf r.stop (r.src.take n) "fillBuffer: readData target" with
    | .ok buf => .ok ({ r with buf := buf, stop := r.stop + n, src := r.src.drop n, chunks := rest }, n)
    | .throw e => .throw e
    | .oob w => .oob w

/-- the `do … while ((mDataEnd - mDataStart) < min_length)` loop.  Terminates:
    every announced chunk is consumed by one iteration; once the announcements
    are used up one more call delivers everything asked or the source is at EOF.
    Returns the state even when the source throws (the C++ object keeps it). -/
def RBuf.fillLoop (r : RBuf) (minLen : Nat) : (fuel : Nat) → RBuf × Res Unit
  | 0 =>
    -- announcements exhausted: one full-size read, then (if still short) EOF on the next
    match r.readOnce with
    | .ok (r', _) =>
      if r'.stop - r'.start < minLen then
        match r'.readOnce with
        | .ok (r'', _) => (r'', if r''.stop - r''.start < minLen then .throw .other else .ok ())
        | .throw e => (r', .throw e)
        | .oob w => (r', .oob w)
      else (r', .ok ())
    | .throw e => (r, .throw e)
    | .oob w => (r, .oob w)
  | fuel + 1 =>
    match r.readOnce with
    | .ok (r', _) =>
      if r'.stop - r'.start < minLen then r'.fillLoop minLen fuel else (r', .ok ())
    | .throw e => (r, .throw e)
    | .oob w => (r, .oob w)

/-- `fillBuffer(min_length)` -/
def RBuf.fillBuffer (r : RBuf) (minLen : Nat) : RBuf × Res Unit :=
  let r1 : Res RBuf :=
    if r.start == r.stop then .ok { r with start := 0, stop := 0 }
    else if r.N - r.start < minLen then
      match Mem.move r.buf 0 r.start (r.stop - r.start) "fillBuffer: memmove" with
      | .ok buf => .ok { r with buf := buf, stop := r.stop - r.start, start := 0 }
      | .throw e => .throw e
      | .oob w => .oob w
    else .ok r
  match r1 with
  | .ok r1 => r1.fillLoop minLen r1.chunks.length
  | .throw e => (r, .throw e)
  | .oob w => (r, .oob w)

/-- `get(data, len)`, `data ≠ nullptr`, the caller's memory has exactly `len` bytes -/
def RBuf.get (r : RBuf) (len : Nat) : RBuf × GetOut :=
  if len == 0 then (r, .data [])
  else if len > r.N then (r, .throw .runtime_error)
  else if len ≤ r.stop - r.start then
    match Mem.read r.buf r.start len "get: memcpy from buffer" with
    | .ok d => ({ r with start := r.start + len }, .data d)
    | .throw e => (r, .throw e)
    | .oob w => (r, .oob w)
  else
    match r.fillBuffer len with
    | (r', .ok ()) =>
      match Mem.read r'.buf r'.start len "get: memcpy after fill" with
      | .ok d => ({ r' with start := r'.start + len }, .data d)
      | .throw e => (r', .throw e)
      | .oob w => (r', .oob w)
    | (r', .throw e) => (r', .throw e)
    | (r', .oob w) => (r', .oob w)

/-- run a list of requests, collecting outcomes -/
def RBuf.run (r : RBuf) : List Nat → RBuf × List GetOut
  | [] => (r, [])
  | l :: ls =>
    let (r', o) := r.get l
    let (r'', os) := r'.run ls
    (r'', o :: os)

def returned : List GetOut → List Byte
  | [] => []
  | .data d :: os => d ++ returned os
  | _ :: os => returned os

end CelmaVerif.Buffers
