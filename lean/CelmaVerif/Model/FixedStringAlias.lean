import CelmaVerif.Model.FixedString
/-
  Self-aliasing sources (C10/C11): `s.insert( 1, s, 2, 1)`, `s.replace( 0, 2, s.c_str() + 1)`,
  `s.append( s.cbegin(), s.cend())`, `s.sprintf( "%s", s.c_str())`.

  `std::string` specifies every such call as if the source were a COPY OF THE PRE-STATE (value semantics), and the
  model treats every source as a value anyway.  So no new semantics is needed: an operation whose FixedString /
  iterator-pair argument is the object itself is the existing operation run in the world in which the argument
  object `t` holds a copy of `s` (`World.aliased`); a `const char*` pointing into the own buffer is the existing
  pointer argument holding the bytes from that position to the terminator (`selfPtr`).  The correspondence run
  (protocol prefix `alias`, source token `self:<k>`) compares that with the real code, which is handed the object
  itself / a pointer into its own buffer.
-/
namespace CelmaVerif.FixedString
open CelmaVerif

/-- the world an operation sees whose argument "`t`" is the object `s` itself, read the way `std::string` specifies
    it: the argument is a copy of the pre-state of `s` -/
def World.aliased (w : World) : World := { w with t := w.s }

/-- `c_str() + k` of the object itself as a C-string / pointer+count argument: the characters from position `k`
    and the terminator (`k ≤ length()`) -/
def selfPtr (s : FStr) (k : Nat) : List Byte := (abs s).drop k ++ [0]

/-- the operations that can be asked with the prefix `alias`: every overload taking a same-type `FixedString`
    or an iterator pair of a `FixedString` (as `t`), except constructors and `swap` -/
def aliasable : Op → Bool
  | .assignF .t | .setF .t | .insertIF _ .t | .insertIFIC _ .t _ _ | .appendF .t | .appendFPC .t _ _ | .appendFP .t _
  | .addF .t | .appendItIt .. | .repCCF _ _ .t | .repCCFCC _ _ .t _ _ | .repCCFC _ _ .t _ | .repItItItIt .. => true
  | _ => false

/-- one operation whose argument `t` is the object itself: the operation in the aliased world; the real `t` is
    not involved and keeps its state -/
def stepAliased (c cu : Cfg) (w : World) (op : Op) : Res (World × Out) :=
  match step c cu w.aliased op with
  | .ok (w', o) => .ok ({ w' with t := w.t }, o)
  | .throw e => .throw e
  | .oob wh => .oob wh

end CelmaVerif.FixedString
