/-
  A small executable regular-expression matcher: the model of `std::regex` (ECMAScript grammar, the
  default of `std::regex( const std::string&)`) as far as `CheckPattern` uses it —
  `std::regex_match( value, match_results, regex)`: the WHOLE value must match
  (src/library/prog_args/detail/check_pattern.cpp).

  Modelled subset of the pattern language (everything else: `parse` returns `none`, the set-up of the
  model refuses the configuration, and the differential generator never produces such a pattern):
    * literal characters; `.` (any character except `\n` and `\r`);
    * character classes `[abc]`, `[a-z0-9_]`, `[^…]`; a `-` first or last in the class is a literal;
      the class escapes `\d \w \s` (also inside a class) and `\D \W \S` (outside only);
    * escaped punctuation `\. \* \+ \? \( \) \[ \] \{ \} \| \^ \$ \\ \/ \-`, `\t`, `\n`;
    * quantifiers `*`, `+`, `?` on a character, `.`, class or group (one quantifier per atom; lazy
      quantifiers, `{m,n}`: outside the subset);
    * alternation `|` (alternatives may be empty), grouping `( … )` and `(?: … )`;
    * the assertions `^` and `$`: with `regex_match` (no `multiline`) `^` holds only before the first
      character of the value and `$` only behind the last one.
  Outside: back-references, look-ahead, `\b`/`\B`, POSIX classes `[[:alpha:]]`, counted repetition,
  lazy quantifiers, `\x..`/`\u....`/`\c.` escapes, an empty class `[]`/`[^]`.

  The matcher works with Brzozowski derivatives.  The two assertions make the derivative depend on
  the position: `atStart` = no character of the value has been consumed yet, `atEnd` = no character
  follows.  Without capture groups and back-references "is there a match of the whole value" is a
  property of the language alone (greedy/lazy and the empty-iteration rule of ECMAScript only
  select among matches), so a language-level matcher is adequate for `regex_match`'s boolean result.
  That this matcher agrees with libstdc++'s `std::regex_match` on the subset is an assumption which
  every correspondence run exercises (tools/gen_progargs.py: PATTERNS, and the dedicated
  `pattern_case`).
-/
namespace CelmaVerif.Regex

/-- one item of a character class -/
inductive CItem where
  | ch (c : Char)
  | range (lo hi : Char)     -- compared by character code (no `regex::collate`)
  | digit                    -- \d
  | word                     -- \w
  | space                    -- \s
  deriving DecidableEq, Repr, Inhabited

inductive Re where
  | empty                                    -- matches nothing (arises in derivatives only)
  | eps                                      -- matches the empty string
  | chr (c : Char)
  | any                                      -- `.`
  | cls (neg : Bool) (items : List CItem)
  | bol                                      -- `^`
  | eol                                      -- `$`
  | seq (a b : Re)
  | alt (a b : Re)
  | star (a : Re)
  deriving DecidableEq, Repr, Inhabited

def isDigit (c : Char) : Bool := '0' ≤ c && c ≤ '9'
def isWordChar (c : Char) : Bool :=
  isDigit c || ('a' ≤ c && c ≤ 'z') || ('A' ≤ c && c ≤ 'Z') || c == '_'
/-- `std::isspace` in the "C" locale -/
def isSpaceChar (c : Char) : Bool :=
  c == ' ' || c == '\t' || c == '\n' || c.toNat == 11 || c.toNat == 12 || c == '\r'

def CItem.has (i : CItem) (c : Char) : Bool :=
  match i with
  | .ch x => x == c
  | .range lo hi => lo ≤ c && c ≤ hi
  | .digit => isDigit c
  | .word => isWordChar c
  | .space => isSpaceChar c

def clsHas (neg : Bool) (items : List CItem) (c : Char) : Bool :=
  (items.any (·.has c)) != neg

/-- `.` of ECMAScript: every character except the line terminators -/
def anyHas (c : Char) : Bool := !(c == '\n' || c == '\r')

/-! ### derivatives -/

def mkSeq : Re → Re → Re
  | .empty, _ => .empty
  | _, .empty => .empty
  | .eps, r => r
  | r, .eps => r
  | a, b => .seq a b

def mkAlt : Re → Re → Re
  | .empty, r => r
  | r, .empty => r
  | a, b => .alt a b

/-- the regular expression matches the empty string at a position described by `atStart` (nothing
    consumed yet) and `atEnd` (nothing follows) -/
def nullable (atStart atEnd : Bool) : Re → Bool
  | .empty => false
  | .eps => true
  | .chr _ => false
  | .any => false
  | .cls _ _ => false
  | .bol => atStart
  | .eol => atEnd
  | .seq a b => nullable atStart atEnd a && nullable atStart atEnd b
  | .alt a b => nullable atStart atEnd a || nullable atStart atEnd b
  | .star _ => true

/-- what remains to be matched after the character `c` (which is present, so the position before it
    is not the end of the value) -/
def deriv (atStart : Bool) (c : Char) : Re → Re
  | .empty => .empty
  | .eps => .empty
  | .chr x => if x == c then .eps else .empty
  | .any => if anyHas c then .eps else .empty
  | .cls neg items => if clsHas neg items c then .eps else .empty
  | .bol => .empty
  | .eol => .empty
  | .seq a b =>
    let left := mkSeq (deriv atStart c a) b
    if nullable atStart false a then mkAlt left (deriv atStart c b) else left
  | .alt a b => mkAlt (deriv atStart c a) (deriv atStart c b)
  | .star a => mkSeq (deriv atStart c a) (.star a)

def matchFrom (atStart : Bool) (r : Re) : List Char → Bool
  | [] => nullable atStart true r
  | c :: cs => matchFrom false (deriv atStart c r) cs

/-- `std::regex_match( s, r)`: the whole string matches -/
def Re.matches (r : Re) (s : List Char) : Bool := matchFrom true r s

/-! ### the pattern parser -/

/-- characters that may follow a backslash as "identity escape" in the subset -/
def escapable (c : Char) : Bool :=
  ".*+?()[]{}|^$\\/-".toList.contains c

/-- the items of a character class, up to the closing `]`; `first`: no item seen yet (a `-` there is
    a literal).  Returns the items and the rest behind `]`. -/
def parseClassItems : (fuel : Nat) → List Char → (first : Bool) → List CItem → Option (List CItem × List Char)
  | 0, _, _, _ => none
  | _ + 1, [], _, _ => none
  | _ + 1, ']' :: rest, first, acc => if first then none else some (acc.reverse, rest)
  | _ + 1, '[' :: _, _, _ => none                       -- POSIX classes: outside the subset
  | fuel + 1, '\\' :: e :: rest, _, acc =>
    match e with
    | 'd' => parseClassItems fuel rest false (.digit :: acc)
    | 'w' => parseClassItems fuel rest false (.word :: acc)
    | 's' => parseClassItems fuel rest false (.space :: acc)
    | 't' => parseClassItems fuel rest false (.ch '\t' :: acc)
    | 'n' => parseClassItems fuel rest false (.ch '\n' :: acc)
    | _ => if escapable e then
             -- an escaped character is never the start of a range in the subset
             (match rest with
              | '-' :: x :: _ => if x == ']' then parseClassItems fuel rest false (.ch e :: acc) else none
              | _ => parseClassItems fuel rest false (.ch e :: acc))
           else none
  | _ + 1, ['\\'], _, _ => none
  | fuel + 1, '-' :: rest, first, acc =>
    -- literal when it is the first or the last item
    match rest with
    | ']' :: _ => parseClassItems fuel rest false (.ch '-' :: acc)
    | _ => if first then parseClassItems fuel rest false (.ch '-' :: acc) else none
  | fuel + 1, c :: '-' :: hi :: rest, _, acc =>
    if hi == ']' then parseClassItems fuel ('-' :: hi :: rest) false (.ch c :: acc)
    else if hi == '\\' || hi == '[' then none
    else if c ≤ hi then parseClassItems fuel rest false (.range c hi :: acc) else none
  | fuel + 1, c :: rest, _, acc => parseClassItems fuel rest false (.ch c :: acc)

/-- `[` … `]` (the `[` already consumed) -/
def parseClass (s : List Char) : Option (Re × List Char) :=
  let (neg, body) := match s with
    | '^' :: r => (true, r)
    | r => (false, r)
  (parseClassItems (body.length + 1) body true []).map (fun (items, rest) => (.cls neg items, rest))

/-- an item of a sequence and whether a quantifier may still be applied to it -/
abbrev Item := Re × Bool

/-- one open group: the completed alternatives and the items of the alternative being read, both
    in reverse order -/
structure Frame where
  alts : List Re := []
  cur  : List Item := []
  deriving Repr, Inhabited

def seqOf (items : List Item) : Re :=       -- `items` in reverse order
  items.foldl (fun acc it => mkSeq it.1 acc) .eps

def Frame.close (f : Frame) : Re :=
  -- alternatives in reverse order: fold builds a₁ | (a₂ | …)
  f.alts.foldl (fun acc a => .alt a acc) (seqOf f.cur)

def quantify (q : Char) (f : Frame) : Option Frame :=
  match f.cur with
  | (r, true) :: rest =>
    let r' := match q with
      | '*' => Re.star r
      | '+' => Re.seq r (Re.star r)
      | _ => Re.alt r .eps
    some { f with cur := (r', false) :: rest }
  | _ => none

def pushItem (it : Item) : List Frame → Option (List Frame)
  | f :: fs => some ({ f with cur := it :: f.cur } :: fs)
  | [] => none

def parseLoop : (fuel : Nat) → List Char → List Frame → Option Re
  | 0, _, _ => none
  | _ + 1, [], [f] => some f.close
  | _ + 1, [], _ => none
  | fuel + 1, c :: rest, stack =>
    match c with
    | '(' =>
      match rest with
      | '?' :: ':' :: rest' => parseLoop fuel rest' ({} :: stack)
      | '?' :: _ => none
      | _ => parseLoop fuel rest ({} :: stack)
    | ')' =>
      match stack with
      | f :: g :: fs => parseLoop fuel rest ({ g with cur := (f.close, true) :: g.cur } :: fs)
      | _ => none
    | '|' =>
      match stack with
      | f :: fs => parseLoop fuel rest ({ alts := seqOf f.cur :: f.alts, cur := [] } :: fs)
      | [] => none
    | '*' | '+' | '?' =>
      match stack with
      | f :: fs => (quantify c f).bind (fun f' => parseLoop fuel rest (f' :: fs))
      | [] => none
    | '[' =>
      match parseClass rest with
      | some (r, rest') => (pushItem (r, true) stack).bind (parseLoop fuel rest')
      | none => none
    | '\\' =>
      match rest with
      | e :: rest' =>
        let atom : Option Re := match e with
          | 'd' => some (.cls false [.digit]) | 'D' => some (.cls true [.digit])
          | 'w' => some (.cls false [.word])  | 'W' => some (.cls true [.word])
          | 's' => some (.cls false [.space]) | 'S' => some (.cls true [.space])
          | 't' => some (.chr '\t') | 'n' => some (.chr '\n')
          | _ => if escapable e then some (.chr e) else none
        atom.bind (fun a => (pushItem (a, true) stack).bind (parseLoop fuel rest'))
      | [] => none
    | '.' => (pushItem (.any, true) stack).bind (parseLoop fuel rest)
    | '^' => (pushItem (.bol, false) stack).bind (parseLoop fuel rest)
    | '$' => (pushItem (.eol, false) stack).bind (parseLoop fuel rest)
    | '{' | '}' | ']' => none
    | _ => (pushItem (.chr c, true) stack).bind (parseLoop fuel rest)

/-- `std::regex( pattern)` for a pattern of the subset; `none`: outside the subset -/
def parse (p : List Char) : Option Re := parseLoop (p.length + 1) p [{}]

/-- pattern string and value string → does the whole value match (none: pattern outside the subset) -/
def matchPattern (p : List Char) (s : List Char) : Option Bool := (parse p).map (·.matches s)

end CelmaVerif.Regex
