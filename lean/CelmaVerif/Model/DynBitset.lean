import CelmaVerif.Base.Res
/-
  Model of celma::container::DynamicBitset (src/library/container/dynamic_bitset.cpp,
  src/celma/container/dynamic_bitset.hpp) and of its iterators
  (src/celma/container/detail/dynamic_bitset_iterator.hpp), branch by branch.

  The bit storage `std::vector<bool> mData` is a `List Bool` (index 0 = bit 0).  Every
  `mData[idx]` of the C++ is a *checked* access here (`rd` / `wr`): an index that is not below the
  current size yields `Res.oob` (libstdc++'s `vector<bool>::operator[]` is unchecked, the C++ would
  touch memory outside the vector).  Exceptions are `Res.throw`.  Loops are the loops of the code
  (`forUp` / `forDown` with the same bounds and the same index expressions), not closed forms.

  Range of the model: the positional modifiers and the shifts are modelled for positions and shift
  distances below `posLimit` = 2^51 only (`inRange`): there `(pos + 1) * 1.5` evaluated in `double`
  and truncated is exactly `(pos + 1) * 3 / 2` (the product is below 2^52, so it has at most one
  fractional bit inside the 53-bit mantissa), and `pos + 1`, `size + pos`, `idx + pos` do not wrap
  (vector sizes are below 2^63 = `vector<bool>::max_size()`) and `ssize_t` holds every position.
  For larger arguments the model answers `oob "… not modelled"`, so every theorem about these
  operations carries the bound as a hypothesis.  Still assumed, not modelled: allocation succeeds.

  The second half of the file is the *reference* bit vector `Ref` (specification side).
-/
namespace CelmaVerif.DynBitset
open CelmaVerif

abbrev Bits := List Bool

/-! ## checked storage access and loops -/

/-- checked `mData[i]` (read) -/
def rd (v : Bits) (i : Nat) (what : String := "vector<bool>[] read outside") : Res Bool :=
  if i < v.length then .ok (v.getD i false) else .oob what

/-- checked `x[i] = b` (write) into a vector / string -/
def wr {α : Type} (v : List α) (i : Nat) (b : α) (what : String := "vector<bool>[] write outside") :
    Res (List α) :=
  if i < v.length then .ok (v.set i b) else .oob what

/-- `for (idx = lo; idx < lo + n; ++idx) body` -/
def forUp {σ : Type} (body : Nat → σ → Res σ) : Nat → Nat → σ → Res σ
  | 0, _, s => .ok s
  | n + 1, lo, s =>
    match body lo s with
    | .ok s' => forUp body n (lo + 1) s'
    | .throw e => .throw e
    | .oob w => .oob w

/-- `for (idx = hi - 1; idx >= hi - n; --idx) body` (n iterations, downwards) -/
def forDown {σ : Type} (body : Nat → σ → Res σ) : Nat → Nat → σ → Res σ
  | 0, _, s => .ok s
  | n + 1, hi, s =>
    match body (hi - 1) s with
    | .ok s' => forDown body n (hi - 1) s'
    | .throw e => .throw e
    | .oob w => .oob w

/-- `std::vector<bool>::resize( n, init)` -/
def resize (v : Bits) (n : Nat) (init : Bool := false) : Bits :=
  v.take n ++ List.replicate (n - v.length) init

/-- the new size `(pos + 1) * 1.5` (computed in `double` by the code, truncated to `size_t`);
    exact only for positions below `posLimit`, see `inRange` -/
def growSize (pos : Nat) : Nat := (pos + 1) * 3 / 2

/-- positions and shift distances the model covers: below 2^51 -/
def posLimit : Nat := 2 ^ 51

/-- the guard around every operation whose code computes `pos + 1`, `(pos + 1) * 1.5` (in `double`),
    `size + pos` or `idx + pos`: inside the range the code-following body, outside it the model
    says nothing (`oob`), because the `double` rounding and the `size_t` wrap-around are not
    modelled. -/
def inRange {α : Type} (k : Nat) (body : Res α) : Res α :=
  if k < posLimit then body
  else .oob "position / shift distance >= 2^51: double and size_t arithmetic not modelled"

/-- `DynamicBitset( size_t num_bits)` -/
def ofSize (n : Nat) : Bits := if n > 0 then resize [] n else []

/-! ## observers -/

/-- `test( pos)` -/
def test (v : Bits) (pos : Nat) : Res Bool :=
  if pos ≥ v.length then .throw .out_of_range else rd v pos "test: mData[pos]"

/-- `all()`: `std::find( begin, end, false) == end` -/
def allSet (v : Bits) : Bool := !(v.contains false)
/-- `any()`: `std::find( begin, end, true) != end` -/
def anySet (v : Bits) : Bool := v.contains true
/-- `none()` -/
def noneSet (v : Bits) : Bool := !(v.contains true)
/-- `count()`: `std::count( begin, end, true)` -/
def count (v : Bits) : Nat := v.count true
/-- `size()` -/
def size (v : Bits) : Nat := v.length
/-- `operator ==` (vector comparison: same size, same bits) -/
def eq (a b : Bits) : Bool := a == b

/-- `operator []( pos) const` -/
def idxConst (v : Bits) (pos : Nat) : Res Bool :=
  if pos ≥ v.length then .throw .out_of_range else rd v pos "operator[] const: mData[pos]"

/-- `to_string( zero, one)`: `result( size, zero)`, then `result[ size - idx - 1] = one` for every set bit -/
def strBody (one : Char) (v : Bits) (idx : Nat) (s : List Char) : Res (List Char) :=
  match rd v idx "to_string: mData[idx]" with
  | .ok true => wr s (v.length - idx - 1) one "to_string: result[size-idx-1]"
  | .ok false => .ok s
  | .throw e => .throw e
  | .oob w => .oob w

/-- `to_string< char>( zero, one)` -/
def toStrWith (v : Bits) (zero one : Char) : Res (List Char) :=
  forUp (strBody one v) v.length 0 (List.replicate v.length zero)

/-- `to_string()` (default characters) -/
def toStr (v : Bits) : Res (List Char) := toStrWith v '0' '1'

/-- `to_ulong()` -/
def ulBody (v : Bits) (idx : Nat) (acc : Nat) : Res Nat :=
  match rd v idx "to_ulong: mData[idx]" with
  | .ok true => if idx ≥ 64 then .throw .overflow_error else .ok (acc + 2 ^ idx)   -- `result += 1L << idx`
  | .ok false => .ok acc
  | .throw e => .throw e
  | .oob w => .oob w

def toUlong (v : Bits) : Res Nat :=
  forUp (ulBody v) v.length 0 0

/-! ## single-bit and whole-set modifiers -/

/-- `set()`: range-for over the proxies, `flag = true` -/
def setAll (v : Bits) : Res Bits := .ok (v.map fun _ => true)

/-- `set( pos, value)` -/
def setCode (v : Bits) (pos : Nat) (value : Bool) : Res Bits :=
  let v' := if pos ≥ v.length then resize v (growSize pos) else v
  wr v' pos value "set: mData[pos]"

/-- `set( pos, value)` (positions below `posLimit`, see `inRange`) -/
def set (v : Bits) (pos : Nat) (value : Bool) : Res Bits :=
  inRange pos (setCode v pos value)

/-- `reset()`: `mData.clear()` — the vector becomes empty -/
def resetAll (_v : Bits) : Res Bits := .ok []

/-- `reset( pos)` -/
def resetCode (v : Bits) (pos : Nat) : Res Bits :=
  let v' := if pos ≥ v.length then resize v (growSize pos) else v
  wr v' pos false "reset: mData[pos]"

/-- `reset( pos)` (positions below `posLimit`, see `inRange`) -/
def reset (v : Bits) (pos : Nat) : Res Bits :=
  inRange pos (resetCode v pos)

/-- `flip()`: `mData.flip()` -/
def flipAll (v : Bits) : Res Bits := .ok (v.map (!·))

/-- `flip( pos)`: `mData[pos] = !mData[pos]` -/
def flipCode (v : Bits) (pos : Nat) : Res Bits :=
  let v' := if pos ≥ v.length then resize v (growSize pos) else v
  match rd v' pos "flip: read mData[pos]" with
  | .ok b => wr v' pos (!b) "flip: write mData[pos]"
  | .throw e => .throw e
  | .oob w => .oob w

/-- `flip( pos)` (positions below `posLimit`, see `inRange`) -/
def flip (v : Bits) (pos : Nat) : Res Bits :=
  inRange pos (flipCode v pos)

/-- `operator []( pos)` (non-const): grows, then forms the reference `mData[pos]` -/
def idxGrow (v : Bits) (pos : Nat) : Res Bits :=
  let v' := if pos ≥ v.length then resize v (growSize pos) else v
  if pos < v'.length then .ok v' else .oob "operator[]: reference mData[pos]"

/-- `bool b = dbs[pos]` through the non-const operator: (grown vector, value) -/
def idxReadCode (v : Bits) (pos : Nat) : Res (Bits × Bool) :=
  match idxGrow v pos with
  | .ok v' => match rd v' pos "operator[]: read through reference" with
    | .ok b => .ok (v', b)
    | .throw e => .throw e
    | .oob w => .oob w
  | .throw e => .throw e
  | .oob w => .oob w

/-- `bool b = dbs[pos]` through the non-const operator (positions below `posLimit`, see `inRange`) -/
def idxRead (v : Bits) (pos : Nat) : Res (Bits × Bool) :=
  inRange pos (idxReadCode v pos)

/-- `dbs[pos] = value` -/
def idxAssignCode (v : Bits) (pos : Nat) (value : Bool) : Res Bits :=
  match idxGrow v pos with
  | .ok v' => wr v' pos value "operator[]: write through reference"
  | .throw e => .throw e
  | .oob w => .oob w

/-- `dbs[pos] = value` (positions below `posLimit`, see `inRange`) -/
def idxAssign (v : Bits) (pos : Nat) (value : Bool) : Res Bits :=
  inRange pos (idxAssignCode v pos value)

/-! ## logical compound assignments (loops as coded) -/

/-- body `mData[idx] = mData[idx] OP other.mData[idx]` -/
def opBody (f : Bool → Bool → Bool) (other : Bits) (idx : Nat) (v : Bits) : Res Bits :=
  match rd v idx "logic op: mData[idx]" with
  | .ok x => match rd other idx "logic op: other.mData[idx]" with
    | .ok y => wr v idx (f x y) "logic op: write mData[idx]"
    | .throw e => .throw e
    | .oob w => .oob w
  | .throw e => .throw e
  | .oob w => .oob w

/-- body `mData[idx] = false` -/
def clrBody (idx : Nat) (v : Bits) : Res Bits := wr v idx false "clear mData[idx]"

/-- `operator &=` -/
def andAssign (a b : Bits) : Res Bits :=
  if a.length < b.length then
    forUp (opBody (· && ·) b) a.length 0 a
  else
    match forUp (opBody (· && ·) b) b.length 0 a with
    | .ok v => forUp clrBody (a.length - b.length) b.length v
    | .throw e => .throw e
    | .oob w => .oob w

/-- `operator |=` -/
def orAssign (a b : Bits) : Res Bits :=
  let a' := if a.length < b.length then resize a b.length else a
  forUp (opBody (· || ·) b) (min a'.length b.length) 0 a'

/-- `operator ^=` -/
def xorAssign (a b : Bits) : Res Bits :=
  let a' := if a.length < b.length then resize a b.length else a
  forUp (opBody (· != ·) b) (min a'.length b.length) 0 a'

/-- free `operator &`: copy, `&=` -/
def bitAnd (a b : Bits) : Res Bits := andAssign a b
/-- free `operator |` -/
def bitOr (a b : Bits) : Res Bits := orAssign a b
/-- free `operator ^` -/
def bitXor (a b : Bits) : Res Bits := xorAssign a b
/-- `operator ~`: copy, `flip()` -/
def bitNot (a : Bits) : Res Bits := flipAll a

/-! ## shifts (loops as coded) -/

/-- body `dbs.mData[idx + pos] = mData[idx]` -/
def shlBody (v : Bits) (k idx : Nat) (d : Bits) : Res Bits :=
  match rd v idx "<<: mData[idx]" with
  | .ok x => wr d (idx + k) x "<<: dbs.mData[idx+pos]"
  | .throw e => .throw e
  | .oob w => .oob w

/-- body `mData[idx] = mData[idx - pos]` -/
def shlABody (k idx : Nat) (w : Bits) : Res Bits :=
  match rd w (idx - k) "<<=: mData[idx-pos]" with
  | .ok x => wr w idx x "<<=: mData[idx]"
  | .throw e => .throw e
  | .oob m => .oob m

/-- body `dbs.mData[idx] = mData[idx + pos]` -/
def shrBody (v : Bits) (k idx : Nat) (d : Bits) : Res Bits :=
  match rd v (idx + k) ">>: mData[idx+pos]" with
  | .ok x => wr d idx x ">>: dbs.mData[idx]"
  | .throw e => .throw e
  | .oob w => .oob w

/-- body `mData[idx] = mData[idx + pos]` -/
def shrABody (k idx : Nat) (w : Bits) : Res Bits :=
  match rd w (idx + k) ">>=: mData[idx+pos]" with
  | .ok x => wr w idx x ">>=: mData[idx]"
  | .throw e => .throw e
  | .oob m => .oob m

/-- `operator <<( pos)`: new bitset of `size + pos` zeros, `dbs[idx + pos] = mData[idx]` -/
def shlCode (v : Bits) (k : Nat) : Res Bits :=
  if k = 0 ∨ v.length = 0 then .ok v
  else
    forUp (shlBody v k) v.length 0 (ofSize (v.length + k))

/-- `operator <<( pos)` (positions below `posLimit`, see `inRange`) -/
def shl (v : Bits) (k : Nat) : Res Bits :=
  inRange k (shlCode v k)

/-- `operator <<=( pos)`: resize, copy downwards from `size-1` to `pos`, clear `[0, pos)` -/
def shlAssignCode (v : Bits) (k : Nat) : Res Bits :=
  if k = 0 ∨ v.length = 0 then .ok v
  else
    let v1 := resize v (v.length + k)
    -- `for (idx = size - 1; idx >= pos; --idx)`; pos ≥ 1 here, so the unsigned counter stops
    match forDown (shlABody k) (v1.length - k) v1.length v1 with
    | .ok v2 => forUp clrBody k 0 v2
    | .throw e => .throw e
    | .oob m => .oob m

/-- `operator <<=( pos)` (positions below `posLimit`, see `inRange`) -/
def shlAssign (v : Bits) (k : Nat) : Res Bits :=
  inRange k (shlAssignCode v k)

/-- `operator >>( pos)`: new bitset of `size` zeros, `dbs[idx] = mData[idx + pos]` while `idx + pos < size` -/
def shrCode (v : Bits) (k : Nat) : Res Bits :=
  if k = 0 ∨ v.length = 0 then .ok v
  else
    forUp (shrBody v k) (v.length - k) 0 (ofSize v.length)

/-- `operator >>( pos)` (positions below `posLimit`, see `inRange`) -/
def shr (v : Bits) (k : Nat) : Res Bits :=
  inRange k (shrCode v k)

/-- `operator >>=( pos)`: copy upwards in place, then clear the top `min( pos, size)` bits -/
def shrAssignCode (v : Bits) (k : Nat) : Res Bits :=
  if k = 0 ∨ v.length = 0 then .ok v
  else
    match forUp (shrABody k) (v.length - k) 0 v with
    | .ok v1 =>
      -- `for (idx = (pos < size) ? size - pos : 0; idx < size; ++idx)`
      let start := if k < v1.length then v1.length - k else 0
      forUp clrBody (v1.length - start) start v1
    | .throw e => .throw e
    | .oob m => .oob m

/-- `operator >>=( pos)` (positions below `posLimit`, see `inRange`) -/
def shrAssign (v : Bits) (k : Nat) : Res Bits :=
  inRange k (shrAssignCode v k)

/-! ## iterators: `(bits, mCurrPos : ssize_t)` -/

/-- the `while ((size_t)(++mCurrPos) < size && !test( mCurrPos))` loop of `forward()` -/
def fwdScan (v : Bits) : Nat → Int → Res Int
  | 0, _ => .oob "forward(): loop does not terminate"
  | fuel + 1, p =>
    let p' := p + 1
    if 0 ≤ p' ∧ p' < (v.length : Int) then
      match test v p'.toNat with
      | .ok true => .ok p'
      | .ok false => fwdScan v fuel p'
      | .throw e => .throw e
      | .oob w => .oob w
    else .ok p'

/-- `forward()` -/
def forward (v : Bits) (p : Int) : Res Int :=
  if p < 0 ∨ p ≥ (v.length : Int) then .ok p     -- `(size_t) mCurrPos >= size`
  else fwdScan v (v.length + 1) p

/-- the `while ((--mCurrPos >= 0) && !test( mCurrPos))` loop of `reverse()` -/
def revScan (v : Bits) : Nat → Int → Res Int
  | 0, _ => .oob "reverse(): loop does not terminate"
  | fuel + 1, p =>
    let p' := p - 1
    if p' ≥ 0 then
      match test v p'.toNat with
      | .ok true => .ok p'
      | .ok false => revScan v fuel p'
      | .throw e => .throw e
      | .oob w => .oob w
    else .ok p'

/-- `reverse()` -/
def reverse (v : Bits) (p : Int) : Res Int :=
  if p < 0 then .ok p else revScan v (p.toNat + 2) p

/-- `DynamicBitsetIterator( dbs, startpos)` as used by `begin()` (`startpos = 0`):
    `if ((size_t) mCurrPos < size && !test( mCurrPos)) forward();` -/
def beginIt (v : Bits) : Res Int :=
  let p : Int := 0
  if p.toNat < v.length then
    match test v p.toNat with
    | .ok true => .ok p
    | .ok false => forward v p
    | .throw e => .throw e
    | .oob w => .oob w
  else .ok p

/-- `end()`: position `size` -/
def endIt (v : Bits) : Int := v.length

/-- `DynamicBitsetReverseIterator( dbs, startpos)` as used by `rbegin()` (`startpos = size - 1`,
    which is `-1` as `ssize_t` for an empty bitset): `if (mCurrPos >= 0 && !test( mCurrPos)) reverse();` -/
def rbeginIt (v : Bits) : Res Int :=
  let p : Int := (v.length : Int) - 1
  if p ≥ 0 then
    match test v p.toNat with
    | .ok true => .ok p
    | .ok false => reverse v p
    | .throw e => .throw e
    | .oob w => .oob w
  else .ok p

/-- `rend()`: position `-1` -/
def rendIt (_v : Bits) : Int := -1

/-- `for (it = first; it != last; ++it) out.push_back( *it);` with `step` = `forward`/`reverse` -/
def iterLoop (step : Int → Res Int) (last : Int) : Nat → Int → List Nat → Res (List Nat)
  | 0, _, _ => .oob "iteration does not terminate"
  | fuel + 1, p, acc =>
    if p = last then .ok acc.reverse
    else
      match step p with
      | .ok p' => iterLoop step last fuel p' (p.toNat :: acc)
      | .throw e => .throw e
      | .oob w => .oob w

/-- positions produced by `for (auto pos : dbs)` -/
def iterate (v : Bits) : Res (List Nat) :=
  match beginIt v with
  | .ok p => iterLoop (forward v) (endIt v) (v.length + 2) p []
  | .throw e => .throw e
  | .oob w => .oob w

/-- positions produced by `for (it = rbegin(); it != rend(); ++it)` -/
def riterate (v : Bits) : Res (List Nat) :=
  match rbeginIt v with
  | .ok p => iterLoop (reverse v) (rendIt v) (v.length + 2) p []
  | .throw e => .throw e
  | .oob w => .oob w

/-- `DynamicBitsetIterator::operator --`: `reverse(); if (mCurrPos < 0) mCurrPos = size;` -/
def fwdDec (v : Bits) (p : Int) : Res Int :=
  match reverse v p with
  | .ok p' => .ok (if p' < 0 then (v.length : Int) else p')
  | .throw e => .throw e
  | .oob w => .oob w

/-- `DynamicBitsetReverseIterator::operator --`:
    `forward(); if (mCurrPos >= (ssize_t) size) mCurrPos = -1;` -/
def revDec (v : Bits) (p : Int) : Res Int :=
  match forward v p with
  | .ok p' => .ok (if p' ≥ (v.length : Int) then -1 else p')
  | .throw e => .throw e
  | .oob w => .oob w

/-- the post-increment / post-decrement operators: `auto copy( *this); <move>; return copy;` —
    (position of the returned copy, new position of the iterator) -/
def postOp (move : Int → Res Int) (p : Int) : Res (Int × Int) :=
  match move p with
  | .ok p' => .ok (p, p')
  | .throw e => .throw e
  | .oob w => .oob w

/-- one iterator operation of a walk: pre-increment, pre-decrement, post-increment, post-decrement -/
inductive ItOp where
  | inc | dec | postInc | postDec
  deriving DecidableEq, Repr

/-- what one operation of a walk shows: the position of the returned copy (post forms only) and
    the position of the iterator afterwards -/
structure ItOut where
  copy : Option Int
  pos : Int
  deriving DecidableEq, Repr

/-- one operation on an iterator; `inc`/`dec` are the two moves of the iterator class -/
def itStep (inc dec : Int → Res Int) (p : Int) : ItOp → Res ItOut
  | .inc => rmapI (inc p)
  | .dec => rmapI (dec p)
  | .postInc => rmapP (postOp inc p)
  | .postDec => rmapP (postOp dec p)
where
  rmapI : Res Int → Res ItOut
    | .ok q => .ok ⟨none, q⟩
    | .throw e => .throw e
    | .oob w => .oob w
  rmapP : Res (Int × Int) → Res ItOut
    | .ok (c, q) => .ok ⟨some c, q⟩
    | .throw e => .throw e
    | .oob w => .oob w

/-- a walk: the operations applied one after the other to one iterator, all outputs -/
def itWalk (inc dec : Int → Res Int) : Int → List ItOp → Res (List ItOut)
  | _, [] => .ok []
  | p, op :: ops =>
    match itStep inc dec p op with
    | .ok o =>
      match itWalk inc dec o.pos ops with
      | .ok l => .ok (o :: l)
      | .throw e => .throw e
      | .oob w => .oob w
    | .throw e => .throw e
    | .oob w => .oob w

/-- a walk of a forward iterator starting at `begin()` (`fromEnd = false`) or `end()` -/
def fwdWalk (v : Bits) (fromEnd : Bool) (ops : List ItOp) : Res (List ItOut) :=
  if fromEnd then itWalk (forward v) (fwdDec v) (endIt v) ops
  else match beginIt v with
    | .ok p => itWalk (forward v) (fwdDec v) p ops
    | .throw e => .throw e
    | .oob w => .oob w

/-- a walk of a reverse iterator starting at `rbegin()` (`fromEnd = false`) or `rend()` -/
def revWalk (v : Bits) (fromEnd : Bool) (ops : List ItOp) : Res (List ItOut) :=
  if fromEnd then itWalk (reverse v) (revDec v) (rendIt v) ops
  else match rbeginIt v with
    | .ok p => itWalk (reverse v) (revDec v) p ops
    | .throw e => .throw e
    | .oob w => .oob w

/-! ## conversions from `std::bitset< N>` (`other` = the N bits of the argument) -/

/-- body `mData[ idx] = other[ idx]` -/
def bsBody (other : Bits) (idx : Nat) (v : Bits) : Res Bits :=
  match rd other idx "bitset: other[idx]" with
  | .ok x => wr v idx x "bitset: mData[idx]"
  | .throw e => .throw e
  | .oob w => .oob w

/-- `DynamicBitset( const std::bitset< N>&)`: `mData( N, false)`, then the copy loop -/
def ofBitset (other : Bits) : Res Bits :=
  forUp (bsBody other) other.length 0 (List.replicate other.length false)

/-- `operator =( const std::bitset< N>&)`: `mData.resize( N)`, then the copy loop -/
def assignBitset (v other : Bits) : Res Bits :=
  forUp (bsBody other) other.length 0 (resize v other.length)


/-! ## histories over several named bitsets (registers) -/

abbrev Store := Nat → Bits

/-- continue with the value of a call that returned -/
def rmap {α β : Type} (r : Res α) (f : α → β) : Res β :=
  match r with
  | .ok a => .ok (f a)
  | .throw e => .throw e
  | .oob w => .oob w

def Store.init : Store := fun _ => []
def Store.upd (st : Store) (r : Nat) (v : Bits) : Store := fun x => if x = r then v else st x

/-- the modifying operations; `r`, `s` name operands, `d` the bitset that receives a result -/
inductive Op where
  | new (r : Nat) (bits : Bits)            -- construct from a `vector<bool>`
  | newSized (r : Nat) (n : Nat)           -- `DynamicBitset( n)`
  | setAll (r : Nat) | resetAll (r : Nat) | flipAll (r : Nat)
  | set (r pos : Nat) (val : Bool) | reset (r pos : Nat) | flip (r pos : Nat)
  | idxAssign (r pos : Nat) (val : Bool)   -- `dbs[pos] = val`
  | idxRead (r pos : Nat)                  -- `bool b = dbs[pos]` on a non-const bitset (may grow)
  | resize (r n : Nat) (val : Bool)
  | andA (r s : Nat) | orA (r s : Nat) | xorA (r s : Nat)      -- `r op= s`
  | shlA (r k : Nat) | shrA (r k : Nat)                        -- `r <<= k`, `r >>= k`
  | and (r s d : Nat) | or (r s d : Nat) | xor (r s d : Nat)   -- `d = r op s`
  | shl (r k d : Nat) | shr (r k d : Nat)                      -- `d = r << k`, `d = r >> k`
  | not (r d : Nat) | copy (r d : Nat)

def Op.isResetAll : Op → Bool
  | .resetAll _ => true
  | _ => false

/-- the position or shift distance an operation passes to the code's `size_t` / `double`
    arithmetic (0 for the operations that have none) -/
def Op.arg : Op → Nat
  | .set _ pos _ | .reset _ pos | .flip _ pos | .idxAssign _ pos _ | .idxRead _ pos => pos
  | .shlA _ k | .shrA _ k | .shl _ k _ | .shr _ k _ => k
  | _ => 0

/-- the implementation model: one operation -/
def step (st : Store) : Op → Res Store
  | .new r bits => .ok (st.upd r bits)
  | .newSized r n => .ok (st.upd r (ofSize n))
  | .setAll r => rmap (setAll (st r)) (st.upd r)
  | .resetAll r => rmap (resetAll (st r)) (st.upd r)
  | .flipAll r => rmap (flipAll (st r)) (st.upd r)
  | .set r pos val => rmap (set (st r) pos val) (st.upd r)
  | .reset r pos => rmap (reset (st r) pos) (st.upd r)
  | .flip r pos => rmap (flip (st r) pos) (st.upd r)
  | .idxAssign r pos val => rmap (idxAssign (st r) pos val) (st.upd r)
  | .idxRead r pos => rmap (idxRead (st r) pos) (fun x => st.upd r x.1)
  | .resize r n val => .ok (st.upd r (resize (st r) n val))
  | .andA r s => rmap (andAssign (st r) (st s)) (st.upd r)
  | .orA r s => rmap (orAssign (st r) (st s)) (st.upd r)
  | .xorA r s => rmap (xorAssign (st r) (st s)) (st.upd r)
  | .shlA r k => rmap (shlAssign (st r) k) (st.upd r)
  | .shrA r k => rmap (shrAssign (st r) k) (st.upd r)
  | .and r s d => rmap (bitAnd (st r) (st s)) (st.upd d)
  | .or r s d => rmap (bitOr (st r) (st s)) (st.upd d)
  | .xor r s d => rmap (bitXor (st r) (st s)) (st.upd d)
  | .shl r k d => rmap (shl (st r) k) (st.upd d)
  | .shr r k d => rmap (shr (st r) k) (st.upd d)
  | .not r d => rmap (bitNot (st r)) (st.upd d)
  | .copy r d => .ok (st.upd d (st r))

def run (st : Store) : List Op → Res Store
  | [] => .ok st
  | op :: ops =>
    match step st op with
    | .ok st' => run st' ops
    | .throw e => .throw e
    | .oob w => .oob w

/-- everything the observers of one bitset return (positional observers for every position) -/
structure Obs where
  size : Nat
  str : Res (List Char)
  count : Nat
  any : Bool
  none : Bool
  all : Bool
  ulong : Res Nat
  test : Nat → Res Bool
  cidx : Nat → Res Bool
  fwd : Res (List Nat)
  rev : Res (List Nat)

def observe (v : Bits) : Obs :=
  { size := size v, str := toStr v, count := count v, any := anySet v, none := noneSet v, all := allSet v,
    ulong := toUlong v, test := test v, cidx := idxConst v, fwd := iterate v, rev := riterate v }

/-! ## the reference bit vector (specification side) -/

namespace Ref

/-- bit `i`, zero beyond the size -/
def bit (r : Bits) (i : Nat) : Bool := r.getD i false

/-- the vector of `n` bits whose bit `i` is `f i` -/
def mk (n : Nat) (f : Nat → Bool) : Bits := (List.range n).map f

def size (r : Bits) : Nat := r.length
/-- documented: throws `out_of_range` beyond the size -/
def test (r : Bits) (pos : Nat) : Res Bool := if pos < r.length then .ok (bit r pos) else .throw .out_of_range
def count (r : Bits) : Nat := (r.filter id).length
def any (r : Bits) : Bool := r.any id
def none (r : Bits) : Bool := !r.any id
def all (r : Bits) : Bool := r.all id
/-- most significant bit first -/
def toString (r : Bits) : List Char := r.reverse.map fun b => if b then '1' else '0'
/-- the same with chosen characters for the two bit values -/
def toStringWith (r : Bits) (zero one : Char) : List Char := r.reverse.map fun b => if b then one else zero
/-- the number whose binary digits are the bits -/
def value : Bits → Nat
  | [] => 0
  | b :: bs => (if b then 1 else 0) + 2 * value bs
/-- documented: `overflow_error` when a bit at position 64 or above is set -/
def toUlong (r : Bits) : Res Nat :=
  if (r.drop 64).any id then .throw .overflow_error else .ok (value r)

/-- growth on access at or beyond the size: `⌊(pos+1)·3/2⌋` bits, new bits zero -/
def grow (r : Bits) (pos : Nat) : Bits :=
  if pos < r.length then r else r ++ List.replicate ((pos + 1) * 3 / 2 - r.length) false

def set (r : Bits) (pos : Nat) (val : Bool) : Bits := (grow r pos).set pos val
def reset (r : Bits) (pos : Nat) : Bits := (grow r pos).set pos false
def flip (r : Bits) (pos : Nat) : Bits := (grow r pos).set pos (!bit r pos)
def setAll (r : Bits) : Bits := List.replicate r.length true
/-- all bits cleared, size unchanged (the `std::bitset` meaning of `reset()`) -/
def resetAll (r : Bits) : Bits := List.replicate r.length false
def flipAll (r : Bits) : Bits := r.map (!·)
def resize (r : Bits) (n : Nat) (init : Bool) : Bits := r.take n ++ List.replicate (n - r.length) init

/-- size of the left operand, missing bits of the right operand are zero -/
def and (a b : Bits) : Bits := mk a.length fun i => bit a i && bit b i
/-- size of the larger operand -/
def or (a b : Bits) : Bits := mk (max a.length b.length) fun i => bit a i || bit b i
def xor (a b : Bits) : Bits := mk (max a.length b.length) fun i => bit a i != bit b i
/-- shift towards higher positions; the vector grows by `k` (an empty vector stays empty) -/
def shl (r : Bits) (k : Nat) : Bits := if r = [] then r else List.replicate k false ++ r
/-- shift towards lower positions, size unchanged, zeros enter at the top -/
def shr (r : Bits) (k : Nat) : Bits := r.drop k ++ List.replicate (min k r.length) false

/-- set positions in ascending order -/
def setPositions (r : Bits) : List Nat := (List.range r.length).filter (bit r)


/-- the reference: one operation.  `clearing` selects what `reset()` means: `false` = all bits
    cleared, size kept (the reference bit vector); `true` = the vector is emptied. -/
def step (clearing : Bool) (st : Store) : Op → Store
  | .new r bits => st.upd r bits
  | .newSized r n => st.upd r (List.replicate n false)
  | .setAll r => st.upd r (setAll (st r))
  | .resetAll r => st.upd r (if clearing then [] else resetAll (st r))
  | .flipAll r => st.upd r (flipAll (st r))
  | .set r pos val => st.upd r (set (st r) pos val)
  | .reset r pos => st.upd r (reset (st r) pos)
  | .flip r pos => st.upd r (flip (st r) pos)
  | .idxAssign r pos val => st.upd r (set (st r) pos val)
  | .idxRead r pos => st.upd r (grow (st r) pos)
  | .resize r n val => st.upd r (resize (st r) n val)
  | .andA r s => st.upd r (and (st r) (st s))
  | .orA r s => st.upd r (or (st r) (st s))
  | .xorA r s => st.upd r (xor (st r) (st s))
  | .shlA r k => st.upd r (if k = 0 then st r else shl (st r) k)
  | .shrA r k => st.upd r (shr (st r) k)
  | .and r s d => st.upd d (and (st r) (st s))
  | .or r s d => st.upd d (or (st r) (st s))
  | .xor r s d => st.upd d (xor (st r) (st s))
  | .shl r k d => st.upd d (if k = 0 then st r else shl (st r) k)
  | .shr r k d => st.upd d (shr (st r) k)
  | .not r d => st.upd d (flipAll (st r))
  | .copy r d => st.upd d (st r)

def run (clearing : Bool) (st : Store) : List Op → Store
  | [] => st
  | op :: ops => run clearing (step clearing st op) ops

def observe (r : Bits) : Obs :=
  { size := size r, str := .ok (toString r), count := count r, any := any r, none := none r, all := all r,
    ulong := toUlong r, test := test r, cidx := test r,
    fwd := .ok (setPositions r), rev := .ok (setPositions r).reverse }

end Ref

end CelmaVerif.DynBitset
