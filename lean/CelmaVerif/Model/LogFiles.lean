import CelmaVerif.Base.Res
/-
  Model of the rolling log file policies (property C15), core Lean only.

  Follows, branch by branch, the code of the *repaired* tree
    src/library/log/files/policy_base.cpp   PolicyBase::open / writeMessage / reOpenFile / fileSize
    src/library/log/files/counted.cpp       Counted::openCheck / rollFiles / writeCheck / written
    src/library/log/files/max_size.cpp      MaxSize::openCheck / rollFiles / writeCheck / written
    src/celma/log/files/handler.hpp         Handler ctor (= open()), message() (= format + writeMessage)
    src/library/log/filename/builder.cpp    (only: generation number -> file name, injective)
    src/library/common/file_operations.cpp  rename(dest, src) -> ::rename(src, dest), errors ignored

  The file system is the map generation number -> content of the file with that number in its name;
  a file is the list of message texts written to it (each was written as text followed by '\n').
-/
namespace CelmaVerif.LogFiles

/-- text of one log message, bytes -/
abbrev Msg := List Nat
/-- content of a log file: the messages written, each followed by a newline on disk -/
abbrev File := List Msg
/-- the log directory: generation number (the number part of the file name) -> file.
    (A structure around the function so that the compiled driver evaluates each update once.) -/
structure Fs where
  get : Nat → Option File

def emptyFs : Fs := ⟨fun _ => none⟩

def setFile (fs : Fs) (n : Nat) (f : File) : Fs := ⟨fun i => if i = n then some f else fs.get i⟩

/-- bytes on disk -/
def fileBytes (f : File) : Nat := (f.map (fun m => m.length + 1)).sum
/-- number of '\n' bytes on disk (what `std::count(..., '\n')` in Counted::openCheck sees) -/
def fileNewlines (f : File) : Nat := (f.map (fun m => m.count 10 + 1)).sum
/-- the bytes on disk -/
def fileContent (f : File) : List Nat := (f.map (fun m => m ++ [10])).flatten

inductive Kind where
  | counted | maxsize
  deriving DecidableEq, Repr

structure Cfg where
  kind : Kind
  /-- `max_entries` / `max_file_size` -/
  limit : Nat
  /-- `max_gen` (an `int` in C++; values below 1 behave like 1: the rename loop does not run) -/
  maxGen : Nat
  deriving Repr

/-- the live policy object.  Its only mutable state besides the stream is the counter
    (`Counted::mNumberOfEntries` / `MaxSize::mCurrentFilesize`); the stream always refers to the
    file of generation 0, positioned at its end, and is flushed by `std::endl` after every message. -/
structure Policy where
  counter : Nat
  deriving Repr

/-- open modes used by `PolicyBase::open`: `out | app | ate` (first open) and `out | trunc` (after a roll) -/
inductive Mode where
  | appAte | trunc

/-- `mFile.open(name of generation 0, mode)` followed by `tellp()`:
    `trunc` creates or empties the file, position 0;
    `app | ate` keeps an existing file and positions at its end, creates an empty one otherwise. -/
def fopen (fs : Fs) : Mode → Fs × Nat
  | .trunc => (setFile fs 0 [], 0)
  | .appAte =>
    match fs.get 0 with
    | some f => (fs, fileBytes f)
    | none => (setFile fs 0 [], 0)

/-- `openCheck()`: returns the new counter value and the verdict.
    Counted: counter := 0; an empty file is fine; otherwise counter := number of newlines in the
    existing file, fine while below the maximum.
    MaxSize: counter := file size, fine while below the maximum. -/
def openCheck (cfg : Cfg) (fs : Fs) (tellp : Nat) : Nat × Bool :=
  match cfg.kind with
  | .counted =>
    if tellp = 0 then (0, true)
    else
      let n := fileNewlines ((fs.get 0).getD [])
      (n, n < cfg.limit)
  | .maxsize => (tellp, tellp < cfg.limit)

/-- `FileOperations::rename(dest, src)` = `::rename(src, dest)`; a missing source is an ignored error -/
def rename (fs : Fs) (dest src : Nat) : Fs :=
  match fs.get src with
  | none => fs
  | some f => ⟨fun i => if i = src then none else if i = dest then some f else fs.get i⟩

/-- the loop `for (file_nbr = top; file_nbr > 0; --file_nbr) rename(name(file_nbr), name(file_nbr - 1))` -/
def rollFrom (fs : Fs) : Nat → Fs
  | 0 => fs
  | n + 1 => rollFrom (rename fs (n + 1) n) n

/-- `Counted::rollFiles` / `MaxSize::rollFiles` (identical) -/
def rollFiles (cfg : Cfg) (fs : Fs) : Fs := rollFrom fs (cfg.maxGen - 1)

/-- `open(true)`: open truncating, check, throw when the check fails -/
def openAfterRoll (cfg : Cfg) (fs : Fs) : Fs × Res Policy :=
  let (fs1, pos) := fopen fs .trunc
  let (c, ok) := openCheck cfg fs1 pos
  if ok then (fs1, .ok ⟨c⟩) else (fs1, .throw .runtime_error)

/-- `reOpenFile()`: close, roll the generations, `open(true)` -/
def reOpenFile (cfg : Cfg) (fs : Fs) : Fs × Res Policy :=
  openAfterRoll cfg (rollFiles cfg fs)

/-- `open(false)`: what the Handler constructor calls -/
def openFirst (cfg : Cfg) (fs : Fs) : Fs × Res Policy :=
  let (fs1, pos) := fopen fs .appAte
  let (c, ok) := openCheck cfg fs1 pos
  if ok then (fs1, .ok ⟨c⟩) else reOpenFile cfg fs1

def writeCheck (cfg : Cfg) (p : Policy) (m : Msg) : Bool :=
  match cfg.kind with
  | .counted => p.counter + 1 ≤ cfg.limit
  | .maxsize => p.counter + m.length + 1 ≤ cfg.limit

def written (cfg : Cfg) (p : Policy) (m : Msg) : Policy :=
  match cfg.kind with
  | .counted => ⟨p.counter + 1⟩
  | .maxsize => ⟨p.counter + m.length + 1⟩

/-- `mFile << msg_text << std::endl` on the open file of generation 0 -/
def appendLine (fs : Fs) (m : Msg) : Fs := setFile fs 0 ((fs.get 0).getD [] ++ [m])

/-- `PolicyBase::writeMessage` -/
def writeMessage (cfg : Cfg) (fs : Fs) (p : Policy) (m : Msg) : Fs × Res Policy :=
  if writeCheck cfg p m then (appendLine fs m, .ok (written cfg p m))
  else
    match reOpenFile cfg fs with
    | (fs1, .ok p1) => (appendLine fs1 m, .ok (written cfg p1 m))
    | (fs1, .throw e) => (fs1, .throw e)
    | (fs1, .oob w) => (fs1, .oob w)

/-! ### histories -/

inductive Event where
  | write (m : Msg)
  /-- the process ends (the Handler and its policy are destroyed, the stream is closed) and a new
      one constructs the same policy on the same directory -/
  | restart
  deriving Repr

structure World where
  cfg : Cfg
  fs : Fs
  /-- `none`: no policy object (construction threw) -/
  pol : Option Policy

def resPol : Res Policy → Option Policy
  | .ok p => some p
  | _ => none

/-- construct policy + Handler on a directory -/
def start (cfg : Cfg) (fs : Fs) : World × Res Unit :=
  match openFirst cfg fs with
  | (fs1, .ok p) => (⟨cfg, fs1, some p⟩, .ok ())
  | (fs1, .throw e) => (⟨cfg, fs1, none⟩, .throw e)
  | (fs1, .oob w) => (⟨cfg, fs1, none⟩, .oob w)

def World.step (w : World) : Event → World × Res Unit
  | .restart => start w.cfg w.fs
  | .write m =>
    match w.pol with
    | none => (w, .oob "write without a policy object")
    | some p =>
      match writeMessage w.cfg w.fs p m with
      | (fs1, .ok p1) => (⟨w.cfg, fs1, some p1⟩, .ok ())
      | (fs1, .throw e) => (⟨w.cfg, fs1, some p⟩, .throw e)
      | (fs1, .oob x) => (⟨w.cfg, fs1, some p⟩, .oob x)

/-- a fresh directory, construction, then the events -/
def run (cfg : Cfg) (evs : List Event) : World :=
  evs.foldl (fun w e => (w.step e).1) (start cfg emptyFs).1

def messages : List Event → List Msg
  | [] => []
  | .write m :: es => m :: messages es
  | .restart :: es => messages es

/-! ### what the property talks about -/

/-- number of generation files the configuration allows -/
def numGen (cfg : Cfg) : Nat := if cfg.maxGen = 0 then 1 else cfg.maxGen

/-- what a generation is measured in: entries or bytes -/
def size (cfg : Cfg) (f : File) : Nat :=
  match cfg.kind with
  | .counted => f.length
  | .maxsize => fileBytes f

/-- what one message adds to the size of a generation -/
def cost (cfg : Cfg) (m : Msg) : Nat :=
  match cfg.kind with
  | .counted => 1
  | .maxsize => m.length + 1

/-- the content of generations n-1, …, 0 (oldest first), read as one sequence of messages -/
def retained (fs : Fs) : Nat → List Msg
  | 0 => []
  | n + 1 => (fs.get n).getD [] ++ retained fs n

/-- the generation files with a number below `n`, oldest first -/
def generations (fs : Fs) (n : Nat) : List File := (List.range n).reverse.filterMap fs.get

/-- a message the property's domain allows: any length (also longer than a whole generation); for the
    entry-counted policy (which counts the lines of an existing file when it is re-opened) it contains no
    newline -/
def Writable (cfg : Cfg) (m : Msg) : Prop :=
  cfg.kind = .counted → 10 ∉ m

/-- a writable message that also fits a generation on its own -/
def Admissible (cfg : Cfg) (m : Msg) : Prop :=
  cost cfg m ≤ cfg.limit ∧ (cfg.kind = .counted → 10 ∉ m)

/-- the limit clause of the property for one generation: it respects the limit, or it consists of exactly one
    message (which then does not fit a generation on its own: there is nowhere else to put it) -/
def GenOk (cfg : Cfg) (g : File) : Prop :=
  size cfg g ≤ cfg.limit ∨ g.length = 1

instance (cfg : Cfg) (g : File) : Decidable (GenOk cfg g) := by unfold GenOk; infer_instance

/-- what the next message of a generation costs: its first message, or the cheapest message possible
    when there is none yet -/
def nextCost (cfg : Cfg) : File → Nat
  | [] => 1
  | m :: _ => cost cfg m

end CelmaVerif.LogFiles
