import CelmaVerif.Base.Res
/-
  Integer-to-string conversions of Celma (property C13) — executable model, core Lean only.

  The *data* (decision trees of `intN_str_length`, per digit count the statements the eight
  `convert()` functions execute — written as the `case`s of a switch —, the expressions used by the 32 caller functions, the zero/negative dispatch of
  the `detail/*.hpp` headers and the overload table of `int2string.hpp`/`grouped_int2string.hpp`) is
  not written here: `translate/int2str.py` regenerates it from the C++ sources into
  `Generated/Int2Str.lean` on every run.  This file defines

  * the types of that data,
  * an interpreter that executes it the way the C++ executes (checked stores: a write outside the
    destination object is `.oob`, undefined behaviour such as signed overflow is `.oob "UB: …"`),
  * decidable *well-formedness checks* over the finite tables (no value is quantified there); the
    generic theorems of `Lemmas/Int2Str*.lean` say: tables that pass the checks convert every value
    exactly.  `Generated/Int2Str.lean` discharges the checks by `decide` for the regenerated tables.
-/
namespace CelmaVerif.Int2Str

/-! ### digit count: the decision tree of `intN_str_length` -/

/-- `node k ge lt` is `if (value >= k) ge else lt`; `leaf n` is `return n` -/
inductive Tree where
  | leaf (n : Nat)
  | node (k : Nat) (ge lt : Tree)
  deriving Repr, Inhabited

namespace Tree

def eval : Tree → Nat → Nat
  | leaf n, _ => n
  | node k ge lt, v => if k ≤ v then ge.eval v else lt.eval v

def leaves : Tree → List Nat
  | leaf n => [n]
  | node _ ge lt => ge.leaves ++ lt.leaves

/-- every leaf reachable for a value in `[lo, hi)` is the number of decimal digits of all values that
    reach it (a leaf `1` also covers 0) -/
def ok : Tree → Nat → Nat → Bool
  | leaf n, lo, hi => decide (hi ≤ lo) || (decide (1 ≤ n) && (n == 1 || decide (10 ^ (n - 1) ≤ lo)) && decide (hi ≤ 10 ^ n))
  | node k ge lt, lo, hi => ge.ok (max lo k) hi && lt.ok lo (min hi k)

end Tree

/-! ### the unrolled `convert()` switch -/

/-- the statements that occur in the `case`s -/
inductive Op where
  /-- `*buffer[--] = base + (value [% m]);` -/
  | emit (base : Nat) (modulus : Option Nat) (dec : Bool)
  /-- `value /= d;` -/
  | div (d : Nat)
  /-- `++num_digits;` -/
  | inc
  /-- `checkAddGroupChar( buffer, num_digits, group_char)`:
      `if (++num_digits == thr) { *buffer-- = group_char; num_digits = reset; }` -/
  | check (thr reset : Nat)
  /-- `*buffer[--] = group_char;` — a group character stored on a path on which the translator has
      evaluated the (value-independent) digit counter itself -/
  | group (dec : Bool)
  deriving DecidableEq, Repr

/-- one `case label:` (`none` = `default:`) with its statements; `fall` = no `break` at its end.
    The translator executes the control flow of `convert()` for every digit count and writes the resulting
    statement traces in this form (a switch in the source comes out as it is written; a loop or an if chain
    comes out as the switch it is equivalent to on the digit counts the length function can return). -/
structure Row where
  label : Option Nat
  ops : List Op
  fall : Bool
  deriving Repr

def fallOps : List Row → List Op
  | [] => []
  | r :: rs => if r.fall then r.ops ++ fallOps rs else r.ops

def dropTo (p : Row → Bool) : List Row → Option (List Row)
  | [] => none
  | r :: rs => if p r then some (r :: rs) else dropTo p rs

/-- the statements executed by `switch (k)` over the rows in source order -/
def switchOps (rows : List Row) (k : Nat) : List Op :=
  match dropTo (fun r => r.label == some k) rows with
  | some s => fallOps s
  | none =>
    match dropTo (fun r => r.label == none) rows with
    | some s => fallOps s
    | none => []

/-- state of `convert()`: destination object, `buffer` as an index into it (it may run one below the
    start after the last `*buffer--`), `value`, `num_digits` (a `uint8_t`) -/
structure CS where
  mem : List Byte
  pos : Int
  value : Nat
  nd : Nat
  deriving Repr

/-- checked one-byte store -/
def store (mem : List Byte) (pos : Int) (b : Byte) (what : String) : Res (List Byte) :=
  if 0 ≤ pos ∧ pos < mem.length then .ok (mem.set pos.toNat b) else .oob what

def Op.step (g : Byte) : Op → CS → Res CS
  | .emit base m dec, s =>
    match m with
    | some 0 => .oob "UB: modulo zero"
    | _ =>
      let x := match m with
        | some m => s.value % m
        | none => s.value
      match store s.mem s.pos ((base + x) % 256) "convert: *buffer" with
      | .ok mem => .ok { s with mem := mem, pos := if dec then s.pos - 1 else s.pos }
      | .throw e => .throw e
      | .oob w => .oob w
  | .div d, s => if d = 0 then .oob "UB: division by zero" else .ok { s with value := s.value / d }
  | .inc, s => .ok { s with nd := (s.nd + 1) % 256 }
  | .check thr reset, s =>
    let nd := (s.nd + 1) % 256
    if nd = thr then
      match store s.mem s.pos g "checkAddGroupChar: *buffer" with
      | .ok mem => .ok { s with mem := mem, pos := s.pos - 1, nd := reset % 256 }
      | .throw e => .throw e
      | .oob w => .oob w
    else .ok { s with nd := nd }
  | .group dec, s =>
    match store s.mem s.pos g "convert: *buffer = group_char" with
    | .ok mem => .ok { s with mem := mem, pos := if dec then s.pos - 1 else s.pos }
    | .throw e => .throw e
    | .oob w => .oob w

def exec (g : Byte) : List Op → CS → Res CS
  | [], s => .ok s
  | o :: os, s =>
    match o.step g s with
    | .ok s' => exec g os s'
    | .throw e => .throw e
    | .oob w => .oob w

/-- the destination object after `convert()` -/
def memOf : Res CS → Res (List Byte)
  | .ok s => .ok s.mem
  | .throw e => .throw e
  | .oob w => .oob w

/-! ### the caller functions -/

/-- integer expressions over `result_len` / `grouped_result_len` (C `int` arithmetic) -/
inductive Expr where
  | lit (n : Int)
  | len
  | glen
  | add (a b : Expr)
  | sub (a b : Expr)
  | mul (a b : Expr)
  | div (a b : Expr)
  deriving Repr, Inhabited

def Expr.eval (len glen : Int) : Expr → Int
  | .lit n => n
  | .len => len
  | .glen => glen
  | .add a b => a.eval len glen + b.eval len glen
  | .sub a b => a.eval len glen - b.eval len glen
  | .mul a b => a.eval len glen * b.eval len glen
  | .div a b => Int.tdiv (a.eval len glen) (b.eval len glen)

/-- how `abs_value` is computed: `-value` (negation in the promoted *signed* type, then conversion)
    or `-static_cast< uintC_t>( value)` (conversion first, negation modulo 2^C) -/
inductive NegKind where
  | inSigned
  | inUnsigned
  deriving DecidableEq, Repr

structure NegSpec where
  kind : NegKind
  castBits : Nat          -- C of the cast (inUnsigned only)
  absBits : Nat           -- width of the declared type of `abs_value`
  deriving Repr

/-- one of the four functions of a `*_to_string.cpp` -/
structure Caller where
  paramBits : Nat
  paramSigned : Bool
  neg : Option NegSpec                 -- `const uintN_t abs_value = …;`
  lenArgAbs : Bool                     -- `intN_str_length( abs_value)` rather than `( value)`
  glen : Option Expr                   -- `const uint8_t grouped_result_len = …;`
  strSize : Option (Expr × Byte)       -- `std::string result( size, fill);` (string variants)
  endOff : Expr                        -- `buffer_end = <start> + endOff`
  nulAt : Option (Expr × Byte)         -- `buffer[ e] = '\0';` before `convert` (buffer variants)
  convArgAbs : Bool                    -- `convert( buffer_end, abs_value, …)` rather than `value`
  signAt : Option (Expr × Byte)        -- `buffer[ e] = '-';` after `convert`
  ret : Expr                           -- `return e;` (buffer variants; string variants return `result`)
  deriving Repr

/-- everything taken from one `[grouped_]intN_to_string.cpp` (+ the `str_length` header it uses) -/
structure FileSpec where
  bits : Nat
  grouped : Bool
  tree : Tree             -- of the `intM_str_length` the file calls
  lenCast : Nat           -- `static_cast< uintM_t>( orig_value)` in it
  convBits : Nat          -- type of `convert()`'s `value` parameter
  ndInit : Nat            -- `uint8_t num_digits = 0;` (0 since the translator evaluates the digit counter itself)
  rows : List Row
  ustr : Caller
  nstr : Caller
  ubuf : Caller
  nbuf : Caller
  deriving Repr

/-- the same file with the `convert()` switch taken *as written* (second, literal reading by
    translate/int2str_literal.py: `num_digits` initial value and the statements of every `case`,
    counter statements `inc` / `check` included), when that reading is available -/
def FileSpec.withLiteral (f : FileSpec) : Option (Nat × List Row) → FileSpec
  | none => f
  | some (nd, rows) => { f with ndInit := nd, rows := rows }

def two (b : Nat) : Int := ((2 ^ b : Nat) : Int)

/-- `abs_value` -/
def negate (bits : Nat) (ns : NegSpec) (v : Int) : Res Nat :=
  match ns.kind with
  | .inSigned =>
    -- types narrower than `int` are promoted to (32-bit) `int` before the negation
    let w := if bits < 32 then 32 else bits
    if -(two (w - 1)) ≤ -v ∧ -v < two (w - 1) then .ok ((-v).emod (two ns.absBits)).toNat
    else .oob "UB: signed overflow in -value"
  | .inUnsigned => .ok ((-(v.emod (two ns.castBits))).emod (two ns.absBits)).toNat

structure Prep where
  lenArg : Int
  convArg : Int
  len : Nat
  glen : Int
  deriving Repr

/-- the declarations at the top of every caller -/
def prep (f : FileSpec) (c : Caller) (v : Int) : Res Prep :=
  -- the parameter itself: an in-range value is unchanged, anything else wraps into the parameter type
  let pv : Int := if c.paramSigned then v else v.emod (two c.paramBits)
  let absR : Res Int := match c.neg with
    | none => .ok pv
    | some ns => match negate c.paramBits ns pv with
      | .ok a => .ok (a : Int)
      | .throw e => .throw e
      | .oob w => .oob w
  match absR with
  | .ok a =>
    let lenArg := if c.lenArgAbs then a else pv
    let convArg := if c.convArgAbs then a else pv
    let len := f.tree.eval (lenArg.emod (two f.lenCast)).toNat
    let glen : Int := match c.glen with
      | some e => (e.eval len 0).emod 256        -- stored in a `uint8_t`
      | none => 0
    .ok ⟨lenArg, convArg, len, glen⟩
  | .throw e => .throw e
  | .oob w => .oob w

def convState (f : FileSpec) (c : Caller) (p : Prep) (mem : List Byte) : CS :=
  ⟨mem, c.endOff.eval p.len p.glen, (p.convArg.emod (two f.convBits)).toNat, f.ndInit % 256⟩

/-- a string variant: the returned `std::string` as bytes -/
def runStr (f : FileSpec) (c : Caller) (g : Byte) (v : Int) : Res (List Byte) :=
  match prep f c v with
  | .ok p =>
    match c.strSize with
    | none => .oob "not a string variant"
    | some (sz, fill) =>
      let size := sz.eval p.len p.glen
      if size < 0 then .throw .length_error
      else
        memOf (exec g (switchOps f.rows p.len) (convState f c p (List.replicate size.toNat fill)))
  | .throw e => .throw e
  | .oob w => .oob w

def storeOpt (mem : List Byte) (len glen : Int) (what : String) : Option (Expr × Byte) → Res (List Byte)
  | none => .ok mem
  | some (e, b) => store mem (e.eval len glen) b what

/-- a buffer variant: the caller's buffer afterwards and the returned `int` -/
def runBuf (f : FileSpec) (c : Caller) (g : Byte) (v : Int) (buf : List Byte) : Res (List Byte × Int) :=
  match prep f c v with
  | .ok p =>
    match storeOpt buf p.len p.glen "buffer[ len] = 0" c.nulAt with
    | .ok m1 =>
      match memOf (exec g (switchOps f.rows p.len) (convState f c p m1)) with
      | .ok m =>
        match storeOpt m p.len p.glen "buffer[ 0] = '-'" c.signAt with
        | .ok m2 => .ok (m2, c.ret.eval p.len p.glen)
        | .throw e => .throw e
        | .oob w => .oob w
      | .throw e => .throw e
      | .oob w => .oob w
    | .throw e => .throw e
    | .oob w => .oob w
  | .throw e => .throw e
  | .oob w => .oob w

/-! ### the signed entry points of the `detail/*.hpp` headers -/

inductive Cond where
  | lt0 | le0 | eq0 | ne0 | ge0 | gt0 | always
  deriving DecidableEq, Repr

def Cond.holds : Cond → Int → Bool
  | .lt0, v => decide (v < 0)
  | .le0, v => decide (v ≤ 0)
  | .eq0, v => decide (v = 0)
  | .ne0, v => decide (v ≠ 0)
  | .ge0, v => decide (0 ≤ v)
  | .gt0, v => decide (0 < v)
  | .always, _ => true

inductive Target where
  | neg                                   -- `return …negToString( [buffer,] value …);`
  | unsigned                              -- `return …UintNtoString( [buffer,] value …);`
  | lit (text : List Byte) (ret : Int)    -- `return std::string( "0");` / `::strcpy( buffer, "0"); return 1;`
  deriving Repr

/-- `if (c1) t1; if (c2) t2; …; t_last` of `intNtoString` (string and buffer overload) -/
structure Dispatch where
  paramBits : Nat
  str : List (Cond × Target)
  buf : List (Cond × Target)
  deriving Repr

def pick (bs : List (Cond × Target)) (v : Int) : Option Target :=
  match bs.find? (fun b => b.1.holds v) with
  | some b => some b.2
  | none => none

def runSignedStr (f : FileSpec) (d : Dispatch) (g : Byte) (v : Int) : Res (List Byte) :=
  match pick d.str v with
  | none => .oob "UB: flows off the end of a non-void function"
  | some .neg => runStr f f.nstr g v
  | some .unsigned => runStr f f.ustr g v
  | some (.lit t _) => .ok t

def runSignedBuf (f : FileSpec) (d : Dispatch) (g : Byte) (v : Int) (buf : List Byte) : Res (List Byte × Int) :=
  match pick d.buf v with
  | none => .oob "UB: flows off the end of a non-void function"
  | some .neg => runBuf f f.nbuf g v buf
  | some .unsigned => runBuf f f.ubuf g v buf
  | some (.lit t r) =>
    match Mem.write buf 0 (t ++ [0]) "strcpy" with
    | .ok m => .ok (m, r)
    | .throw e => .throw e
    | .oob w => .oob w

/-! ### the overload sets `int2string` / `grouped_int2string` -/

/-- `SIGNED_FUNCTIONS( bytes, f)` / `UNSIGNED_FUNCTIONS( bytes, f)`: `f` resolved by the translator to
    the file (`fnBits`) in which it is declared and to its kind -/
structure ApiEntry where
  bytes : Nat
  signed : Bool
  fnBits : Nat
  fnSigned : Bool          -- `f` is the signed entry point (dispatch) / the unsigned function
  deriving Repr, DecidableEq

def apiLookup (tbl : List ApiEntry) (bytes : Nat) (signed : Bool) : Option ApiEntry :=
  tbl.find? (fun e => e.bytes == bytes && e.signed == signed)

/-- the library as the translator found it: per (grouped, width) the `.cpp`/`.hpp` pair, per `grouped`
    the overload table -/
structure Lib where
  file : Bool → Nat → Option (FileSpec × Dispatch)
  api : Bool → List ApiEntry

/-- conversion of an integer to the signed type of `bits` bits -/
def wrapS (bits : Nat) (v : Int) : Int :=
  let m := v.emod (two bits)
  if m < two (bits - 1) then m else m - two bits

/-- `int2string( value)` / `grouped_int2string( value, g)` for `T` = (`bits`, `signed`) -/
def Lib.str (L : Lib) (grouped : Bool) (bits : Nat) (signed : Bool) (g : Byte) (v : Int) : Res (List Byte) :=
  match apiLookup (L.api grouped) (bits / 8) signed with
  | none => .oob "no viable overload"
  | some e =>
    match L.file grouped e.fnBits with
    | none => .oob "unknown detail function"
    | some (f, d) =>
      if e.fnSigned then runSignedStr f d g (wrapS d.paramBits v) else runStr f f.ustr g v

/-- `int2string( buffer, value)` / `grouped_int2string( buffer, value, g)` -/
def Lib.buf (L : Lib) (grouped : Bool) (bits : Nat) (signed : Bool) (g : Byte) (v : Int) (buf : List Byte) :
    Res (List Byte × Int) :=
  match apiLookup (L.api grouped) (bits / 8) signed with
  | none => .oob "no viable overload"
  | some e =>
    match L.file grouped e.fnBits with
    | none => .oob "unknown detail function"
    | some (f, d) =>
      if e.fnSigned then runSignedBuf f d g (wrapS d.paramBits v) buf else runBuf f f.ubuf g v buf

/-! ### decidable checks over the tables (discharged by `decide` in `Generated/Int2Str.lean`) -/

/-- symbolic result of running a list of statements: what is written where, as a function of the
    (unknown) value: `digit j` is `'0' + value / 10^j % 10`, `raw j` is `'0' + value / 10^j` -/
inductive Item where
  | digit (j : Nat)
  | raw (j : Nat)
  | group
  deriving DecidableEq, Repr

/-- `(d, it)`: `it` is stored at `buffer_end - d` -/
abbrev SymW := Nat × Item

def Op.std : Op → Bool
  | .emit base m _ => base == 48 && (m == some 10 || m == none)
  | .div d => d == 10
  | .inc => true
  | .check _ _ => true
  | .group _ => true

/-- symbolic execution; `j` = number of `value /= 10` so far, `nd` = `num_digits`, `d` = number of
    `buffer--` so far -/
def shape : List Op → (j nd d : Nat) → List SymW
  | [], _, _, _ => []
  | .emit _ m dec :: r, j, nd, d =>
    (d, if m.isSome then Item.digit j else Item.raw j) :: shape r j nd (if dec then d + 1 else d)
  | .div _ :: r, j, nd, d => shape r (j + 1) nd d
  | .inc :: r, j, nd, d => shape r j ((nd + 1) % 256) d
  | .check thr reset :: r, j, nd, d =>
    if (nd + 1) % 256 = thr then (d, Item.group) :: shape r j (reset % 256) (d + 1)
    else shape r j ((nd + 1) % 256) d
  | .group dec :: r, j, nd, d => (d, Item.group) :: shape r j nd (if dec then d + 1 else d)

/-- insert `g` after every third element (the list is least-significant digit first) -/
def groupRev (g : α) : List α → List α
  | a :: b :: c :: d :: rest => a :: b :: c :: g :: groupRev g (d :: rest)
  | l => l

/-- the writes a correct `case k` performs, back to front -/
def expectItems (grouped : Bool) (k : Nat) : List Item :=
  let ds := (List.range k).map Item.digit
  if grouped then groupRev Item.group ds else ds

/-- `'0' + value` instead of `'0' + value % 10` is the same for the most significant digit -/
def Item.norm (k : Nat) : Item → Item
  | .raw j => if j + 1 = k then .digit j else .raw j
  | it => it

def rowOk (f : FileSpec) (k : Nat) : Bool :=
  let ops := switchOps f.rows k
  let ws := shape ops 0 (f.ndInit % 256) 0
  ops.all Op.std && (ws.map (·.1) == List.range ws.length)
    && (ws.map (fun w => w.2.norm k) == expectItems f.grouped k)

/-- number of characters of `k` digits (with group characters) -/
def outLen (grouped : Bool) (k : Nat) : Nat := (expectItems grouped k).length

def FileSpec.treeOk (f : FileSpec) : Bool :=
  f.tree.ok 0 (2 ^ f.bits) && f.lenCast == f.bits && f.convBits == f.bits

def FileSpec.rowsOk (f : FileSpec) : Bool :=
  f.tree.leaves.all (rowOk f)

def Caller.env (c : Caller) (k : Nat) : Int × Int :=
  (k, match c.glen with | some e => (e.eval k 0).emod 256 | none => 0)

def evalAt (c : Caller) (k : Nat) (e : Expr) : Int := e.eval (c.env k).1 (c.env k).2

/-- string variant, `s` = 1 for the negative function (room for the sign) -/
def strCallerOkAt (grouped : Bool) (c : Caller) (s : Nat) (k : Nat) : Bool :=
  match c.strSize with
  | none => false
  | some (sz, fill) =>
    evalAt c k sz == ((outLen grouped k + s : Nat) : Int)
    && evalAt c k c.endOff == ((outLen grouped k + s : Nat) : Int) - 1
    && (s == 0 || fill == 45)

def bufCallerOkAt (grouped : Bool) (c : Caller) (s : Nat) (k : Nat) : Bool :=
  let n : Int := ((outLen grouped k + s : Nat) : Int)
  c.strSize.isNone
  && (match c.nulAt with
      | some (e, b) => evalAt c k e == n && b == 0
      | none => false)
  && evalAt c k c.endOff == n - 1
  && (match c.signAt with
      | some (e, b) => s == 1 && evalAt c k e == 0 && b == 45
      | none => s == 0)
  && evalAt c k c.ret == n

def unsignedCallerOk (f : FileSpec) (c : Caller) : Bool :=
  c.paramBits == f.bits && !c.paramSigned && c.neg.isNone

def negOk (f : FileSpec) (c : Caller) : Bool :=
  decide (1 ≤ f.bits) && c.paramBits == f.bits && c.paramSigned && c.lenArgAbs && c.convArgAbs &&
  match c.neg with
  | none => false
  | some ns => ns.absBits == f.bits &&
    (match ns.kind with
     | .inSigned => decide (f.bits < 32)        -- promoted to `int`: no overflow
     | .inUnsigned => ns.castBits == f.bits)

def FileSpec.unsignedOk (f : FileSpec) : Bool :=
  unsignedCallerOk f f.ustr && unsignedCallerOk f f.ubuf
  && f.tree.leaves.all (fun k => strCallerOkAt f.grouped f.ustr 0 k && bufCallerOkAt f.grouped f.ubuf 0 k)

def FileSpec.negCallersOk (f : FileSpec) : Bool :=
  f.tree.leaves.all (fun k => strCallerOkAt f.grouped f.nstr 1 k && bufCallerOkAt f.grouped f.nbuf 1 k)

/-- the negation is free of undefined behaviour and lands in the right type -/
def FileSpec.negationOk (f : FileSpec) : Bool :=
  negOk f f.nstr && negOk f f.nbuf

inductive SignClass where
  | negative | zero | positive
  deriving DecidableEq, Repr

def SignClass.rep : SignClass → Int
  | .negative => -1
  | .zero => 0
  | .positive => 1

def targetOk : SignClass → Target → Bool
  | .negative, .neg => true
  | .zero, .lit t r => t == [48] && r == 1
  | .zero, .unsigned => true
  | .positive, .unsigned => true
  | _, _ => false

def branchesOk (bs : List (Cond × Target)) : Bool :=
  [SignClass.negative, .zero, .positive].all fun c =>
    match pick bs c.rep with
    | some t => targetOk c t
    | none => false

def dispatchOk (f : FileSpec) (d : Dispatch) : Bool :=
  d.paramBits == f.bits && branchesOk d.str && branchesOk d.buf

def apiOk (tbl : List ApiEntry) : Bool :=
  [1, 2, 4, 8].all fun b => [true, false].all fun s =>
    apiLookup tbl b s == some ⟨b, s, 8 * b, s⟩

/-! ### specification-side helpers used by driver and theorems -/

/-- decimal digits of `v` as bytes — core `Nat.toDigits 10`, the list underlying `Nat.repr` -/
def digitBytes (v : Nat) : List Byte := (Nat.toDigits 10 v).map Char.toNat

/-- `g` after every third element counted from the right -/
def groupRight (g : α) (l : List α) : List α := (groupRev g l.reverse).reverse

/-- digits of the magnitude `v`, grouped or not -/
def body (grouped : Bool) (g : Byte) (v : Nat) : List Byte :=
  if grouped then groupRight g (digitBytes v) else digitBytes v

/-- the text the property demands: sign, then the digits of the magnitude, grouped or not -/
def specText (grouped : Bool) (g : Byte) (v : Int) : List Byte :=
  (if v < 0 then [45] else []) ++ body grouped g v.natAbs

end CelmaVerif.Int2Str
