import CelmaVerif.Base.Res
/-
  Model of celma::appl::ArgString2Array (src/library/appl/arg_string_2_array.cpp):
  `splitString()` character by character as coded, `copyArguments()` and the two constructors
  over an explicit `char*[]` array with checked writes, the destructor's `delete[]` loop.

  API for importers (the argument-handler model uses this for the file / environment sources
  and for `evalArgumentString`):

  * `splitString : List Char → List (List Char)`      the words, as `std::string`s
  * `makeArgArray1 s`, `makeArgArray2 s progname`      the two constructors, `Res ArgArray`
  * `ArgArray.words a`                                 argv[0..argc) as the C strings a reader sees
  * `escape`, `Style`, `render`, `joinSp`, `Quotes`    specification side (quoting)
-/
namespace CelmaVerif.ArgString
open CelmaVerif

/-! ## splitString -/

/-- the locals of `splitString()` -/
structure St where
  arguments     : List (List Char) := []    -- `StringVec& arguments` (push_back = append)
  currWord      : List Char := []
  usedQuoteChar : Char := '-'
  inQuote       : Bool := false
  gotBackslash  : Bool := false
  deriving Repr, DecidableEq

/-- one iteration of `for (auto next_char : argstring)` -/
def step (s : St) (c : Char) : St :=
  if s.gotBackslash then
    { s with currWord := s.currWord ++ [c], gotBackslash := false }
  else if c = '\\' then
    { s with gotBackslash := true }
  else if s.inQuote then
    if c = s.usedQuoteChar then
      { s with usedQuoteChar := '-', inQuote := false }
    else
      { s with currWord := s.currWord ++ [c] }
  else if c = '\'' ∨ c = '"' then
    { s with inQuote := true, usedQuoteChar := c }
  else if c = ' ' then
    if s.currWord ≠ [] then
      { s with arguments := s.arguments ++ [s.currWord], currWord := [] }
    else s
  else
    { s with currWord := s.currWord ++ [c] }

/-- the loop -/
def run (s : St) (str : List Char) : St := str.foldl step s

/-- `if (currWord.length() > 0) arguments.push_back( currWord);` -/
def finish (s : St) : List (List Char) :=
  if s.currWord.length > 0 then s.arguments ++ [s.currWord] else s.arguments

/-- `splitString( arguments, argstring)` called with an empty vector (both constructors do) -/
def splitString (argstring : List Char) : List (List Char) :=
  finish (run {} argstring)

/-! ## the argv array -/

/-- one element of the `char*[]` array -/
inductive Slot where
  | uninit                        -- `new char*[n]` does not initialise
  | null                          -- nullptr
  | str (bytes : List Char)       -- pointer to a `new char[bytes.length]` with this content
  deriving Repr, DecidableEq

/-- what `strlen`/`strcpy` see of a `std::string`'s `c_str()`: the characters before the first NUL -/
def cstr : List Char → List Char
  | [] => []
  | c :: s => if c = '\x00' then [] else c :: cstr s

/-- `p = new char[alloc]; strcpy( p, s.c_str())`: writes `strlen + 1` bytes, checked against `alloc`;
    bytes of the allocation that are not written stay indeterminate (modelled as NUL) -/
def newStrcpy (alloc : Nat) (s : List Char) (what : String) : Res Slot :=
  let src := cstr s ++ ['\x00']
  if src.length ≤ alloc then .ok (.str (src ++ List.replicate (alloc - src.length) '\x00'))
  else .oob what

/-- checked `argv[i] = v` on an array of `argv.length` pointers -/
def setSlot (argv : List Slot) (i : Nat) (v : Slot) (what : String) : Res (List Slot) :=
  if i < argv.length then .ok (argv.set i v) else .oob what

structure ArgArray where
  argc : Nat              -- mArgC (never negative in a constructed object)
  argv : List Slot        -- mpArgV, `argv.length` = number of pointers allocated
  deriving Repr, DecidableEq

/-- `copyArguments( argc, argv, arguments)` -/
def copyArguments (argc : Nat) (argv : List Slot) : List (List Char) → Res ArgArray
  | [] => do
    let argv ← setSlot argv argc .null "copyArguments: argv[argc] = nullptr"
    pure { argc := argc, argv := argv }
  | next_arg :: rest => do
    let p ← newStrcpy (next_arg.length + 1) next_arg "copyArguments: strcpy"
    let argv ← setSlot argv argc p "copyArguments: argv[argc] = new char[]"
    copyArguments (argc + 1) argv rest

def defaultProgName : List Char := "programname".toList

/-- `ArgString2Array( argstring, progname)`; `progname = none` is the null pointer -/
def makeArgArray2 (argstring : List Char) (progname : Option (List Char)) : Res ArgArray := do
  let arguments := splitString argstring
  let argv := List.replicate (arguments.length + 2) Slot.uninit
  let p0 ← match progname with
    | none => newStrcpy 12 defaultProgName "ctor: strcpy programname"
    | some p => newStrcpy ((cstr p).length + 1) p "ctor: strcpy progname"   -- `strlen( progname) + 1`
  let argv ← setSlot argv 0 p0 "ctor: mpArgV[0]"
  copyArguments 1 argv arguments

/-- `ArgString2Array( cmdLine)` -/
def makeArgArray1 (cmdLine : List Char) : Res ArgArray :=
  let arguments := splitString cmdLine
  copyArguments 0 (List.replicate (arguments.length + 1) Slot.uninit) arguments

/-- the destructor: `delete [] mpArgV[i]` for `i < mArgC` needs pointers that came from `new[]`
    (or null), then `delete [] mpArgV` -/
def ArgArray.destroy (a : ArgArray) : Res Unit :=
  if a.argc ≤ a.argv.length ∧ (a.argv.take a.argc).all (fun s => s != .uninit) then .ok ()
  else .oob "dtor: delete[] of an indeterminate pointer"

/-- a slot as a reader of `argv[i]` sees it (C string); `none` for null / indeterminate -/
def Slot.cstring : Slot → Option (List Char)
  | .str b => some (cstr b)
  | _ => none

/-- argv[0..argc) as C strings -/
def ArgArray.words (a : ArgArray) : List (Option (List Char)) :=
  (a.argv.take a.argc).map Slot.cstring

/-- `argv[argc] == nullptr` -/
def ArgArray.terminated (a : ArgArray) : Bool :=
  a.argv[a.argc]? == some .null

/-! ## specification side: quoting -/

/-- the four characters `splitString` treats specially -/
def special (c : Char) : Bool := c == ' ' || c == '\'' || c == '"' || c == '\\'

/-- backslash before space, both quote characters and backslash -/
def escape (w : List Char) : List Char :=
  w.flatMap fun c => if special c then ['\\', c] else [c]

/-- inside a quoted segment only the quote character itself and the backslash need a backslash -/
def escapeIn (qc : Char) (w : List Char) : List Char :=
  w.flatMap fun c => if c = qc ∨ c = '\\' then ['\\', c] else [c]

inductive Style where
  | backslash | single | double
  deriving Repr, DecidableEq

def render : Style → List Char → List Char
  | .backslash, w => escape w
  | .single, w => '\'' :: escapeIn '\'' w ++ ['\'']
  | .double, w => '"' :: escapeIn '"' w ++ ['"']

/-- join with single spaces -/
def joinSp : List (List Char) → List Char
  | [] => []
  | [q] => q
  | q :: q' :: rest => q ++ ' ' :: joinSp (q' :: rest)

/-- `InQuote qc b v`: `b` is the body of a quoted segment opened by `qc` (not containing `qc`
    unescaped, every backslash followed by a character) and decodes to `v` -/
inductive InQuote (qc : Char) : List Char → List Char → Prop where
  | nil : InQuote qc [] []
  | plain (c : Char) {b v : List Char} (h1 : c ≠ qc) (h2 : c ≠ '\\') :
      InQuote qc b v → InQuote qc (c :: b) (c :: v)
  | esc (c : Char) {b v : List Char} : InQuote qc b v → InQuote qc ('\\' :: c :: b) (c :: v)

/-- `Quotes q w`: the text `q` is a quoted spelling of the word `w`: a concatenation of plain
    non-special characters, backslash–character pairs and `'…'` / `"…"` segments -/
inductive Quotes : List Char → List Char → Prop where
  | nil : Quotes [] []
  | plain (c : Char) {q w : List Char} (h : special c = false) : Quotes q w → Quotes (c :: q) (c :: w)
  | esc (c : Char) {q w : List Char} : Quotes q w → Quotes ('\\' :: c :: q) (c :: w)
  | quoted (qc : Char) {b v q w : List Char} (hq : qc = '\'' ∨ qc = '"') :
      InQuote qc b v → Quotes q w → Quotes (qc :: b ++ qc :: q) (v ++ w)

/-- word-wise `Quotes` (the `List.Forall₂ Quotes` of DESIGN.md, spelled out because the model files are core-only) -/
inductive AllQuotes : List (List Char) → List (List Char) → Prop where
  | nil : AllQuotes [] []
  | cons {q w : List Char} {qs ws : List (List Char)} : Quotes q w → AllQuotes qs ws → AllQuotes (q :: qs) (w :: ws)

end CelmaVerif.ArgString
