import CelmaVerif.Base.Res
import CelmaVerif.Model.StdString
/-
  Shared model B — `celma::common::FixedString<L>` (fixed_string.hpp, the two iterator headers).

  State: `buf` (the `L + 1` bytes of `mString`) and `len` (`mLength`).  Every public method is
  transcribed branch by branch over checked memory primitives: `Mem.read/write/move` of Base/Res.lean,
  `fill` (memset), `get1`/`put1` (single load/store), `cstrlen` (strlen).  Each of them returns `.oob`
  when it touches an index outside the object or outside the source argument, so "no access outside
  the object and its arguments" is "never `.oob`".

  Arithmetic.  `size_t` additions of caller-supplied values are written with `addW`/`subW` (symbolic
  modulus `W`); an assignment of a `size_t` expression to `mLength` goes through `narrow` (modulus `M` of
  `LengthType<L>::type`).  A plain `a - b` is used only where the code has just established `b ≤ a`
  (or where well-formedness `len ≤ L` gives it), which is where the C++ does not wrap either.

  Arguments.  A `const char*` is the list of bytes readable from the pointer on (a C string: its
  characters and the terminator); a `std::string` is its characters (`c_str()` = characters ++ [0]);
  another `FixedString<S>` is an `FStr`.
-/
namespace CelmaVerif.FixedString
open CelmaVerif

structure Cfg where
  L : Nat      -- capacity (template parameter)
  W : Nat      -- modulus of size_t
  M : Nat      -- modulus of LengthType<L>::type
  deriving Repr

structure FStr where
  buf : List Byte
  len : Nat
  deriving Repr, DecidableEq

abbrev Str := List Byte

def npos (c : Cfg) : Nat := c.W - 1
def addW (c : Cfg) (a b : Nat) : Nat := if a + b < c.W then a + b else a + b - c.W
def subW (c : Cfg) (a b : Nat) : Nat := if b ≤ a then a - b else a + c.W - b
def narrow (c : Cfg) (x : Nat) : Nat := x % c.M

/-! ### checked primitives -/

def bindR {α β : Type} (r : Res α) (f : α → Res β) : Res β :=
  match r with
  | .ok a => f a
  | .oob w => .oob w
  | .throw e => .throw e

def put1 (buf : List Byte) (i : Nat) (b : Byte) : Res (List Byte) := Mem.write buf i [b] "store"

def get1 (a : List Byte) (i : Nat) : Res Byte :=
  match a[i]? with
  | some b => .ok b
  | none => .oob "load"

/-- `memset(buf + off, ch, n)`; the replicate is only built when it fits -/
def fill (buf : List Byte) (off n : Nat) (ch : Byte) : Res (List Byte) :=
  if off + n ≤ buf.length then .ok (buf.take off ++ List.replicate n ch ++ buf.drop (off + n))
  else .oob "memset"

def cstrlenAux : List Byte → Nat → Res Nat
  | [], _ => .oob "strlen"
  | b :: bs, n => if b = 0 then .ok n else cstrlenAux bs (n + 1)

/-- `strlen`: index of the first NUL, `.oob` when the allocation has none -/
def cstrlen (a : List Byte) : Res Nat := cstrlenAux a 0

/-- sign of `memcmp` on two equally long byte lists -/
def cmpSign : List Byte → List Byte → Int
  | a :: as, b :: bs => if a < b then -1 else if b < a then 1 else cmpSign as bs
  | _, _ => 0

/-- `memcmp(a + i, b + j, n)` -/
def memcmp (a : List Byte) (i : Nat) (b : List Byte) (j n : Nat) : Res Int :=
  match Mem.read a i n "memcmp", Mem.read b j n "memcmp" with
  | .ok x, .ok y => .ok (cmpSign x y)
  | .oob w, _ => .oob w
  | _, .oob w => .oob w
  | .throw e, _ => .throw e
  | _, .throw e => .throw e

def zeros (c : Cfg) : List Byte := List.replicate (c.L + 1) 0

/-- `memcpy( &mString[ off], src + spos, n)` -/
def copyIn (buf : List Byte) (off : Nat) (src : List Byte) (spos n : Nat) : Res (List Byte) :=
  bindR (Mem.read src spos n "memcpy") fun d => Mem.write buf off d "memcpy"

/-- `strchr(str, ch) != nullptr` for a C string: scans up to and including the terminator -/
def strchr : List Byte → Byte → Res Bool
  | [], _ => .oob "strchr"
  | b :: bs, ch => if b = ch then .ok true else if b = 0 then .ok false else strchr bs ch

/-! ### construction and assignment -/

/-- `internalCopy(src)`: `mLength` is already set -/
def internalCopy (s : FStr) (src : List Byte) : Res FStr :=
  bindR (if s.len > 0 then copyIn s.buf 0 src 0 s.len else .ok s.buf) fun b =>
  bindR (put1 b s.len 0) fun b' => .ok ⟨b', s.len⟩

def assignP (c : Cfg) (s : FStr) (a : List Byte) : Res FStr :=
  bindR (cstrlen a) fun n => internalCopy ⟨s.buf, narrow c (min c.L n)⟩ a

def assignS (c : Cfg) (s : FStr) (d : Str) : Res FStr :=
  internalCopy ⟨s.buf, narrow c (min c.L d.length)⟩ (d ++ [0])

def assignF (c : Cfg) (s : FStr) (o : FStr) : Res FStr :=
  internalCopy ⟨s.buf, narrow c (min c.L o.len)⟩ o.buf

def fresh (c : Cfg) : FStr := ⟨zeros c, 0⟩
def ctorP (c : Cfg) (a : List Byte) : Res FStr := assignP c (fresh c) a
def ctorS (c : Cfg) (d : Str) : Res FStr := assignS c (fresh c) d
def ctorF (c : Cfg) (o : FStr) : Res FStr := assignF c (fresh c) o
/-- move constructor: `mLength( other.mLength)`, copies only when non-empty -/
def ctorMove (c : Cfg) (o : FStr) : Res FStr :=
  if o.len > 0 then internalCopy ⟨zeros c, o.len⟩ o.buf else .ok ⟨zeros c, o.len⟩

def clear (s : FStr) : Res FStr := bindR (put1 s.buf 0 0) fun b => .ok ⟨b, 0⟩

/-! ### element access -/

def at_ (s : FStr) (idx : Nat) : Res Byte :=
  if idx > s.len then .throw .out_of_range else get1 s.buf idx
def index (s : FStr) (idx : Nat) : Res Byte := get1 s.buf idx
def front (s : FStr) : Res Byte := get1 s.buf 0
def back (s : FStr) : Res Byte := get1 s.buf (if s.len = 0 then 0 else s.len - 1)
/-- `str()`: `std::string( mString, mLength)` -/
def str (s : FStr) : Res Str := if s.len > 0 then Mem.read s.buf 0 s.len "str" else .ok []
/-- what a reader of `c_str()` sees: the bytes before the first NUL -/
def cstrView (s : FStr) : Res Str := bindR (cstrlen s.buf) fun n => Mem.read s.buf 0 n
/-- what `operator<<` writes after the repair of audit-3 weakness 1 (`os << std::string_view( fs.data(), fs.length())`):
    the `mLength` bytes from the start of the buffer, stored NULs included (before: `os << fs.c_str()`, `cstrView`) -/
def streamView (s : FStr) : Res Str := Mem.read s.buf 0 s.len "operator<<"

/-! ### iterators: (object, index) pairs; `EndValue` is the maximum of `uint64_t` -/

def itEnd (c : Cfg) : Nat := c.W - 1
def itBegin (c : Cfg) (s : FStr) : Nat := if s.len ≠ 0 then 0 else itEnd c
def itAt (c : Cfg) (s : FStr) (pos : Nat) : Nat := if pos ≥ s.len then itEnd c else pos
/-- `lhs - rhs` of two iterators of the same object -/
def itMinus (c : Cfg) (s : FStr) (lhs rhs : Nat) : Nat :=
  if rhs = itEnd c ∨ lhs = rhs then 0
  else if lhs = itEnd c then subW c s.len rhs
  else subW c lhs rhs
def itInc (c : Cfg) (s : FStr) (i : Nat) : Nat := if i < subW c s.len 1 then i + 1 else itEnd c
def itDeref (c : Cfg) (s : FStr) (i : Nat) : Res Byte :=
  if i = itEnd c then .throw .range_error else get1 s.buf i
def ritBegin (c : Cfg) (s : FStr) : Nat := if s.len ≠ 0 then s.len - 1 else itEnd c
/-- `++rit` of the reverse iterator.  Repaired (fix 4c194d2): nothing happens at `rend()`; the pinned code stepped
    from `EndValue` to `EndValue - 1`, an index far outside the buffer that `operator *` then used. -/
def ritInc (c : Cfg) (i : Nat) : Nat := if i = itEnd c then i else if i > 0 then i - 1 else itEnd c

/-! #### iterator arithmetic beyond `++`: `--`, `+=`, `-=`, `operator[]`, the relational operators -/

/-- `--it` of the forward iterator.  Repaired (fix 4c194d2): "unless it already points behind the string";
    the pinned code stepped from `EndValue` to `EndValue - 1`. -/
def itDec (c : Cfg) (i : Nat) : Nat := if i = itEnd c then i else if i > 0 then i - 1 else itEnd c
/-- `it += value` (forward) and `rit -= value` (reverse): `mIndex + value` is a wrapping `size_t` sum -/
def itAdd (c : Cfg) (s : FStr) (i v : Nat) : Nat :=
  if i = itEnd c then i else if addW c i v < s.len then addW c i v else itEnd c
/-- `it -= value` (forward) and `rit += value` (reverse) -/
def itSub (c : Cfg) (i v : Nat) : Nat := if i = itEnd c then i else if i ≥ v then i - v else itEnd c
/-- `--rit` of the reverse iterator: the same code as the forward `++` -/
def ritDec (c : Cfg) (s : FStr) (i : Nat) : Nat := if i < subW c s.len 1 then i + 1 else itEnd c

inductive ItMove | inc | dec | add (v : Nat) | sub (v : Nat)
  deriving Repr, DecidableEq

def itMove (c : Cfg) (s : FStr) (rev : Bool) (i : Nat) : ItMove → Nat
  | .inc => if rev then ritInc c i else itInc c s i
  | .dec => if rev then ritDec c s i else itDec c i
  | .add v => if rev then itSub c i v else itAdd c s i v
  | .sub v => if rev then itAdd c s i v else itSub c i v

/-- an iterator built at a position, then moved by a sequence of `++ -- += -=` -/
def itWalk (c : Cfg) (s : FStr) (rev : Bool) (i : Nat) (ms : List ItMove) : Nat :=
  ms.foldl (fun j m => itMove c s rev j m) i

/-- `it[ idx]`: the forward iterator reads `mString[ mIndex + idx]` unchecked (like `operator[]` of the string);
    the reverse iterator throws for `idx > mIndex` and reads `mString[ mIndex - idx]` -/
def itIndex (c : Cfg) (s : FStr) (rev : Bool) (i idx : Nat) : Res Byte :=
  if rev then (if idx > i then .throw .range_error else get1 s.buf (i - idx))
  else get1 s.buf (addW c i idx)

/-- relational operators on two iterators of the same object: `0 <`, `1 <=`, `2 >`, `3 >=`, `4 ==`, else `!=`;
    raw index comparison (the reverse iterator compares the other way round), `end()` is the greatest index -/
def itRel (rev : Bool) (r a b : Nat) : Bool :=
  let x := if rev then b else a
  let y := if rev then a else b
  match r with
  | 0 => decide (x < y) | 1 => decide (x ≤ y) | 2 => decide (x > y) | 3 => decide (x ≥ y)
  | 4 => decide (a = b) | _ => !decide (a = b)

/-- `for (it = begin(); it != end(); ++it) out.push_back(*it)` (fuel = the harness' safety bound) -/
def iterFwdLoop (c : Cfg) (s : FStr) : Nat → Nat → List Byte → Res (List Byte)
  | 0, _, acc => .ok acc.reverse
  | fuel + 1, it, acc =>
    if it = itEnd c then .ok acc.reverse
    else match itDeref c s it with
      | .ok b => iterFwdLoop c s fuel (itInc c s it) (b :: acc)
      | .oob w => .oob w
      | .throw e => .throw e
def iterFwd (c : Cfg) (s : FStr) : Res (List Byte) := iterFwdLoop c s (c.L + 4) (itBegin c s) []

def iterRevLoop (c : Cfg) (s : FStr) : Nat → Nat → List Byte → Res (List Byte)
  | 0, _, acc => .ok acc.reverse
  | fuel + 1, it, acc =>
    if it = itEnd c then .ok acc.reverse
    else match itDeref c s it with
      | .ok b => iterRevLoop c s fuel (ritInc c it) (b :: acc)
      | .oob w => .oob w
      | .throw e => .throw e
def iterRev (c : Cfg) (s : FStr) : Res (List Byte) := iterRevLoop c s (c.L + 4) (ritBegin c s) []

/-! ### insert -/

/-- common tail of the mutators: `mLength = len; mString[ mLength] = '\0'` -/
def finish (c : Cfg) (b : List Byte) (len : Nat) : Res FStr :=
  bindR (put1 b (narrow c len) 0) fun b' => .ok ⟨b', narrow c len⟩

/-- `insert( index, count, ch)` -/
def insertCh (c : Cfg) (s : FStr) (index count ch : Nat) : Res FStr :=
  if index < s.len then
    if count ≤ c.L - s.len then
      bindR (Mem.move s.buf (index + count) index (s.len - index + 1)) fun b1 =>
      bindR (fill b1 index count ch) fun b2 => finish c b2 (s.len + count)
    else if count ≤ c.L - index then
      bindR (Mem.move s.buf (index + count) index (c.L - index - count)) fun b1 =>
      bindR (fill b1 index count ch) fun b2 => finish c b2 c.L
    else
      bindR (fill s.buf index (c.L - index) ch) fun b2 => finish c b2 c.L
  else
    let count' := if count > c.L - s.len then c.L - s.len else count
    bindR (fill s.buf s.len count' ch) fun b2 => finish c b2 (s.len + count')

/-- `insert( index, str, count)` -/
def insertP (c : Cfg) (s : FStr) (index : Nat) (a : List Byte) (count : Nat) : Res FStr :=
  if index < s.len then
    if count ≤ c.L - s.len then
      bindR (Mem.move s.buf (index + count) index (s.len - index + 1)) fun b1 =>
      bindR (copyIn b1 index a 0 count) fun b2 => finish c b2 (s.len + count)
    else if count ≤ c.L - index then
      bindR (Mem.move s.buf (index + count) index (c.L - index - count)) fun b1 =>
      bindR (copyIn b1 index a 0 count) fun b2 => finish c b2 c.L
    else
      bindR (copyIn s.buf index a 0 (c.L - index)) fun b2 => finish c b2 c.L
  else
    let count' := if count > c.L - s.len then c.L - s.len else count
    bindR (copyIn s.buf s.len a 0 count') fun b2 => finish c b2 (s.len + count')

def insertCstr (c : Cfg) (s : FStr) (index : Nat) (a : List Byte) : Res FStr :=
  bindR (cstrlen a) fun n => insertP c s index a n
def insertS (c : Cfg) (s : FStr) (index : Nat) (d : Str) : Res FStr :=
  insertP c s index (d ++ [0]) d.length
/-- `insert( index, std::string, index_str, count)`: `str.substr( index_str, count)` then insert -/
def insertSub (c : Cfg) (s : FStr) (index : Nat) (d : Str) (indexStr count : Nat) : Res FStr :=
  if indexStr > d.length then .ok s
  else insertS c s index ((d.drop indexStr).take count)
def insertF (c : Cfg) (s : FStr) (index : Nat) (o : FStr) : Res FStr := insertP c s index o.buf o.len
/-- `insert( index, FixedString, index_str, count)`: `&str[ index_str]`, `min( length - index_str, count)` -/
def insertFSub (c : Cfg) (s : FStr) (index : Nat) (o : FStr) (indexStr count : Nat) : Res FStr :=
  if indexStr > o.len then .ok s
  else insertP c s index (o.buf.drop indexStr) (min (o.len - indexStr) count)

/-- iterator overloads: `if (pos == cend()) return end(); idx = pos - cbegin(); insert( idx, ...)` -/
def insertItCh (c : Cfg) (s : FStr) (pos count ch : Nat) : Res (FStr × Nat) :=
  if pos = itEnd c then .ok (s, itEnd c)
  else
    let idx := itMinus c s pos (itBegin c s)
    bindR (insertCh c s idx count ch) fun s' => .ok (s', itAt c s' idx)
def insertItList (c : Cfg) (s : FStr) (pos : Nat) (il : Str) : Res (FStr × Nat) :=
  if pos = itEnd c then .ok (s, itEnd c)
  else
    let idx := itMinus c s pos (itBegin c s)
    if il.length = 0 then .ok (s, itAt c s idx)
    else bindR (insertP c s idx il il.length) fun s' => .ok (s', itAt c s' idx)

/-! ### erase, push_back, pop_back -/

def erase (c : Cfg) (s : FStr) (index count : Nat) : Res FStr :=
  if index > s.len then .ok s
  else if count ≥ s.len - index then
    bindR (put1 s.buf index 0) fun b => .ok ⟨b, narrow c index⟩
  else
    bindR (Mem.move s.buf index (index + count) (s.len - index - count)) fun b =>
    finish c b (s.len - count)

def eraseIt (c : Cfg) (s : FStr) (pos : Nat) : Res (FStr × Nat) :=
  if pos = itEnd c then .ok (s, itEnd c)
  else
    let idx := itMinus c s pos (itBegin c s)
    bindR (erase c s idx 1) fun s' => .ok (s', itAt c s' idx)
def eraseItIt (c : Cfg) (s : FStr) (first last : Nat) : Res (FStr × Nat) :=
  if first = itEnd c ∨ first = last then .ok (s, itEnd c)
  else
    let idx := itMinus c s first (itBegin c s)
    let count := if last = itEnd c then npos c else itMinus c s last first
    bindR (erase c s idx count) fun s' => .ok (s', itAt c s' idx)

def pushBack (c : Cfg) (s : FStr) (ch : Byte) : Res FStr :=
  if s.len < c.L then
    bindR (put1 s.buf s.len ch) fun b => finish c b (s.len + 1)
  else .ok s
def popBack (c : Cfg) (s : FStr) : Res FStr :=
  if s.len > 0 then finish c s.buf (s.len - 1) else .ok s

/-! ### append -/

def appendImpl (c : Cfg) (s : FStr) (a : List Byte) (pos count : Nat) : Res FStr :=
  if count > 0 then
    let n := min (c.L - s.len) count
    bindR (copyIn s.buf s.len a pos n) fun b => finish c b (s.len + n)
  else .ok s

def appendS (c : Cfg) (s : FStr) (d : Str) : Res FStr := appendImpl c s (d ++ [0]) 0 d.length
def appendF (c : Cfg) (s : FStr) (o : FStr) : Res FStr := appendImpl c s o.buf 0 o.len
/-- `append( count, ch)`: builds `std::string( min( count, L - mLength), ch)` -/
def appendCh (c : Cfg) (s : FStr) (count ch : Nat) : Res FStr :=
  if s.len = c.L then .ok s else appendS c s (List.replicate (min count (c.L - s.len)) ch)
def appendSSub (c : Cfg) (s : FStr) (d : Str) (pos count : Nat) : Res FStr :=
  if pos > d.length then .ok s else appendImpl c s (d ++ [0]) pos (min count (d.length - pos))
def appendFSub (c : Cfg) (s : FStr) (o : FStr) (pos count : Nat) : Res FStr :=
  if pos > o.len then .ok s else appendImpl c s o.buf pos (min count (o.len - pos))
def appendPN (c : Cfg) (s : FStr) (a : List Byte) (count : Nat) : Res FStr :=
  bindR (cstrlen a) fun n => appendImpl c s a 0 (min count n)
def appendP (c : Cfg) (s : FStr) (a : List Byte) : Res FStr :=
  bindR (cstrlen a) fun n => appendImpl c s a 0 n
/-- `append( first, last)` with iterators of another object `o` of the same type -/
def appendItIt (c : Cfg) (s : FStr) (o : FStr) (first last : Nat) : Res FStr :=
  if first = last ∨ s.len = c.L then .ok s
  else
    let count := itMinus c o last first
    match itDeref c o first with           -- `&(*first)`: throws inside a noexcept function
    | .ok _ => appendImpl c s (o.buf.drop first) 0 count
    | .oob w => .oob w
    | .throw e => .throw e

/-- `sprintf`, the part that is FixedString's own code, for ANY behaviour of the formatter:
    `const int result = vsnprintf( mString, L + 1, format, ap)` left the bytes `written` at the start of the buffer
    (`.oob` if it wrote more than the `L + 1` bytes it was given) and returned `result`; then
    `mLength = (result < 0) ? 0 : std::min( L, static_cast< size_t>( result)); mString[ mLength] = '\0';` -/
def sprintfV (c : Cfg) (s : FStr) (written : Str) (result : Int) : Res FStr :=
  bindR (Mem.write s.buf 0 written "vsnprintf") fun b =>
  finish c b (if result < 0 then 0 else min c.L result.toNat)

/-- What the formatter made of format and arguments: `done text` — every conversion succeeded, `text` is the complete
    formatted text; `failed pre` — a conversion failed (glibc: `%ls` / `%lc` with a wide character that has no
    multibyte representation in the current locale, `errno = EILSEQ`) after the text `pre` had been produced by the
    directives before it. -/
inductive Fmt
  | done (text : Str)
  | failed (pre : Str)
  deriving Repr

/-- the characters the formatter produced (before it finished or gave up) -/
def Fmt.text : Fmt → Str
  | .done t => t
  | .failed p => p

/-- return value of `vsnprintf`: the full length of the text, or `-1` for a failed conversion -/
def Fmt.result : Fmt → Int
  | .done t => t.length
  | .failed _ => -1

/-- what `vsnprintf( buf, L + 1, …)` leaves in the buffer: `min( n, L)` bytes of the produced text and a NUL.
    glibc (2.36, observed for every buffer size 1…16 and re-checked by the tie on every run) does the same when a
    conversion fails: the output of the directives before the failing one, cut at `L`, then the NUL. -/
def vsnOut (c : Cfg) (text : Str) : Str := text.take (min text.length c.L) ++ [0]

def sprintfF (c : Cfg) (s : FStr) (f : Fmt) : Res FStr := sprintfV c s (vsnOut c f.text) f.result

/-- `sprintf` with a formatter that succeeds: `vsnprintf( mString, L + 1, ...)` writes `min( n, L)` bytes of the
    formatted text and a NUL and returns the full length `n` as an `int` -/
def sprintf (c : Cfg) (s : FStr) (text : Str) : Res FStr := sprintfF c s (.done text)

/-- `wcrtomb` in the "C" locale, character by character: code points up to 0x7f are one byte, every other wide
    character is a conversion error (`none`) -/
def wconv : List Nat → Option Str
  | [] => some []
  | w :: ws =>
    if w ≤ 127 then (match wconv ws with | some r => some (w :: r) | none => none) else none

/-- the wide-character argument of the `sprintf` variants of the correspondence run -/
inductive WArg
  | ls (ws : List Nat)                  -- `%ls`: the wide characters before the terminator
  | lsp (prec : Nat) (ws : List Nat)    -- `%.*ls`: at most `prec` bytes are converted, the rest is not looked at
  | lc (wc : Nat)                       -- `%lc`
  deriving Repr

def WArg.conv : WArg → Option Str
  | .ls ws => wconv ws
  | .lsp p ws => wconv (ws.take p)
  | .lc wc => wconv [wc]

/-- the three formats of the harness: `"%s%ls%lu%s"`, `"<%s>%.*ls=%lu;%s"`, `"%s%lc%lu%s"` applied to
    `( a, [prec,] wide, v, b)`; `digits` = what `%lu` prints -/
def fmtW (digits : Str) (a : List Byte) (wa : WArg) (b : List Byte) : Fmt :=
  let pre : Str := match wa with
    | .lsp _ _ => [60] ++ StdString.ofCStr a ++ [62]
    | _ => StdString.ofCStr a
  let post : Str := match wa with
    | .lsp _ _ => [61] ++ digits ++ [59] ++ StdString.ofCStr b
    | _ => digits ++ StdString.ofCStr b
  match wa.conv with
  | some m => .done (pre ++ m ++ post)
  | none => .failed pre

/-! ### compare, starts_with, ends_with, contains -/

def fullCompare (s : FStr) (a : List Byte) (len : Nat) : Res Int :=
  bindR (memcmp s.buf 0 a 0 (min s.len len)) fun r =>
  .ok (if r = 0 then (if s.len > len then 1 else if s.len < len then -1 else 0) else r)

def partCompare (s : FStr) (pos1 count1 : Nat) (a : List Byte) (len2 : Nat) : Res Int :=
  if pos1 > s.len then .ok (if len2 = 0 then 0 else 1)
  else
    let useLen := if count1 > s.len - pos1 then s.len - pos1 else count1
    bindR (memcmp s.buf pos1 a 0 (min useLen len2)) fun r =>
    .ok (if r = 0 then (if useLen > len2 then 1 else if useLen < len2 then -1 else 0) else r)

def partPartCompare (s : FStr) (pos1 count1 : Nat) (a : List Byte) (len2 pos2 count2 : Nat) : Res Int :=
  if pos1 > s.len ∨ pos2 > len2 then
    .ok (if pos1 ≥ s.len then (if pos2 ≥ len2 then 0 else 1) else -1)
  else
    let l1 := if count1 > s.len - pos1 then s.len - pos1 else count1
    let l2 := if count2 > len2 - pos2 then len2 - pos2 else count2
    bindR (memcmp s.buf pos1 a pos2 (min l1 l2)) fun r =>
    .ok (if r = 0 then (if l1 > l2 then 1 else if l1 < l2 then -1 else 0) else r)

def startsWith (s : FStr) (a : List Byte) (n : Nat) : Res Bool :=
  if n = 0 ∧ s.len = 0 then .ok true
  else if n > s.len then .ok false
  else bindR (memcmp s.buf 0 a 0 n) fun r => .ok (r = 0)
def endsWith (s : FStr) (a : List Byte) (n : Nat) : Res Bool :=
  if n = 0 ∧ s.len = 0 then .ok true
  else if n > s.len then .ok false
  else bindR (memcmp s.buf (s.len - n) a 0 n) fun r => .ok (r = 0)
def startsWithCh (s : FStr) (ch : Byte) : Res Bool :=
  if s.len > 0 then bindR (get1 s.buf 0) fun b => .ok (b = ch) else .ok false
def endsWithCh (s : FStr) (ch : Byte) : Res Bool :=
  if s.len > 0 then bindR (get1 s.buf (s.len - 1)) fun b => .ok (b = ch) else .ok false

/-- `for (idx = 0; idx + n <= mLength; ++idx) if (mString[idx] == str[0] && memcmp(...) == 0) return true` -/
def containsLoop (s : FStr) (a : List Byte) (n : Nat) : Nat → Nat → Res Bool
  | 0, _ => .ok false
  | fuel + 1, idx =>
    bindR (get1 s.buf idx) fun x => bindR (get1 a 0) fun y =>
    if x = y then
      bindR (memcmp s.buf idx a 0 n) fun r => if r = 0 then .ok true else containsLoop s a n fuel (idx + 1)
    else containsLoop s a n fuel (idx + 1)
def containsImpl (s : FStr) (a : List Byte) (n : Nat) : Res Bool :=
  if n = 0 ∨ s.len = 0 ∨ n > s.len then .ok false else containsLoop s a n (s.len - n + 1) 0
def containsChLoop (s : FStr) (ch : Byte) : Nat → Nat → Res Bool
  | 0, _ => .ok false
  | fuel + 1, idx => bindR (get1 s.buf idx) fun x => if x = ch then .ok true else containsChLoop s ch fuel (idx + 1)
def containsCh (s : FStr) (ch : Byte) : Res Bool := containsChLoop s ch s.len 0

/-- `operator ==` -/
def eqOp (s : FStr) (o : FStr) : Res Bool :=
  if s.len = o.len then bindR (memcmp s.buf 0 o.buf 0 s.len) fun r => .ok (r = 0) else .ok false
def neOp (s : FStr) (o : FStr) : Res Bool := bindR (eqOp s o) fun b => .ok (!b)

/-! ### replace -/

def replaceImpl (c : Cfg) (s : FStr) (pos1 count1 : Nat) (a : List Byte) (pos2 count2 : Nat) : Res FStr :=
  if pos1 > s.len then .ok s
  else if count1 ≥ s.len - pos1 then
    let copyLen := if count2 > c.L - pos1 then c.L - pos1 else count2
    bindR (copyIn s.buf pos1 a pos2 copyLen) fun b => finish c b (pos1 + copyLen)
  else if count1 = count2 then
    bindR (copyIn s.buf pos1 a pos2 count2) fun b => .ok ⟨b, s.len⟩
  else if count1 < count2 then
    let copyLen := if count2 > c.L - pos1 then c.L - pos1 else count2
    let rest0 := s.len - pos1 - count1
    let rest := if rest0 > c.L - pos1 - copyLen then c.L - pos1 - copyLen else rest0
    bindR (Mem.move s.buf (pos1 + copyLen) (pos1 + count1) rest) fun b1 =>
    bindR (copyIn b1 pos1 a pos2 copyLen) fun b2 => finish c b2 (pos1 + copyLen + rest)
  else
    bindR (Mem.move s.buf (pos1 + count2) (pos1 + count1) (s.len - pos1 - count1)) fun b1 =>
    bindR (copyIn b1 pos1 a pos2 count2) fun b2 => finish c b2 (s.len - (count1 - count2))

def replaceF (c : Cfg) (s : FStr) (pos count : Nat) (o : FStr) : Res FStr := replaceImpl c s pos count o.buf 0 o.len
def replaceS (c : Cfg) (s : FStr) (pos count : Nat) (d : Str) : Res FStr :=
  replaceImpl c s pos count (d ++ [0]) 0 d.length
def replaceFSub (c : Cfg) (s : FStr) (pos1 count1 : Nat) (o : FStr) (pos2 count2 : Nat) : Res FStr :=
  if pos2 > o.len then .ok s else replaceImpl c s pos1 count1 o.buf pos2 (min count2 (o.len - pos2))
def replaceSSub (c : Cfg) (s : FStr) (pos1 count1 : Nat) (d : Str) (pos2 count2 : Nat) : Res FStr :=
  if pos2 > d.length then .ok s else replaceImpl c s pos1 count1 (d ++ [0]) pos2 (min count2 (d.length - pos2))
def replaceP (c : Cfg) (s : FStr) (pos1 count1 : Nat) (a : List Byte) : Res FStr :=
  bindR (cstrlen a) fun n => replaceImpl c s pos1 count1 a 0 n
def replacePN (c : Cfg) (s : FStr) (pos1 count1 : Nat) (a : List Byte) (count2 : Nat) : Res FStr :=
  bindR (cstrlen a) fun n => replaceImpl c s pos1 count1 a 0 (min count2 n)
/-- `replace( pos, count, count2, ch)`: builds `std::string( min( count2, L), ch)` -/
def replaceCh (c : Cfg) (s : FStr) (pos count count2 ch : Nat) : Res FStr :=
  replaceS c s pos count (List.replicate (min count2 c.L) ch)

/-- `count1` of the iterator overloads -/
def itCount1 (c : Cfg) (s : FStr) (first last idx : Nat) : Nat :=
  if last = itEnd c then s.len - idx else itMinus c s last first

/-- `replace( first, last, first2, last2)` with `first2, last2` iterators of `o` -/
def replaceItIt (c : Cfg) (s : FStr) (first last : Nat) (o : FStr) (first2 last2 : Nat) : Res FStr :=
  if first = itEnd c ∨ first = last ∨ first2 = last2 then .ok s
  else
    let idx := itMinus c s first (itBegin c s)
    let count1 := itCount1 c s first last idx
    match itDeref c o first2 with
    | .ok _ =>
      if last2 = itEnd c then
        bindR (cstrlen (o.buf.drop first2)) fun n => replaceImpl c s idx count1 (o.buf.drop first2) 0 n
      else replaceImpl c s idx count1 (o.buf.drop first2) 0 (itMinus c o last2 first2)
    | .oob w => .oob w
    | .throw e => .throw e
/-- `replace( first, last, std::string::iterator first2, last2)`: the range `[i, j)` of `d` -/
def replaceItSIt (c : Cfg) (s : FStr) (first last : Nat) (d : Str) (i j : Nat) : Res FStr :=
  if first = itEnd c ∨ first = last ∨ i = j then .ok s
  else
    let idx := itMinus c s first (itBegin c s)
    replaceImpl c s idx (itCount1 c s first last idx) ((d ++ [0]).drop i) 0 (j - i)
/-- `replace( first, last, str, count2)` -/
def replaceItPN (c : Cfg) (s : FStr) (first last : Nat) (a : List Byte) (count2 : Nat) : Res FStr :=
  if first = last ∨ count2 = 0 then .ok s
  else
    let idx := itMinus c s first (itBegin c s)
    replaceImpl c s idx (itCount1 c s first last idx) a 0 count2
def replaceItP (c : Cfg) (s : FStr) (first last : Nat) (a : List Byte) : Res FStr :=
  bindR (cstrlen a) fun n => replaceItPN c s first last a n
def replaceItCh (c : Cfg) (s : FStr) (first last count2 ch : Nat) : Res FStr :=
  if first = itEnd c ∨ last = first ∨ count2 = 0 then .ok s
  else replaceCh c s (itMinus c s first (itBegin c s)) (itMinus c s last first) count2 ch
def replaceItList (c : Cfg) (s : FStr) (first last : Nat) (il : Str) : Res FStr :=
  if il.length = 0 then .ok s else replaceItPN c s first last il il.length

/-! ### substr, copy, swap -/

def substr (s : FStr) (pos count : Nat) : Res Str :=
  if pos ≥ s.len ∨ count = 0 then .ok []
  else
    let n := if count ≥ s.len - pos then s.len - pos else count
    Mem.read s.buf pos n "substr"

/-- `copy( dest, count, pos)`: returns the bytes written to `dest` (room: `room` bytes) -/
def copy (s : FStr) (room count pos : Nat) : Res (Nat × Str) :=
  if pos ≥ s.len then .ok (0, [])
  else
    let n := if count ≥ s.len - pos then s.len - pos else count
    if n > room then .oob "copy dest"
    else bindR (Mem.read s.buf pos n "copy") fun d => .ok (n, d)

def swap (c : Cfg) (s o : FStr) : Res (FStr × FStr) :=
  if s.len = 0 then
    if o.len > 0 then
      bindR (copyIn s.buf 0 o.buf 0 (o.len + 1)) fun b =>
      bindR (put1 o.buf 0 0) fun ob => .ok (⟨b, o.len⟩, ⟨ob, 0⟩)
    else .ok (s, o)
  else if o.len = 0 then
    bindR (copyIn o.buf 0 s.buf 0 (s.len + 1)) fun ob =>
    bindR (put1 s.buf 0 0) fun b => .ok (⟨b, 0⟩, ⟨ob, s.len⟩)
  else
    -- char buffer[ L + 1]
    bindR (copyIn (zeros c) 0 s.buf 0 (s.len + 1)) fun tmp =>
    bindR (copyIn s.buf 0 o.buf 0 (o.len + 1)) fun b =>
    bindR (copyIn o.buf 0 tmp 0 (s.len + 1)) fun ob => .ok (⟨b, o.len⟩, ⟨ob, s.len⟩)

/-! ### find family -/

/-- `for (idx = start; idx <= last; ++idx) if (memcmp( &mString[ idx], str, n) == 0) return idx` -/
def findLoop (s : FStr) (a : List Byte) (n : Nat) : Nat → Nat → Res (Option Nat)
  | 0, _ => .ok none
  | fuel + 1, idx =>
    bindR (memcmp s.buf idx a 0 n) fun r => if r = 0 then .ok (some idx) else findLoop s a n fuel (idx + 1)

/-- the three `find( str, pos)` overloads share this shape (`n` = length of the search string) -/
def findN (s : FStr) (a : List Byte) (pos n : Nat) : Res (Option Nat) :=
  if n > s.len ∨ pos > s.len - n ∨ s.len = 0 ∨ n = 0 then .ok none
  else findLoop s a n (s.len - n - pos + 1) pos
def findP (s : FStr) (a : List Byte) (pos : Nat) : Res (Option Nat) :=
  bindR (cstrlen a) fun n => findN s a pos n

def scanLoop (s : FStr) (p : Byte → Res Bool) : Nat → Nat → Res (Option Nat)
  | 0, _ => .ok none
  | fuel + 1, idx =>
    bindR (get1 s.buf idx) fun x => bindR (p x) fun hit => if hit then .ok (some idx) else scanLoop s p fuel (idx + 1)

/-- `find( ch, pos)` -/
def findCh (c : Cfg) (s : FStr) (ch pos : Nat) : Res (Option Nat) :=
  if addW c pos 1 > s.len ∨ s.len = 0 then .ok none
  else scanLoop s (fun x => .ok (x = ch)) (s.len - pos) pos

/-- `for (idx = start + 1; idx-- > 0; )`: visits start, start-1, ..., 0 -/
def rscanLoop (buf : List Byte) (p : Nat → Res Bool) : Nat → Res (Option Nat)
  | 0 => .ok none
  | idx + 1 => bindR (p idx) fun hit => if hit then .ok (some idx) else rscanLoop buf p idx

def rfindN (c : Cfg) (s : FStr) (a : List Byte) (pos n : Nat) : Res (Option Nat) :=
  if s.len = 0 ∨ n = 0 ∨ n > s.len then .ok none
  else
    let pos' := if pos = npos c ∨ pos > s.len - n then s.len - n else pos
    rscanLoop s.buf (fun idx => bindR (memcmp s.buf idx a 0 n) fun r => .ok (r = 0)) (pos' + 1)
/-- `rfind( str, pos, count)` -/
def rfindPN (c : Cfg) (s : FStr) (a : List Byte) (pos count : Nat) : Res (Option Nat) :=
  if s.len = 0 then .ok none
  else bindR (cstrlen a) fun sl =>
    if sl = 0 then .ok none
    else
      let count' := if count > sl then sl else count
      if count' > s.len then .ok none
      else
        let pos' := if pos = npos c ∨ pos > s.len - count' then s.len - count' else pos
        rscanLoop s.buf (fun idx => bindR (memcmp s.buf idx a 0 count') fun r => .ok (r = 0)) (pos' + 1)
def rfindP (c : Cfg) (s : FStr) (a : List Byte) (pos : Nat) : Res (Option Nat) :=
  bindR (cstrlen a) fun n => rfindPN c s a pos n
/-- `rfind( ch, pos)`.  Repaired (fix: `pos = mLength - 1` for the default position): the pinned code started on the
    terminator (`pos = mLength`), so `rfind( '\0')` answered `length()`. -/
def rfindCh (c : Cfg) (s : FStr) (ch pos : Nat) : Res (Option Nat) :=
  if addW c pos 1 > s.len ∨ s.len = 0 then .ok none
  else
    let pos' := if pos = npos c then s.len - 1 else pos
    rscanLoop s.buf (fun idx => bindR (get1 s.buf idx) fun x => .ok (x = ch)) (pos' + 1)

/-- membership in the first `n` bytes of `a` (the hand-written inner loops) -/
def memN (a : List Byte) : Nat → Nat → Byte → Res Bool
  | 0, _, _ => .ok false
  | fuel + 1, i, x => bindR (get1 a i) fun y => if y = x then .ok true else memN a fuel (i + 1) x

def notR (r : Res Bool) : Res Bool := bindR r fun b => .ok (!b)

def findFirstOfImpl (s : FStr) (a : List Byte) (pos count : Nat) (neg : Bool) : Res (Option Nat) :=
  if pos > s.len ∨ count = 0 then .ok none
  else scanLoop s (fun x => if neg then notR (strchr a x) else strchr a x) (s.len - pos) pos
def findFirstOfPN (s : FStr) (a : List Byte) (pos count : Nat) (neg : Bool) : Res (Option Nat) :=
  if pos > s.len ∨ count = 0 then .ok none
  else scanLoop s (fun x => if neg then notR (memN a count 0 x) else memN a count 0 x) (s.len - pos) pos
def findFirstOfCh (s : FStr) (ch pos : Nat) (neg : Bool) : Res (Option Nat) :=
  if pos ≥ s.len then .ok none
  else scanLoop s (fun x => .ok (if neg then x ≠ ch else x = ch)) (s.len - pos) pos

def findLastOfImpl (c : Cfg) (s : FStr) (a : List Byte) (pos count : Nat) (neg : Bool) : Res (Option Nat) :=
  let pos' := if pos = npos c then s.len else addW c pos 1
  if subW c pos' 1 ≥ s.len ∨ count = 0 then .ok none
  else rscanLoop s.buf (fun idx => bindR (get1 s.buf idx) fun x => if neg then notR (strchr a x) else strchr a x) pos'
/-- `find_last_of( str, pos, count)` / `find_last_not_of( str, pos, count)`.  Repaired (fix: `pos >= mLength`):
    the pinned code tested `pos > mLength`, so with `pos == length()` the loop started on the terminator
    (`find_last_not_of( "x", length(), 1)` answered `length()`). -/
def findLastOfPN (s : FStr) (a : List Byte) (pos count : Nat) (neg : Bool) : Res (Option Nat) :=
  if pos ≥ s.len ∨ count = 0 then .ok none
  else rscanLoop s.buf (fun idx => bindR (get1 s.buf idx) fun x =>
         if neg then notR (memN a count 0 x) else memN a count 0 x) (pos + 1)
def findLastOfCh (c : Cfg) (s : FStr) (ch pos : Nat) (neg : Bool) : Res (Option Nat) :=
  if pos = npos c then
    rscanLoop s.buf (fun idx => bindR (get1 s.buf idx) fun x => .ok (if neg then x ≠ ch else x = ch)) s.len
  else if pos ≥ s.len then .ok none
  else rscanLoop s.buf (fun idx => bindR (get1 s.buf idx) fun x => .ok (if neg then x ≠ ch else x = ch)) (pos + 1)

/-! ### well-formedness and abstraction -/

def WF (c : Cfg) (s : FStr) : Prop := s.buf.length = c.L + 1 ∧ s.len ≤ c.L ∧ s.buf[s.len]? = some 0

instance (c : Cfg) (s : FStr) : Decidable (WF c s) := by unfold WF; infer_instance

/-- the text a fixed string holds -/
def abs (s : FStr) : Str := s.buf.take s.len

end CelmaVerif.FixedString

/-! ## The operation language of the correspondence run (one constructor per public overload) -/

namespace CelmaVerif.FixedString
open CelmaVerif

/-- the three objects of a case: `s` (capacity `L`), `t` (capacity `L`), `u` (capacity `cu.L`) -/
structure World where
  s : FStr
  t : FStr
  u : FStr
  deriving Repr

inductive Sel | t | u
  deriving Repr, DecidableEq

/-- iterator argument: `end()` or `iterator( obj, pos)` -/
inductive ItArg | fin | pos (p : Nat)
  deriving Repr, DecidableEq

inductive Fam | find | rfind | ffo | ffno | flo | flno
  deriving Repr, DecidableEq

/-- the nine overload shapes of every member of the find family (`none` = defaulted position) -/
inductive Needle
  | f (pos : Option Nat)                     -- same-type FixedString (`t`)
  | s (d : Str) (pos : Option Nat)           -- std::string
  | ppc (a : List Byte) (pos n : Nat)        -- const char*, pos, count
  | pp (a : List Byte) (pos : Option Nat)    -- const char*
  | c (ch : Byte) (pos : Option Nat)         -- char
  deriving Repr

inductive Op
  | tset (d : Str) | uset (d : Str)
  | ctorP (a : List Byte) | ctorS (d : Str) | ctorF (f : Sel) | ctorMove | ctorDef
  | assignP (a : List Byte) | assignS (d : Str) | assignF (f : Sel)
  | setP (a : List Byte) | setS (d : Str) | setF (f : Sel) | clear
  | str | cStr | data | length | empty | atI (i : Nat) | cat (i : Nat) | idx (i : Nat) | front | back | stream
  | iterFwd | iterCFwd | iterRev | iterCRev | itDeref (k : Nat) | itDist
  | itWalk (rev : Bool) (p : ItArg) (ms : List ItMove) | itWalkDeref (rev : Bool) (p : ItArg) (ms : List ItMove)
  | itWalkIdx (rev : Bool) (p : ItArg) (ms : List ItMove) (k : Nat) | itRel (rev : Bool) (r : Nat) (a b : ItArg)
  | insertICC (i n : Nat) (ch : Byte) | insertIPC (i : Nat) (a : List Byte) (n : Nat) | insertIP (i : Nat) (a : List Byte)
  | insertIS (i : Nat) (d : Str) | insertISIC (i : Nat) (d : Str) (j n : Nat) | insertIF (i : Nat) (f : Sel)
  | insertIFIC (i : Nat) (f : Sel) (j n : Nat)
  | insertItC (p : ItArg) (ch : Byte) | insertItCC (p : ItArg) (n : Nat) (ch : Byte) | insertItIl (p : ItArg) (il : Str)
  | erase (i n : Nat) | eraseI (i : Nat) | erase0 | eraseIt (p : ItArg) | eraseItIt (p q : ItArg)
  | pushBack (ch : Byte) | popBack
  | appendCC (n : Nat) (ch : Byte) | appendS (d : Str) | appendF (f : Sel) | appendSPC (d : Str) (p n : Nat)
  | appendSP (d : Str) (p : Nat) | appendFPC (f : Sel) (p n : Nat) | appendFP (f : Sel) (p : Nat)
  | appendPC (a : List Byte) (n : Nat) | appendP (a : List Byte) | appendItIt (x y : ItArg)
  | addF (f : Sel) | addS (d : Str) | addP (a : List Byte) | addC (ch : Byte)
  | sprintf (a : List Byte) | sprintf2 (a : List Byte) (v : Nat)
  | sprintfW (a : List Byte) (wa : WArg) (v : Nat) (b : List Byte)    -- formats with `%ls` / `%.*ls` / `%lc`: the formatter can fail
  | cmpF (f : Sel) | cmpS (d : Str) | cmpP (a : List Byte)
  | cmpCCF (p n : Nat) (f : Sel) | cmpCCS (p n : Nat) (d : Str) | cmpCCP (p n : Nat) (a : List Byte)
  | cmpCCFCC (p n : Nat) (f : Sel) (p2 n2 : Nat) | cmpCCSCC (p n : Nat) (d : Str) (p2 n2 : Nat)
  | cmpCCPC (p n : Nat) (a : List Byte) (n2 : Nat)
  | swF (f : Sel) | swS (d : Str) | swP (a : List Byte) | swC (ch : Byte)
  | ewF (f : Sel) | ewS (d : Str) | ewP (a : List Byte) | ewC (ch : Byte)
  | ctF (f : Sel) | ctS (d : Str) | ctP (a : List Byte) | ctC (ch : Byte)
  | repCCF (p n : Nat) (f : Sel) | repCCS (p n : Nat) (d : Str)
  | repCCFCC (p n : Nat) (f : Sel) (p2 n2 : Nat) | repCCFC (p n : Nat) (f : Sel) (p2 : Nat)
  | repCCSCC (p n : Nat) (d : Str) (p2 n2 : Nat) | repCCSC (p n : Nat) (d : Str) (p2 : Nat)
  | repCCP (p n : Nat) (a : List Byte) | repCCPC (p n : Nat) (a : List Byte) (n2 : Nat)
  | repCCCC (p n n2 : Nat) (ch : Byte)
  | repItItItIt (f l : ItArg) (x y : ItArg) | repItItSIt (f l : ItArg) (d : Str) (i j : Nat)
  | repItItPC (f l : ItArg) (a : List Byte) (n2 : Nat) | repItItP (f l : ItArg) (a : List Byte)
  | repItItCC (f l : ItArg) (n2 : Nat) (ch : Byte) | repItItIl (f l : ItArg) (il : Str)
  | substr (p n : Nat) | substrP (p : Nat) | copy (n p : Nat) | copyC (n : Nat) | swap
  | search (fam : Fam) (nd : Needle)
  | eq (f : Sel) | ne (f : Sel)
  deriving Repr

inductive Out
  | unit | nat (n : Nat) | pos (o : Option Nat) | int (i : Int) | bool (b : Bool) | bytes (l : Str) | byte (b : Byte)
  | copied (n : Nat) (l : Str) | iter (i : Nat)
  deriving Repr

def World.sel (w : World) : Sel → FStr
  | .t => w.t
  | .u => w.u

def itOf (c : Cfg) (s : FStr) : ItArg → Nat
  | .fin => itEnd c
  | .pos p => itAt c s p

def mutS (w : World) (r : Res FStr) : Res (World × Out) :=
  bindR r fun s' => .ok ({ w with s := s' }, .unit)
def mutIt (w : World) (r : Res (FStr × Nat)) : Res (World × Out) :=
  bindR r fun p => .ok ({ w with s := p.1 }, .iter p.2)
def obs {α : Type} (w : World) (r : Res α) (f : α → Out) : Res (World × Out) :=
  bindR r fun a => .ok (w, f a)

/-- decimal digits of `v` (what `%lu` prints) -/
def decimal (v : Nat) : Str := (Nat.repr v).toList.map Char.toNat

def searchStep (c : Cfg) (w : World) (fam : Fam) (nd : Needle) : Res (Option Nat) :=
  let s := w.s
  let dflt : Nat := match fam with | .find | .ffo | .ffno => 0 | _ => npos c
  let P (o : Option Nat) : Nat := o.getD dflt
  match fam, nd with
  | .find, .f p => findN s w.t.buf (P p) w.t.len
  | .find, .s d p => findN s (d ++ [0]) (P p) d.length
  | .find, .ppc a p n => findN s a p n
  | .find, .pp a p => findP s a (P p)
  | .find, .c ch p => findCh c s ch (P p)
  | .rfind, .f p => rfindN c s w.t.buf (P p) w.t.len
  | .rfind, .s d p => rfindN c s (d ++ [0]) (P p) d.length
  | .rfind, .ppc a p n => rfindPN c s a p n
  | .rfind, .pp a p => rfindP c s a (P p)
  | .rfind, .c ch p => rfindCh c s ch (P p)
  | .ffo, .f p => findFirstOfImpl s w.t.buf (P p) w.t.len false
  | .ffo, .s d p => findFirstOfImpl s (d ++ [0]) (P p) d.length false
  | .ffo, .ppc a p n => findFirstOfPN s a p n false
  | .ffo, .pp a p => bindR (cstrlen a) fun n => findFirstOfImpl s a (P p) n false
  | .ffo, .c ch p => findFirstOfCh s ch (P p) false
  | .ffno, .f p => findFirstOfImpl s w.t.buf (P p) w.t.len true
  | .ffno, .s d p => findFirstOfImpl s (d ++ [0]) (P p) d.length true
  | .ffno, .ppc a p n => findFirstOfPN s a p n true
  | .ffno, .pp a p => bindR (cstrlen a) fun n => findFirstOfImpl s a (P p) n true
  | .ffno, .c ch p => findFirstOfCh s ch (P p) true
  | .flo, .f p => findLastOfImpl c s w.t.buf (P p) w.t.len false
  | .flo, .s d p => findLastOfImpl c s (d ++ [0]) (P p) d.length false
  | .flo, .ppc a p n => findLastOfPN s a p n false
  | .flo, .pp a p => bindR (cstrlen a) fun n => findLastOfImpl c s a (P p) n false
  | .flo, .c ch p => findLastOfCh c s ch (P p) false
  | .flno, .f p => findLastOfImpl c s w.t.buf (P p) w.t.len true
  | .flno, .s d p => findLastOfImpl c s (d ++ [0]) (P p) d.length true
  | .flno, .ppc a p n => findLastOfPN s a p n true
  | .flno, .pp a p => bindR (cstrlen a) fun n => findLastOfImpl c s a (P p) n true
  | .flno, .c ch p => findLastOfCh c s ch (P p) true

/-- one operation on the world; `c` describes `s`/`t`, `cu` describes `u` -/
def step (c cu : Cfg) (w : World) : Op → Res (World × Out)
  | .tset d => bindR (assignS c w.t d) fun t' => .ok ({ w with t := t' }, .unit)
  | .uset d => bindR (assignS cu w.u d) fun u' => .ok ({ w with u := u' }, .unit)
  | .ctorP a => mutS w (ctorP c a)
  | .ctorS d => mutS w (ctorS c d)
  | .ctorF f => mutS w (match f with | .t => .ok w.t | .u => ctorF c w.u)   -- same type: defaulted copy constructor
  | .ctorMove => mutS w (ctorMove c w.t)
  | .ctorDef => mutS w (.ok (fresh c))
  | .assignP a => mutS w (assignP c w.s a)
  | .assignS d => mutS w (assignS c w.s d)
  | .assignF f => mutS w (assignF c w.s (w.sel f))
  | .setP a => mutS w (assignP c w.s a)
  | .setS d => mutS w (assignS c w.s d)
  | .setF f => mutS w (match f with | .t => .ok w.t | .u => assignF c w.s w.u)   -- same type: defaulted operator=
  | .clear => mutS w (clear w.s)
  | .str => obs w (str w.s) .bytes
  | .cStr => obs w (cstrView w.s) .bytes
  | .data => obs w (cstrView w.s) .bytes
  | .length => .ok (w, .nat w.s.len)
  | .empty => .ok (w, .bool (w.s.len = 0))
  | .atI i => obs w (at_ w.s i) .byte
  | .cat i => obs w (at_ w.s i) .byte
  | .idx i => obs w (index w.s i) .byte
  | .front => obs w (front w.s) .byte
  | .back => obs w (back w.s) .byte
  | .stream => obs w (streamView w.s) .bytes
  | .iterFwd => obs w (iterFwd c w.s) .bytes
  | .iterCFwd => obs w (iterFwd c w.s) .bytes
  | .iterRev => obs w (iterRev c w.s) .bytes
  | .iterCRev => obs w (iterRev c w.s) .bytes
  | .itDeref k => obs w (itDeref c w.s (itAt c w.s k)) .byte
  | .itDist => .ok (w, .nat (itMinus c w.s (itEnd c) (itBegin c w.s)))
  | .itWalk rev p ms => .ok (w, .iter (itWalk c w.s rev (itOf c w.s p) ms))
  | .itWalkDeref rev p ms => obs w (itDeref c w.s (itWalk c w.s rev (itOf c w.s p) ms)) .byte
  | .itWalkIdx rev p ms k => obs w (itIndex c w.s rev (itWalk c w.s rev (itOf c w.s p) ms) k) .byte
  | .itRel rev r a b => .ok (w, .bool (itRel rev r (itOf c w.s a) (itOf c w.s b)))
  | .insertICC i n ch => mutS w (insertCh c w.s i n ch)
  | .insertIPC i a n => mutS w (insertP c w.s i a n)
  | .insertIP i a => mutS w (insertCstr c w.s i a)
  | .insertIS i d => mutS w (insertS c w.s i d)
  | .insertISIC i d j n => mutS w (insertSub c w.s i d j n)
  | .insertIF i f => mutS w (insertF c w.s i (w.sel f))
  | .insertIFIC i f j n => mutS w (insertFSub c w.s i (w.sel f) j n)
  | .insertItC p ch => mutIt w (insertItCh c w.s (itOf c w.s p) 1 ch)
  | .insertItCC p n ch => mutIt w (insertItCh c w.s (itOf c w.s p) n ch)
  | .insertItIl p il => mutIt w (insertItList c w.s (itOf c w.s p) il)
  | .erase i n => mutS w (erase c w.s i n)
  | .eraseI i => mutS w (erase c w.s i (npos c))
  | .erase0 => mutS w (erase c w.s 0 (npos c))
  | .eraseIt p => mutIt w (eraseIt c w.s (itOf c w.s p))
  | .eraseItIt p q => mutIt w (eraseItIt c w.s (itOf c w.s p) (itOf c w.s q))
  | .pushBack ch => mutS w (pushBack c w.s ch)
  | .popBack => mutS w (popBack c w.s)
  | .appendCC n ch => mutS w (appendCh c w.s n ch)
  | .appendS d => mutS w (appendS c w.s d)
  | .appendF f => mutS w (appendF c w.s (w.sel f))
  | .appendSPC d p n => mutS w (appendSSub c w.s d p n)
  | .appendSP d p => mutS w (appendSSub c w.s d p (npos c))
  | .appendFPC f p n => mutS w (appendFSub c w.s (w.sel f) p n)
  | .appendFP f p => mutS w (appendFSub c w.s (w.sel f) p (npos c))
  | .appendPC a n => mutS w (appendPN c w.s a n)
  | .appendP a => mutS w (appendP c w.s a)
  | .appendItIt x y => mutS w (appendItIt c w.s w.t (itOf c w.t x) (itOf c w.t y))
  | .addF f => mutS w (appendF c w.s (w.sel f))
  | .addS d => mutS w (appendS c w.s d)
  | .addP a => mutS w (appendP c w.s a)
  | .addC ch => mutS w (appendCh c w.s 1 ch)
  | .sprintf a => mutS w (sprintf c w.s (StdString.ofCStr a))
  | .sprintf2 a v => mutS w (sprintf c w.s (StdString.ofCStr a ++ [47] ++ decimal v))
  | .sprintfW a wa v b => mutS w (sprintfF c w.s (fmtW (decimal v) a wa b))
  | .cmpF f => obs w (fullCompare w.s (w.sel f).buf (w.sel f).len) .int
  | .cmpS d => obs w (fullCompare w.s (d ++ [0]) d.length) .int
  | .cmpP a => obs w (bindR (cstrlen a) fun n => fullCompare w.s a n) .int
  | .cmpCCF p n f => obs w (partCompare w.s p n (w.sel f).buf (w.sel f).len) .int
  | .cmpCCS p n d => obs w (partCompare w.s p n (d ++ [0]) d.length) .int
  | .cmpCCP p n a => obs w (bindR (cstrlen a) fun k => partCompare w.s p n a k) .int
  | .cmpCCFCC p n f p2 n2 => obs w (partPartCompare w.s p n (w.sel f).buf (w.sel f).len p2 n2) .int
  | .cmpCCSCC p n d p2 n2 => obs w (partPartCompare w.s p n (d ++ [0]) d.length p2 n2) .int
  | .cmpCCPC p n a n2 => obs w (bindR (cstrlen a) fun k => partPartCompare w.s p n a k 0 n2) .int
  | .swF f => obs w (startsWith w.s (w.sel f).buf (w.sel f).len) .bool
  | .swS d => obs w (startsWith w.s (d ++ [0]) d.length) .bool
  | .swP a => obs w (bindR (cstrlen a) fun n => startsWith w.s a n) .bool
  | .swC ch => obs w (startsWithCh w.s ch) .bool
  | .ewF f => obs w (endsWith w.s (w.sel f).buf (w.sel f).len) .bool
  | .ewS d => obs w (endsWith w.s (d ++ [0]) d.length) .bool
  | .ewP a => obs w (bindR (cstrlen a) fun n => endsWith w.s a n) .bool
  | .ewC ch => obs w (endsWithCh w.s ch) .bool
  | .ctF f => obs w (containsImpl w.s (w.sel f).buf (w.sel f).len) .bool
  | .ctS d => obs w (containsImpl w.s (d ++ [0]) d.length) .bool
  | .ctP a => obs w (bindR (cstrlen a) fun n => containsImpl w.s a n) .bool
  | .ctC ch => obs w (containsCh w.s ch) .bool
  | .repCCF p n f => mutS w (replaceF c w.s p n (w.sel f))
  | .repCCS p n d => mutS w (replaceS c w.s p n d)
  | .repCCFCC p n f p2 n2 => mutS w (replaceFSub c w.s p n (w.sel f) p2 n2)
  | .repCCFC p n f p2 => mutS w (replaceFSub c w.s p n (w.sel f) p2 (npos c))
  | .repCCSCC p n d p2 n2 => mutS w (replaceSSub c w.s p n d p2 n2)
  | .repCCSC p n d p2 => mutS w (replaceSSub c w.s p n d p2 (npos c))
  | .repCCP p n a => mutS w (replaceP c w.s p n a)
  | .repCCPC p n a n2 => mutS w (replacePN c w.s p n a n2)
  | .repCCCC p n n2 ch => mutS w (replaceCh c w.s p n n2 ch)
  | .repItItItIt f l x y => mutS w (replaceItIt c w.s (itOf c w.s f) (itOf c w.s l) w.t (itOf c w.t x) (itOf c w.t y))
  | .repItItSIt f l d i j => mutS w (replaceItSIt c w.s (itOf c w.s f) (itOf c w.s l) d i j)
  | .repItItPC f l a n2 => mutS w (replaceItPN c w.s (itOf c w.s f) (itOf c w.s l) a n2)
  | .repItItP f l a => mutS w (replaceItP c w.s (itOf c w.s f) (itOf c w.s l) a)
  | .repItItCC f l n2 ch => mutS w (replaceItCh c w.s (itOf c w.s f) (itOf c w.s l) n2 ch)
  | .repItItIl f l il => mutS w (replaceItList c w.s (itOf c w.s f) (itOf c w.s l) il)
  | .substr p n => obs w (substr w.s p n) .bytes
  | .substrP p => obs w (substr w.s p (npos c)) .bytes
  | .copy n p => obs w (copy w.s (if p < w.s.len then min n (w.s.len - p) else 0) n p) fun r => .copied r.1 r.2
  | .copyC n => obs w (copy w.s (min n w.s.len) n 0) fun r => .copied r.1 r.2
  | .swap => bindR (swap c w.s w.t) fun p => .ok ({ w with s := p.1, t := p.2 }, .unit)
  | .search fam nd => obs w (searchStep c w fam nd) .pos
  | .eq f => obs w (eqOp w.s (w.sel f)) .bool
  | .ne f => obs w (neOp w.s (w.sel f)) .bool

def World.init (c cu : Cfg) : World := ⟨fresh c, fresh c, fresh cu⟩

/-- a history: an exception (`at()` beyond the end, dereferencing `end()`) is caught by the caller and
    leaves the objects unchanged; an out-of-bounds access ends everything -/
def run (c cu : Cfg) (w : World) : List Op → Res World
  | [] => .ok w
  | op :: ops =>
    match step c cu w op with
    | .ok p => run c cu p.1 ops
    | .throw _ => run c cu w ops
    | .oob x => .oob x

end CelmaVerif.FixedString

/-! ## C11: what `std::string` does with the same operation, and the documented domain -/

namespace CelmaVerif.FixedString
open CelmaVerif

/-- `Out.undef`-like marker is not needed: `operator[]` beyond `size()` is outside the domain; the
    specification then answers with the NUL byte. -/
def hasNul (l : List Byte) : Bool := l.contains 0

/-- std::string position denoted by an iterator argument -/
def itPos (x : Str) : ItArg → Nat
  | .fin => x.length
  | .pos p => min p x.length

def World.text (w : World) (f : Sel) : Str := abs (w.sel f)

def needleText (w : World) : Needle → Str
  | .f _ => abs w.t
  | .s d _ => d
  | .ppc a _ n => a.take n
  | .pp a _ => StdString.ofCStr a
  | .c ch _ => [ch]

def needlePos (dflt : Nat) : Needle → Nat
  | .f p => p.getD dflt
  | .s _ p => p.getD dflt
  | .ppc _ p _ => p
  | .pp _ p => p.getD dflt
  | .c _ p => p.getD dflt

def okS (x : Str) : Res (Str × Out) := .ok (x, .unit)
def thenS (r : Res Str) : Res (Str × Out) := bindR r okS

/-- The same operation on a `std::string` holding `abs w.s`: new content (not yet cut at the capacity)
    and the observer's answer.  `cl` bounds repetition counts (identity in the theorems; the driver
    passes `min · (L + 1)`, which gives the same text once cut at `L`). `big` stands for `npos`. -/
def spec (cl : Nat → Nat) (big : Nat) (w : World) (op : Op) : Res (Str × Out) :=
  let x := abs w.s
  let T := w.text
  let rep (n : Nat) (ch : Byte) : Str := List.replicate (cl n) ch
  let obsv (o : Out) : Res (Str × Out) := .ok (x, o)
  let itRep (f l : ItArg) (r : Str) : Res (Str × Out) :=
    if itPos x f > itPos x l then .throw .out_of_range
    else thenS (StdString.replace x (itPos x f) (itPos x l - itPos x f) r)
  match op with
  | .tset _ | .uset _ => obsv .unit
  | .itWalk .. | .itWalkDeref .. | .itWalkIdx .. | .itRel .. => obsv .unit   -- no specification attached (`inDomain = false`)
  | .ctorP a | .assignP a | .setP a | .sprintf a => okS (StdString.ofCStr a)
  | .ctorS d | .assignS d | .setS d => okS d
  | .ctorF f | .assignF f | .setF f => okS (T f)
  | .ctorMove | .swap => okS (T .t)
  | .ctorDef | .clear => okS []
  | .sprintf2 a v => okS (StdString.ofCStr a ++ [47] ++ decimal v)
  -- the formatted text; when the formatter fails there is no std::string operation to compare with
  -- (`inDomain = false`), the reference printed for the tie is the empty string
  | .sprintfW a wa v b => okS (match fmtW (decimal v) a wa b with | .done t => t | .failed _ => [])
  -- `os << std_string` writes all `size()` characters (embedded NULs included), like `str()`
  | .str | .iterFwd | .iterCFwd | .stream => obsv (.bytes x)
  | .cStr | .data => obsv (.bytes (StdString.ofCStr x))
  | .length | .itDist => obsv (.nat x.length)
  | .empty => obsv (.bool x.isEmpty)
  | .atI i | .cat i | .itDeref i => bindR (StdString.at_ x i) fun b => obsv (.byte b)
  | .idx i => obsv (.byte (x.getD i 0))
  | .front => obsv (.byte (x.headD 0))
  | .back => obsv (.byte (x.getLastD 0))
  | .iterRev | .iterCRev => obsv (.bytes x.reverse)
  | .insertICC i n ch => thenS (StdString.insert x i (rep n ch))
  | .insertIPC i a n => thenS (StdString.insert x i (a.take n))
  | .insertIP i a => thenS (StdString.insert x i (StdString.ofCStr a))
  | .insertIS i d => thenS (StdString.insert x i d)
  | .insertISIC i d j n => thenS (bindR (StdString.substr d j n) fun r => StdString.insert x i r)
  | .insertIF i f => thenS (StdString.insert x i (T f))
  | .insertIFIC i f j n => thenS (bindR (StdString.substr (T f) j n) fun r => StdString.insert x i r)
  | .insertItC p ch => thenS (StdString.insert x (itPos x p) [ch])
  | .insertItCC p n ch => thenS (StdString.insert x (itPos x p) (rep n ch))
  | .insertItIl p il => thenS (StdString.insert x (itPos x p) il)
  | .erase i n => thenS (StdString.erase x i n)
  | .eraseI i => thenS (StdString.erase x i big)
  | .erase0 => okS []
  | .eraseIt p => if itPos x p ≥ x.length then .throw .out_of_range else thenS (StdString.erase x (itPos x p) 1)
  | .eraseItIt p q =>
    if itPos x p > itPos x q then .throw .out_of_range else thenS (StdString.erase x (itPos x p) (itPos x q - itPos x p))
  | .pushBack ch | .addC ch => okS (x ++ [ch])
  | .popBack => if x.isEmpty then .throw .out_of_range else okS x.dropLast
  | .appendCC n ch => okS (x ++ rep n ch)
  | .appendS d | .addS d => okS (x ++ d)
  | .appendF f | .addF f => okS (x ++ T f)
  | .appendSPC d p n => thenS (bindR (StdString.substr d p n) fun r => .ok (x ++ r))
  | .appendSP d p => thenS (bindR (StdString.substr d p big) fun r => .ok (x ++ r))
  | .appendFPC f p n => thenS (bindR (StdString.substr (T f) p n) fun r => .ok (x ++ r))
  | .appendFP f p => thenS (bindR (StdString.substr (T f) p big) fun r => .ok (x ++ r))
  | .appendPC a n => okS (x ++ a.take n)          -- `std::string::append( p, n)`: the `n` bytes at `p`, NULs included
  | .appendP a | .addP a => okS (x ++ StdString.ofCStr a)
  | .appendItIt i j => okS (x ++ ((T .t).drop (itPos (T .t) i)).take (itPos (T .t) j - itPos (T .t) i))
  | .cmpF f => obsv (.int (StdString.compare x (T f)))
  | .cmpS d => obsv (.int (StdString.compare x d))
  | .cmpP a => obsv (.int (StdString.compare x (StdString.ofCStr a)))
  | .cmpCCF p n f => bindR (StdString.substr x p n) fun y => obsv (.int (StdString.compare y (T f)))
  | .cmpCCS p n d => bindR (StdString.substr x p n) fun y => obsv (.int (StdString.compare y d))
  | .cmpCCP p n a => bindR (StdString.substr x p n) fun y => obsv (.int (StdString.compare y (StdString.ofCStr a)))
  | .cmpCCFCC p n f p2 n2 => bindR (StdString.substr x p n) fun y => bindR (StdString.substr (T f) p2 n2) fun z =>
      obsv (.int (StdString.compare y z))
  | .cmpCCSCC p n d p2 n2 => bindR (StdString.substr x p n) fun y => bindR (StdString.substr d p2 n2) fun z =>
      obsv (.int (StdString.compare y z))
  | .cmpCCPC p n a n2 => bindR (StdString.substr x p n) fun y =>
      obsv (.int (StdString.compare y (a.take n2)))   -- `compare( pos, n, p, n2)`: the `n2` bytes at `p`
  | .swF f => obsv (.bool (StdString.startsWith x (T f)))
  | .swS d => obsv (.bool (StdString.startsWith x d))
  | .swP a => obsv (.bool (StdString.startsWith x (StdString.ofCStr a)))
  | .swC ch => obsv (.bool (StdString.startsWith x [ch]))
  | .ewF f => obsv (.bool (StdString.endsWith x (T f)))
  | .ewS d => obsv (.bool (StdString.endsWith x d))
  | .ewP a => obsv (.bool (StdString.endsWith x (StdString.ofCStr a)))
  | .ewC ch => obsv (.bool (StdString.endsWith x [ch]))
  | .ctF f => obsv (.bool (StdString.contains x (T f)))
  | .ctS d => obsv (.bool (StdString.contains x d))
  | .ctP a => obsv (.bool (StdString.contains x (StdString.ofCStr a)))
  | .ctC ch => obsv (.bool (StdString.contains x [ch]))
  | .repCCF p n f => thenS (StdString.replace x p n (T f))
  | .repCCS p n d => thenS (StdString.replace x p n d)
  | .repCCFCC p n f p2 n2 => thenS (bindR (StdString.substr (T f) p2 n2) fun r => StdString.replace x p n r)
  | .repCCFC p n f p2 => thenS (bindR (StdString.substr (T f) p2 big) fun r => StdString.replace x p n r)
  | .repCCSCC p n d p2 n2 => thenS (bindR (StdString.substr d p2 n2) fun r => StdString.replace x p n r)
  | .repCCSC p n d p2 => thenS (bindR (StdString.substr d p2 big) fun r => StdString.replace x p n r)
  | .repCCP p n a => thenS (StdString.replace x p n (StdString.ofCStr a))
  | .repCCPC p n a n2 => thenS (StdString.replace x p n (a.take n2))   -- the `n2` bytes at `p`
  | .repCCCC p n n2 ch => thenS (StdString.replace x p n (rep n2 ch))
  | .repItItItIt f l i j => itRep f l (((T .t).drop (itPos (T .t) i)).take (itPos (T .t) j - itPos (T .t) i))
  | .repItItSIt f l d i j => itRep f l ((d.drop i).take (j - i))
  | .repItItPC f l a n2 => itRep f l (a.take n2)
  | .repItItP f l a => itRep f l (StdString.ofCStr a)
  | .repItItCC f l n2 ch => itRep f l (rep n2 ch)
  | .repItItIl f l il => itRep f l il
  | .substr p n => bindR (StdString.substr x p n) fun y => obsv (.bytes y)
  | .substrP p => bindR (StdString.substr x p big) fun y => obsv (.bytes y)
  | .copy n p => bindR (StdString.copy x n p) fun y => obsv (.copied y.length y)
  | .copyC n => bindR (StdString.copy x n 0) fun y => obsv (.copied y.length y)
  | .search fam nd =>
    let pat := needleText w nd
    obsv (.pos (match fam with
      | .find => StdString.find x pat (needlePos 0 nd)
      | .rfind => StdString.rfind x pat (needlePos big nd)
      | .ffo => StdString.findFirstOf x pat (needlePos 0 nd)
      | .ffno => StdString.findFirstNotOf x pat (needlePos 0 nd)
      | .flo => StdString.findLastOf x pat (needlePos big nd)
      | .flno => StdString.findLastNotOf x pat (needlePos big nd)))
  | .eq f => obsv (.bool (x == T f))
  | .ne f => obsv (.bool (x != T f))

/-- a dereferenceable iterator position of `x` -/
def derefable (x : Str) : ItArg → Bool
  | .fin => false
  | .pos p => p < x.length

/-- the iterator argument becomes `end()` (explicitly, or because its position is not inside the string) -/
def actsEnd (x : Str) : ItArg → Bool
  | .fin => true
  | .pos p => decide (x.length ≤ p)

/-- `[f, l)` is a non-empty range whose first element can be dereferenced -/
def itRange (x : Str) (f l : ItArg) : Bool := derefable x f && itPos x f < itPos x l

/-- The documented domain of C11 for one operation: `std::string` itself is defined (positions inside
    the string), C strings are terminated inside their allocation, pointer+count arguments are readable,
    and none of the documented / test-pinned deviations applies (at( length()), end() as a position,
    empty iterator ranges and empty replacements through iterators, empty search strings, positions at
    or behind the end for the backward searches, NUL characters where strlen/strchr is used). -/
def inDomain (big : Nat) (w : World) (op : Op) : Bool :=
  let x := abs w.s
  let T := w.text
  let n := x.length
  match op with
  | .tset _ | .uset _ => false
  -- iterator arithmetic beyond `++`: modelled and proved safe (C10), not compared with std::string iterators
  -- (FixedString maps every position outside the string to `end()`, where a std::string iterator is undefined)
  | .itWalk .. | .itWalkDeref .. | .itWalkIdx .. | .itRel .. => false
  | .ctorP a | .assignP a | .setP a | .sprintf a | .sprintf2 a _ | .appendP a | .addP a
  | .cmpP a | .swP a | .ewP a => hasNul a
  -- a failing formatter (conversion error, `vsnprintf` returns -1) has no counterpart: outside the domain
  | .sprintfW a wa _ b => hasNul a && hasNul b && wa.conv.isSome
  -- documented restriction ("C string", "number of characters from str"): the count does not reach behind the
  -- terminator; beyond it the code stops at the NUL where std::string takes the bytes (`C11_deviation_count_*`)
  | .appendPC a k => hasNul a && k ≤ (StdString.ofCStr a).length
  | .ctorS _ | .assignS _ | .setS _ | .ctorF _ | .assignF _ | .setF _ | .ctorMove | .swap | .ctorDef | .clear => true
  | .str | .iterFwd | .iterCFwd | .iterRev | .iterCRev | .cStr | .data | .stream | .length | .itDist | .empty
  | .front | .back => true
  | .atI i | .cat i => i != n
  | .itDeref i => i < n
  | .idx i => i ≤ n
  | .insertICC i _ _ | .insertIS i _ | .insertIF i _ => i ≤ n
  | .insertIPC i a k => i ≤ n && k ≤ a.length
  | .insertIP i a => i ≤ n && hasNul a
  | .insertISIC i d j _ => i ≤ n && j ≤ d.length
  | .insertIFIC i f j _ => i ≤ n && j ≤ (T f).length
  | .insertItC p _ | .insertItCC p _ _ | .insertItIl p _ | .eraseIt p => derefable x p
  | .erase i _ | .eraseI i => i ≤ n
  | .erase0 => true
  | .eraseItIt p q => itPos x p ≤ itPos x q      -- every range std::string accepts, the empty ones included
  | .pushBack _ | .addC _ | .appendCC _ _ | .appendS _ | .addS _ | .appendF _ | .addF _ => true
  | .popBack => n > 0
  | .appendSPC d p _ | .appendSP d p => p ≤ d.length
  | .appendFPC f p _ | .appendFP f p => p ≤ (T f).length
  | .appendItIt i j => itPos (T .t) i ≤ itPos (T .t) j
  | .cmpF _ | .cmpS _ => true
  | .cmpCCF p _ _ | .cmpCCS p _ _ => p ≤ n
  | .cmpCCP p _ a => p ≤ n && hasNul a
  | .cmpCCPC p _ a k => p ≤ n && hasNul a && k ≤ (StdString.ofCStr a).length
  | .cmpCCFCC p _ f p2 _ => p ≤ n && p2 ≤ (T f).length
  | .cmpCCSCC p _ d p2 _ => p ≤ n && p2 ≤ d.length
  | .swF _ | .swS _ | .swC _ | .ewF _ | .ewS _ | .ewC _ | .ctC _ => true
  | .ctF f => (T f).length > 0
  | .ctS d => d.length > 0
  | .ctP a => hasNul a && (StdString.ofCStr a).length > 0
  | .repCCF p _ _ | .repCCS p _ _ | .repCCCC p _ _ _ => p ≤ n
  | .repCCFCC p _ f p2 _ | .repCCFC p _ f p2 => p ≤ n && p2 ≤ (T f).length
  | .repCCSCC p _ d p2 _ | .repCCSC p _ d p2 => p ≤ n && p2 ≤ d.length
  | .repCCP p _ a => p ≤ n && hasNul a
  | .repCCPC p _ a k => p ≤ n && hasNul a && k ≤ (StdString.ofCStr a).length
  | .repItItItIt f l i j => itRange x f l && itPos (T .t) i < itPos (T .t) j && derefable (T .t) i &&
      (!actsEnd (T .t) j || !hasNul ((T .t).drop (itPos (T .t) i)))
  | .repItItSIt f l d i j => itRange x f l && i < j && j ≤ d.length
  | .repItItPC f l a k => itRange x f l && 0 < k && k ≤ a.length
  | .repItItP f l a => itRange x f l && hasNul a && (StdString.ofCStr a).length > 0
  | .repItItCC f l k _ => itRange x f l && 0 < k
  | .repItItIl f l il => itRange x f l && il.length > 0
  | .substr p _ | .substrP p | .copy _ p => p ≤ n
  | .copyC _ => true
  | .eq _ | .ne _ => true
  | .search fam nd =>
    let pat := needleText w nd
    let strchrBased : Bool := match nd with | .f _ | .s _ _ | .pp _ _ => true | _ => false
    let readable : Bool := match nd with
      | .ppc a _ k => k ≤ a.length
      | .pp a _ => hasNul a
      | _ => true
    pat.length > 0 && readable &&
    (match fam with
     | .find => true
     | .rfind => (match nd with
        | .ppc a _ k => hasNul a && k ≤ (StdString.ofCStr a).length
        | .c _ p => p.getD big == big || p.getD big < n      -- default or explicit `npos`, or a position inside
        | _ => true)
     | .ffo | .ffno => !strchrBased || (!hasNul x && !hasNul pat)
     | .flo | .flno =>
        (!strchrBased || (!hasNul x && !hasNul pat)) &&
        (match nd with
         | .ppc _ p _ => p < n
         | .f p | .s _ p | .pp _ p | .c _ p => p.getD big == big || p.getD big < n))

end CelmaVerif.FixedString
