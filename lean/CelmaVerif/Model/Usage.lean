import CelmaVerif.Base.Res
import CelmaVerif.Model.TextBlock
/-
  Model of the usage listing of celma::prog_args::Handler (property C18).  Core Lean only.

  Modelled, branch by branch:
  * `UsageParams`                         src/celma/prog_args/detail/usage_params.hpp (+ the four standard
                                          arguments that switch its members, usage_params.cpp)
  * `Arg` / `applyMod`                    the part of `TypedArgBase` the listing reads: key, description,
                                          mandatory / hidden / deprecated / replaced-by, print-default, checks,
                                          constraints, and the modifiers with the combinations they reject
  * `keyEq`, `keyMismatch`, `keyStartsWith`, `keyToString`   argument_key.cpp
  * `storageAdd`                          `Storage::addArgument()` (duplicate / mismatching keys are rejected)
  * `stdArgs`                             `Handler::handleStartFlags()` + the end of the constructor: which
                                          standard arguments exist, in which order
  * `doPrint`, `keyStr`, `maxLength`, `printArguments`, `print`   argument_desc.cpp
  * `usage`                               `Handler::usage()` without usage texts, "usage continues" set
  * `findArg`, `getArgDesc`, `helpArgument`   argument_container.cpp, argument_desc.cpp, handler.cpp
  * `SubHandler`, `Tree`                  sub-group handlers: `Handler( Handler& main_ah, int flag_set)` +
                                          `addArgument( key, Handler& subGroup, desc)`; ONE `UsageParams` object
                                          for the whole tree (`mpUsageParams( main_ah.mpUsageParams)`)
  * `Ev`, `evalEvs`, `Tree.usageMain`, `Tree.usageSub`, `Tree.helpArgumentSlash`, `Tree.helpArgumentSub`
                                          the standard arguments of the main handler and of a sub-group handler
                                          on one command line, then the usage / the help of the main or of a
                                          sub-group handler

  Output model: an `std::ostream` that only ever receives complete lines here is the list of its lines
  (each one was ended by `std::endl`); `emit cur ls` is "the open line `cur`, then what
  `TextBlock::format()` wrote (`ls`, first element continuing the open line), then `std::endl`".
  The byte-exact text is `unlines`.

  Not modelled (outside C18 or outside the listing layer): usage texts (`IUsageText`), `Groups::displayUsage`,
  sub-groups below a sub-group (the tree has depth 2), `printProperties` (help-arg-full),
  `setCaption`, value units, the evaluation of the command line that leads to the help arguments
  (shared model A; here: the effect of the standard arguments on `UsageParams` only).
-/
namespace CelmaVerif.Usage

open CelmaVerif.TextBlock (Str Cfg)

/-! ### usage parameters -/

inductive Contents where
  | all | shortOnly | longOnly
deriving DecidableEq, Repr

structure UsageParams where
  contents        : Contents := .all
  printHidden     : Bool := false
  printDeprecated : Bool := false
deriving DecidableEq, Repr

/-- the standard arguments that change the usage parameters when used on the command line -/
inductive Switch where
  | printHidden | printDeprecated | helpShort | helpLong
deriving DecidableEq, Repr

/-! ### keys -/

/-- `ArgumentKey`: `mChar` (`'\0'` = `none`) and `mWord` -/
structure Key where
  short : Option Char
  long  : Str
deriving DecidableEq, Repr

def Key.hasChar (k : Key) : Bool := k.short.isSome
def Key.hasWord (k : Key) : Bool := !k.long.isEmpty

/-- `ArgumentKey::operator ==` -/
def keyEq (a b : Key) : Bool :=
  match a.short, b.short with
  | some x, some y => x == y
  | _, _ =>
    if a.hasWord && b.hasWord then a.long == b.long
    else a.short.isNone && b.short.isNone && a.long.isEmpty && b.long.isEmpty

/-- `ArgumentKey::mismatch` -/
def keyMismatch (a b : Key) : Bool :=
  match a.short, b.short with
  | some x, some y =>
    if a.hasWord && b.hasWord then (x == y) != (a.long == b.long) else false
  | _, _ => false

/-- `a.startsWith( b)`: the long key of `a` begins with the long key of `b` -/
def keyStartsWith (a b : Key) : Bool :=
  a.hasWord && b.hasWord && b.long.isPrefixOf a.long

/-- `operator <<( os, ArgumentKey)` / `format::toString( key)` -/
def keyToString (k : Key) : Str :=
  match k.short with
  | some c => if k.long.length > 0 then '-' :: c :: ",--".toList ++ k.long else ['-', c]
  | none => '-' :: '-' :: k.long

/-! ### arguments -/

structure Arg where
  key          : Key
  desc         : Str
  /-- `mValueMode != ValueMode::none` (a flag / callable does not take a value: `addCheck()` refuses) -/
  takesValue   : Bool
  /-- `TypedArg< bool>`: `setIsMandatory()` is overridden to throw -/
  isFlag       : Bool
  /-- what `defaultValue()` appends; `none`: the type does not override it, the base class throws -/
  defaultText  : Option Str
  mandatory    : Bool := false
  hidden       : Bool := false
  deprecated   : Bool := false
  replacedBy   : Str := []
  printDefault : Bool
  /-- `toString()` of the checks, in the order added, with the names that make a second one "of the same kind" -/
  checks       : List (String × Str) := []
  /-- `toString()` of the constraints -/
  constraints  : List Str := []
  /-- `some k`: a `TypedArgSubGroup` that enters sub-group handler `k`; such an argument is stored in
      `Handler::mSubGroupArgs`, every other one in `Handler::mArguments`; the description list
      (`ArgumentDesc::mArguments`) holds both kinds in definition order -/
  subGroup     : Option Nat := none
deriving Repr

/-- `isReplaced()` -/
def Arg.isReplaced (a : Arg) : Bool := a.deprecated && !a.replacedBy.isEmpty

inductive Mod where
  | printDefault (b : Bool)
  | mandatory
  | hidden
  | deprecated
  | replacedBy (k : Str)
  | check (name : String) (txt : Str)
  | constraint (spec : Str) (txt : Str)
deriving Repr

/-- one modifier call on the object returned by `addArgument()` -/
def applyMod (a : Arg) : Mod → Res Arg
  | .printDefault b => .ok { a with printDefault := b }
  | .mandatory =>
    if a.isFlag then .throw .logic_error            -- TypedArg< bool>::setIsMandatory
    else if a.deprecated then .throw .logic_error   -- deprecated argument cannot be mandatory
    else .ok { a with mandatory := true }
  | .hidden => .ok { a with hidden := true }
  | .deprecated =>
    if a.mandatory then .throw .logic_error else .ok { a with deprecated := true }
  | .replacedBy k =>
    if a.mandatory then .throw .logic_error else .ok { a with deprecated := true, replacedBy := k }
  | .check name txt =>
    if !a.takesValue then .throw .logic_error
    else if a.checks.any (fun c => c.1 == name) then .throw .logic_error   -- two checks of the same kind
    else .ok { a with checks := a.checks ++ [(name, txt)] }
  | .constraint spec txt =>
    if spec.isEmpty then .throw .invalid_argument
    else .ok { a with constraints := a.constraints ++ [txt] }

/-- the modifiers are chained calls: the first one that throws leaves the argument as it is then -/
def applyMods (a : Arg) : List Mod → Arg × Option Exc
  | [] => (a, none)
  | m :: ms =>
    match applyMod a m with
    | .ok a' => applyMods a' ms
    | .throw e => (a, some e)
    | .oob _ => (a, some .other)

/-- `Storage::addArgument()`: may the key be stored next to the existing ones? -/
def storageAccepts (args : List Arg) (k : Key) : Bool :=
  args.all fun a => !keyEq a.key k && !keyMismatch a.key k

/-! ### the handler -/

structure Flags where
  (helpShort helpLong helpArg argHidden argDeprecated usageShort usageLong usageHidden usageDeprecated noAbbr : Bool)
deriving Repr, DecidableEq

def Flags.none : Flags := ⟨false, false, false, false, false, false, false, false, false, false⟩

def mkStd (k : Key) (desc : String) (takesValue isFlag : Bool) (dflt : Option Str) : Arg :=
  { key := k, desc := desc.toList, takesValue := takesValue, isFlag := isFlag, defaultText := dflt,
    printDefault := false }

/-- the standard arguments `handleStartFlags()` and the constructor add, in that order -/
def stdArgs (f : Flags) : List Arg :=
  (if f.helpShort && f.helpLong then [mkStd ⟨some 'h', "help".toList⟩ "Prints the program usage." false false none]
   else if f.helpShort then [mkStd ⟨some 'h', []⟩ "Prints the program usage." false false none]
   else if f.helpLong then [mkStd ⟨none, "help".toList⟩ "Prints the program usage." false false none]
   else [])
  ++ (if f.helpArg then [mkStd ⟨none, "help-arg".toList⟩ "Prints the usage for the given argument." true false none] else [])
  ++ (if f.argDeprecated then
        [mkStd ⟨none, "print-deprecated".toList⟩ "Also print deprecated and replaced arguments in the usage." false true none]
      else [])
  ++ (if f.usageShort then
        [mkStd ⟨none, "help-short".toList⟩ "Only print arguments with their short key in the usage." false false (some [])]
      else [])
  ++ (if f.usageLong then
        [mkStd ⟨none, "help-long".toList⟩ "Only print arguments with their long key in the usage." false false (some [])]
      else [])
  ++ (if f.argHidden then [mkStd ⟨none, "print-hidden".toList⟩ "Also print hidden arguments in the usage." false true none] else [])

structure Handler where
  flags   : Flags
  /-- `ArgumentDesc::mArguments` = `ArgumentContainer::mArguments`, in definition order -/
  args    : List Arg
  lineLen : Nat := 80
  params  : UsageParams
deriving Repr

/-- the constructor: `hfUsageHidden` / `hfUsageDeprecated` preset the parameters -/
def Handler.new (f : Flags) : Handler :=
  { flags := f, args := stdArgs f,
    params := { printHidden := f.usageHidden, printDeprecated := f.usageDeprecated } }

/-- What using a standard argument does to the parameters.  `--print-hidden` and `--print-deprecated` are
    `DEST_VAR( bool)` flags: a `TypedArg< bool>` stores `mValue2Set = !destination` when it is *defined*, i.e.
    the negation of what `hfUsageHidden` / `hfUsageDeprecated` preset - with both the flag and the argument the
    argument switches the display *off* (as coded).  `--help-short` / `--help-long` are
    `DEST_VAR_VALUE( mContents, …)`; using both on one command line is rejected by `TypedArgValue` ("has already
    been set"), a single one is modelled. -/
def Switch.apply (f : Flags) (u : UsageParams) : Switch → UsageParams
  | .printHidden => { u with printHidden := !f.usageHidden }
  | .printDeprecated => { u with printDeprecated := !f.usageDeprecated }
  | .helpShort => { u with contents := .shortOnly }
  | .helpLong => { u with contents := .longOnly }

/-- `Handler::mArguments` (the plain arguments) -/
def plainArgs (args : List Arg) : List Arg := args.filter fun a => a.subGroup.isNone
/-- `Handler::mSubGroupArgs` -/
def subGroupArgs (args : List Arg) : List Arg := args.filter fun a => a.subGroup.isSome
/-- `Handler::addArgument()` followed by the chained modifiers.  A rejected key leaves the handler
    unchanged; a rejected modifier leaves the argument defined with what was applied before.
    The key is checked against BOTH containers of the handler (as repaired in `/repo`:
    `ArgumentContainer::addArgument( …, also_check)` - the container the argument goes into by
    `Storage::addArgument()`, the other one by `checkKeyUnused()`; the unchanged tree checked the own
    container only, so a plain argument and a sub-group argument could have the same key): the key
    must not equal or mismatch the key of any argument defined so far. -/
def Handler.addArgument (h : Handler) (a : Arg) (mods : List Mod) : Handler × Option Exc :=
  if !storageAccepts h.args a.key then (h, some .invalid_argument)
  else
    let r := applyMods a mods
    ({ h with args := h.args ++ [r.1] }, r.2)

/-- `ArgumentDesc::setLineLength()` -/
def Handler.setLineLength (h : Handler) (n : Int) : Res Handler :=
  if n < 60 || n ≥ 240 then .throw .runtime_error else .ok { h with lineLen := n.toNat }

/-! ### the listing (argument_desc.cpp) -/

def MaxNameLength : Nat := 40
def IndentLength : Nat := 3
def indention : Str := List.replicate IndentLength ' '
def captionMandatory : Str := "Mandatory arguments:".toList
def captionOptional : Str := "Optional arguments:".toList

/-- `ArgDesc::doPrint()` -/
def doPrint (u : UsageParams) (printIsMandatory : Bool) (a : Arg) : Bool :=
  (printIsMandatory == a.mandatory)
  && (u.printHidden || !a.hidden)
  && (u.printDeprecated || !a.deprecated)
  && (u.contents == .all
      || (u.contents == .shortOnly && a.key.hasChar)
      || (u.contents == .longOnly && a.key.hasWord))

/-- `ArgDesc::key( contents)` -/
def keyStr (c : Contents) (k : Key) : Str :=
  match c with
  | .all => keyToString k
  | .shortOnly => ['-', k.short.getD '\x00']
  | .longOnly => '-' :: '-' :: k.long

/-- first loop of `print()` -/
def maxLength (u : UsageParams) (args : List Arg) : Nat :=
  args.foldl (fun m a => if !doPrint u true a && !doPrint u false a then m else max m (keyStr u.contents a.key).length) 0

def joinSep (sep : Str) : List Str → Str
  | [] => []
  | [x] => x
  | x :: y :: r => x ++ sep ++ joinSep sep (y :: r)

/-- `descCopy` of `printArguments()`: the description plus the notes -/
def descCopy (a : Arg) : Res Str :=
  let d0 := a.desc
  let d1 : Res Str :=
    if !a.mandatory && a.printDefault then
      match a.defaultText with
      | some t => .ok (d0 ++ "\nDefault value: ".toList ++ t)
      | none => .throw .runtime_error     -- TypedArgBase::defaultValue()
    else .ok d0
  match d1 with
  | .ok d1 =>
    let d2 := if !a.checks.isEmpty then d1 ++ "\nCheck: ".toList ++ joinSep ", ".toList (a.checks.map (·.2)) else d1
    let d3 := if !a.constraints.isEmpty then d2 ++ "\nConstraint: ".toList ++ joinSep ", ".toList a.constraints else d2
    let d4 :=
      if a.deprecated then
        if a.isReplaced then d3 ++ "\n[replaced by '".toList ++ a.replacedBy ++ "']".toList
        else d3 ++ "\n[deprecated]".toList
      else d3
    let d5 := if a.hidden then d4 ++ "\n[hidden]".toList else d4
    .ok d5
  | .throw e => .throw e
  | .oob w => .oob w

/-- open line `cur`, then the lines a text block wrote (the first continues the open line), then `endl` -/
def emit (cur : Str) : List Str → List Str
  | [] => [cur]
  | l :: ls => (cur ++ l) :: ls

/-- `std::setw( n) << std::left << s` -/
def padRight (n : Nat) (s : Str) : Str := s ++ List.replicate (n - s.length) ' '

/-- the lines of one argument -/
def entryLines (u : UsageParams) (lineLen : Nat) (sameLine : Bool) (maxLen : Nat) (a : Arg) : Res (List Str) :=
  match descCopy a with
  | .ok d =>
    if sameLine then
      .ok (emit (indention ++ padRight maxLen (keyStr u.contents a.key) ++ indention)
             (TextBlock.format ⟨2 * IndentLength + maxLen, lineLen, false⟩ d))
    else
      .ok ((indention ++ keyStr u.contents a.key)
             :: emit [] (TextBlock.format ⟨2 * IndentLength, lineLen, true⟩ d))
  | .throw e => .throw e
  | .oob w => .oob w

/-- the caption lines written before the first argument of a pass -/
def captionLines (printIsMandatory : Bool) (printedMandatory : Nat) : List Str :=
  if printIsMandatory then [captionMandatory]
  else (if printedMandatory > 0 then [[]] else []) ++ [captionOptional]

/-- `printArguments()`: one pass over all arguments; `cnt` = `printed[ printIsMandatory]`,
    `pm` = `printed[ true]` -/
def printArguments (u : UsageParams) (lineLen : Nat) (pim : Bool) (pm : Nat) (sameLine : Bool) (maxLen : Nat) :
    List Arg → Nat → Res (List Str × Nat)
  | [], cnt => .ok ([], cnt)
  | a :: as, cnt =>
    if !doPrint u pim a then printArguments u lineLen pim pm sameLine maxLen as cnt
    else
      match entryLines u lineLen sameLine maxLen a with
      | .ok ls =>
        match printArguments u lineLen pim pm sameLine maxLen as (cnt + 1) with
        | .ok (rest, n) => .ok ((if cnt = 0 then captionLines pim pm else []) ++ ls ++ rest, n)
        | .throw e => .throw e
        | .oob w => .oob w
      | .throw e => .throw e
      | .oob w => .oob w

/-- `ArgumentDesc::print()` -/
def print (args : List Arg) (lineLen : Nat) (u : UsageParams) : Res (List Str) :=
  let maxLen := maxLength u args
  let sameLine := decide (maxLen < MaxNameLength)
  match printArguments u lineLen true 0 sameLine maxLen args 0 with
  | .ok (m, nm) =>
    match printArguments u lineLen false nm sameLine maxLen args 0 with
    | .ok (o, _) => .ok (m ++ o)
    | .throw e => .throw e
    | .oob w => .oob w
  | .throw e => .throw e
  | .oob w => .oob w

/-- `Handler::usage()` (no usage texts, not evaluated through groups): `"Usage:" endl description endl` -/
def usage (h : Handler) : Res (List Str) :=
  match print h.args h.lineLen h.params with
  | .ok ls => .ok ("Usage:".toList :: ls ++ [[]])
  | .throw e => .throw e
  | .oob w => .oob w

/-- the help argument after the given standard arguments: what a command line
    `--print-hidden … -h` makes the handler write -/
def usageWith (h : Handler) (sw : List Switch) : Res (List Str) :=
  usage { h with params := sw.foldl (Switch.apply h.flags) h.params }

/-- every line was ended by `std::endl` -/
def unlines : List Str → Str
  | [] => []
  | l :: ls => l ++ '\n' :: unlines ls

/-! ### help for one argument -/

/-- first loop of `ArgumentContainer::findArg()` (as repaired in `/repo`, commit 802725f: an exact match
    always wins, independent of the definition order) -/
def findExact (k : Key) : List Arg → Option Arg
  | [] => none
  | a :: as => if keyEq a.key k then some a else findExact k as

/-- second loop: the long key given is an abbreviation; a second match throws -/
def findAbbrLoop (k : Key) : List Arg → Option Arg → Res (Option Arg)
  | [], part => .ok part
  | a :: as, part =>
    if keyStartsWith a.key k then
      match part with
      | none => findAbbrLoop k as (some a)
      | some _ => .throw .runtime_error
    else findAbbrLoop k as part

/-- `ArgumentContainer::findArg()` -/
def findArg (abbr : Bool) (args : List Arg) (k : Key) : Res (Option Arg) :=
  match findExact k args with
  | some a => .ok (some a)
  | none => if !abbr then .ok none else findAbbrLoop k args none

/-- `ArgumentDesc::getArgDesc()` -/
def getArgDesc : List Arg → Key → Str
  | [], _ => []
  | a :: as, k => if keyEq a.key k then a.desc else getArgDesc as k

/-- the lookup of `Handler::helpArgument()` (as repaired in `/repo`: an argument with exactly this key wins, be
    it a plain or a sub-group argument - `findArg( key, true)` on `mArguments`, then on `mSubGroupArgs`; only
    then the key is tried as abbreviation, `mArguments.findArg( key)` and when that finds nothing
    `mSubGroupArgs.findArg( key)`.  The unchanged tree started with the two full lookups: an abbreviation of
    a plain argument won over the exact key of a sub-group argument) -/
def findArg2 (abbr : Bool) (args : List Arg) (k : Key) : Res (Option Arg) :=
  match findExact k (plainArgs args) with
  | some a => .ok (some a)
  | none =>
    match findExact k (subGroupArgs args) with
    | some a => .ok (some a)
    | none =>
      match findArg abbr (plainArgs args) k with
      | .ok none => findArg abbr (subGroupArgs args) k
      | r => r

/-- `Handler::helpArgument( raw, false)` for a key without `/`: (lines on the output stream, lines on the
    error stream).  The description is looked up with the key of the argument found
    (repaired: the unchanged tree used the key as typed and printed nothing for an abbreviation). -/
def helpArgument (h : Handler) (raw : Str) (k : Key) : Res (List Str × List Str) :=
  match findArg2 (!h.flags.noAbbr) h.args k with
  | .ok (some a) =>
    .ok (("Argument '".toList ++ keyToString k ++ "', usage:".toList)
          :: emit [] (TextBlock.format ⟨3, 80, true⟩ (getArgDesc h.args a.key)), [])
  | .ok none => .ok ([], ["*** ERROR: Argument '".toList ++ raw ++ "' is unknown!".toList])
  | .throw e => .throw e
  | .oob w => .oob w

/-! ### sub-group handlers: a handler tree of depth 2

  `Handler sub( main_ah, flag_set)`; `main_ah.addArgument( "g", sub, desc)`.  The sub-group constructor takes
  `mpUsageParams( main_ah.mpUsageParams)`: the whole tree has ONE `UsageParams` object.  The model keeps it in
  `Tree.main.params`; a `SubHandler` has no parameters of its own, its listing is written with the shared
  value as it is at that moment. -/

/-- the standard arguments of a handler built with the sub-group constructor: `handleStartFlags()` only;
    `hfArgHidden` / `hfUsageHidden` are evaluated by the other constructor only and have no effect here -/
def subStdArgs (f : Flags) : List Arg := stdArgs { f with argHidden := false }

structure SubHandler where
  flags     : Flags
  args      : List Arg
  lineLen   : Nat := 80
  /-- `mValue2Set` of the sub-group handler's own `--print-deprecated` (a `TypedArg< bool>` on the shared
      `mPrintDeprecated`): the negation of the shared setting at the time the handler was constructed -/
  deprValue : Bool
deriving Repr

/-- the sub-group handler as a handler that writes with the display settings `u` (the shared object) -/
def SubHandler.asHandler (s : SubHandler) (u : UsageParams) : Handler :=
  { flags := s.flags, args := s.args, lineLen := s.lineLen, params := u }

structure Tree where
  /-- the main handler; `main.params` is the one `UsageParams` object of the tree -/
  main : Handler
  /-- the handlers constructed with `Handler( main_ah, flags)`, in construction order -/
  subs : List SubHandler := []
deriving Repr

def Tree.new (f : Flags) : Tree := { main := Handler.new f }

/-- `Handler sub( main_ah, flag_set)`: `handleStartFlags()` - `hfUsageDeprecated` switches the SHARED setting
    on, then `hfArgDeprecated` defines `--print-deprecated` with the negation of the setting as it is now -/
def Tree.newSub (t : Tree) (f : Flags) : Tree :=
  let u : UsageParams := { t.main.params with printDeprecated := t.main.params.printDeprecated || f.usageDeprecated }
  { main := { t.main with params := u },
    subs := t.subs ++ [{ flags := f, args := subStdArgs f, deprValue := !u.printDeprecated }] }

def setAt {α : Type} (l : List α) (k : Nat) (x : α) : List α := l.set k x

/-- `sub_k.addArgument( …)` + modifiers -/
def Tree.subAddArgument (t : Tree) (k : Nat) (a : Arg) (mods : List Mod) : Res (Tree × Option Exc) :=
  match t.subs[k]? with
  | none => .oob "sub-group handler"
  | some s =>
    let r := (s.asHandler t.main.params).addArgument a mods
    .ok ({ t with subs := setAt t.subs k { s with args := r.1.args } }, r.2)

/-- `main_ah.addArgument( …)` + modifiers (plain argument, or the sub-group argument when `a.subGroup` is set) -/
def Tree.addArgument (t : Tree) (a : Arg) (mods : List Mod) : Tree × Option Exc :=
  let r := t.main.addArgument a mods
  ({ t with main := r.1 }, r.2)

/-- the argument object of `addArgument( key, subGroup, desc)`: `TypedArgBase( "sub-group", ValueMode::none, false)` -/
def subGroupArg (key : Key) (desc : Str) (k : Nat) : Arg :=
  { key := key, desc := desc, takesValue := false, isFlag := false, defaultText := none, printDefault := false,
    subGroup := some k }

/-- `main_ah.setUsageLineLength( n)`: `mDescription.setLineLength()` (throws outside 60..239), then
    `mSubGroupArgs.setUsageLineLength()` hands the value to every sub-group handler entered by one of the
    sub-group arguments defined so far -/
def Tree.setLineLength (t : Tree) (n : Int) : Res Tree :=
  match t.main.setLineLength n with
  | .ok m =>
    let ks := (subGroupArgs t.main.args).filterMap (·.subGroup)
    .ok { main := m, subs := t.subs.zipIdx.map fun (s, i) => if ks.contains i then { s with lineLen := n.toNat } else s }
  | .throw e => .throw e
  | .oob w => .oob w

/-- `sub_k.setUsageLineLength( n)` (a sub-group handler has no sub-groups here) -/
def Tree.subSetLineLength (t : Tree) (k : Nat) (n : Int) : Res Tree :=
  match t.subs[k]? with
  | none => .oob "sub-group handler"
  | some s =>
    if n < 60 || n ≥ 240 then .throw .runtime_error
    else .ok { t with subs := setAt t.subs k { s with lineLen := n.toNat } }

/-- the standard arguments a sub-group handler can have -/
inductive SubSwitch where
  | printDeprecated | helpShort | helpLong
deriving DecidableEq, Repr

/-- one standard argument on the command line: evaluated by the main handler, or by sub-group handler `k`
    (after its sub-group argument) -/
inductive Ev where
  | main (s : Switch)
  | sub (k : Nat) (s : SubSwitch)
deriving DecidableEq, Repr

/-- `--help-short` / `--help-long` are `DEST_VAR_VALUE( mContents, …)`: `TypedArgValue::assign()` throws
    `std::runtime_error` when the destination no longer holds the value it had at definition time (`all`) -/
def setContents (u : UsageParams) (c : Contents) : Res UsageParams :=
  if u.contents == .all then .ok { u with contents := c } else .throw .runtime_error

/-- what one standard argument does to the shared parameters -/
def Ev.apply (t : Tree) (u : UsageParams) : Ev → Res UsageParams
  | .main .printHidden => .ok { u with printHidden := !t.main.flags.usageHidden }
  | .main .printDeprecated => .ok { u with printDeprecated := !t.main.flags.usageDeprecated }
  | .main .helpShort => setContents u .shortOnly
  | .main .helpLong => setContents u .longOnly
  | .sub k .printDeprecated =>
    match t.subs[k]? with
    | some s => .ok { u with printDeprecated := s.deprValue }
    | none => .oob "sub-group handler"
  | .sub _ .helpShort => setContents u .shortOnly
  | .sub _ .helpLong => setContents u .longOnly

/-- the standard arguments of a command line, in order, on the shared parameters -/
def evalEvs (t : Tree) : List Ev → UsageParams → Res UsageParams
  | [], u => .ok u
  | e :: es, u =>
    match Ev.apply t u e with
    | .ok u' => evalEvs t es u'
    | .throw x => .throw x
    | .oob w => .oob w

/-- the sub-group argument of handler `k` on the command line (`processArg()`: `handleIdentifiedArg()` ->
    `TypedArgBase::assignValue()` throws `std::runtime_error` for a deprecated / replaced argument), then the
    following arguments go to the sub-group handler -/
def Tree.enter (t : Tree) (k : Nat) : Res SubHandler :=
  match t.main.args.find? (fun a => a.subGroup == some k), t.subs[k]? with
  | some a, some s => if a.deprecated then .throw .runtime_error else .ok s
  | _, _ => .oob "sub-group handler"

/-- the standard arguments `evs`, then the help argument of the main handler -/
def Tree.usageMain (t : Tree) (evs : List Ev) : Res (List Str) :=
  match evalEvs t evs t.main.params with
  | .ok u => usage { t.main with params := u }
  | .throw x => .throw x
  | .oob w => .oob w

/-- the standard arguments `evs`, then `-g -h`: the help argument of sub-group handler `k`.  Its
    `ArgumentDesc` reads the shared parameters as they are now. -/
def Tree.usageSub (t : Tree) (k : Nat) (evs : List Ev) : Res (List Str) :=
  match t.enter k with
  | .ok s =>
    match evalEvs t evs t.main.params with
    | .ok u => usage (s.asHandler u)
    | .throw x => .throw x
    | .oob w => .oob w
  | .throw x => .throw x
  | .oob w => .oob w

/-- `-g --help-arg <key>`: `helpArgument()` of sub-group handler `k` -/
def Tree.helpArgumentSub (t : Tree) (k : Nat) (raw : Str) (key : Key) : Res (List Str × List Str) :=
  match t.enter k with
  | .ok s => helpArgument (s.asHandler t.main.params) raw key
  | .throw x => .throw x
  | .oob w => .oob w

/-- `--help-arg <g>/<rest>` on the main handler: `mSubGroupArgs.findArg( g)`, then the sub-group handler's
    `helpArgument( rest)` (the sub-group argument is not "used": no deprecation check);
    `full` = the complete string as typed (for the error text) -/
def Tree.helpArgumentSlash (t : Tree) (full : Str) (g : Key) (rest : Str) (restKey : Key) :
    Res (List Str × List Str) :=
  match findArg (!t.main.flags.noAbbr) (subGroupArgs t.main.args) g with
  | .ok (some a) =>
    match a.subGroup.bind (t.subs[·]?) with
    | some s => helpArgument (s.asHandler t.main.params) rest restKey
    | none => .oob "sub-group argument"
  | .ok none => .ok ([], ["*** ERROR: Sub-group argument '".toList ++ full ++ "' is unknown!".toList])
  | .throw e => .throw e
  | .oob w => .oob w

end CelmaVerif.Usage
