/-
  Model of celma::format::TextBlock (src/library/format/text_block.cpp, src/celma/format/text_block.hpp),
  property C17.  Core Lean only.

  * `tokP p s`        boost::tokenizer< boost::char_separator<char> > with dropped delimiters `p`,
                      no kept delimiters, `drop_empty_tokens` (what `common::Tokenizer( s, c)` builds):
                      the maximal runs of non-delimiter characters, in order.  External code, modelled
                      with its documented behaviour and exercised by the correspondence run.
  * `fmtWords`        the loop of `TextBlock::formatLine()`, branch by branch.  The `std::ostream` is the
                      list of finished lines (everything before the last `std::endl`) followed by the
                      line being written (`cur`); `os << std::endl` closes `cur`.
  * `format`          `TextBlock::format()`.

  Arithmetic: `currLength`, `mLength` and the string lengths are `size_t` in the C++.  The code only ever
  *adds* (`currLength + tiWord.length() + 1 > mLength`, `++currLength`, `currLength += …`), there is no
  subtraction, so nothing can underflow; an overflow would need a text of about 2^64 characters, beyond
  `std::string::max_size()`.  `fmtWordsW` is the same loop with every addition reduced modulo a symbolic
  word size `W`; `Lemmas/TextBlockWrap.lean` proves it equal to `fmtWords` whenever
  `indent + 2 + (length of the paragraph) + 2 < W`.  `indent`/`width` are the non-negative `int`s of the constructor
  (a negative `indent` makes the `std::string( mIndent, ' ')` member throw `std::length_error`; a
  negative `length` converts to a huge `size_t`; both are outside the property's domain and are refused by
  harness and driver).
-/
namespace CelmaVerif.TextBlock

abbrev Str := List Char

/-! ### the tokenizer -/

/-- finished tokens with the pending (front) token pushed in front unless it is empty -/
def push (r : Str × List Str) : List Str :=
  if r.1 = [] then r.2 else r.1 :: r.2

/-- right-to-left scan: (token that starts at the front of the text, tokens after it) -/
def tok (p : Char → Bool) : Str → Str × List Str
  | [] => ([], [])
  | c :: cs =>
    let r := tok p cs
    if p c then ([], push r) else (c :: r.1, r.2)

/-- the non-empty maximal runs of characters that are not delimiters -/
def tokP (p : Char → Bool) (s : Str) : List Str := push (tok p s)

def isNl (c : Char) : Bool := c == '\n'
def isSp (c : Char) : Bool := c == ' '
/-- a word separator of the *property*: blank or newline -/
def isSep (c : Char) : Bool := c == '\n' || c == ' '

/-- the words of a text (specification side: what "word" means in C17) -/
def words (s : Str) : List Str := tokP isSep s

/-- the forced-break token -/
def nn : Str := ['n', 'n']

/-! ### the formatter -/

structure Cfg where
  indent : Nat
  width  : Nat
  first  : Bool
deriving Repr, DecidableEq

/-- `mIndentSpaces` -/
def Cfg.ind (c : Cfg) : Str := List.replicate c.indent ' '

/-- `TextBlock::formatLine()`: `ws` the remaining tokens of the line, `cur` the output line being
    written, `len` = `currLength`, `dash` = `lineStartsWithDash`.  Result: the lines written, the
    last one still open. -/
def fmtWords (c : Cfg) : List Str → Str → Nat → Bool → List Str
  | [], cur, _, _ => [cur]
  | w :: ws, cur, len, dash =>
    if w = nn then
      -- os << std::endl << mIndentSpaces; currLength = indent; if (dash) { os << " "; ++currLength; }
      cur :: fmtWords c ws (c.ind ++ (if dash then [' '] else []))
                           (c.indent + (if dash then 1 else 0)) dash
    else if len + w.length + 1 > c.width then
      -- os << std::endl << mIndentSpaces; if (dash) os << "  "; os << tiWord;
      cur :: fmtWords c ws (c.ind ++ (if dash then [' ', ' '] else []) ++ w)
                           (c.indent + w.length + (if dash then 2 else 0)) dash
    else if len ≠ c.indent then
      -- os << " "; ++currLength; os << tiWord; currLength += tiWord.length();
      fmtWords c ws (cur ++ ' ' :: w) (len + 1 + w.length) dash
    else
      -- first word on the line: else if (tiWord[ 0] == '-') lineStartsWithDash = true;
      fmtWords c ws (cur ++ w) (len + w.length) (dash || w.head? == some '-')

/-- `TextBlock::formatLine( os, line)` entered with `cur` being the open output line -/
def formatLine (c : Cfg) (cur : Str) (line : Str) : List Str :=
  fmtWords c (tokP isSp line) cur c.indent false

/-- the loop of `TextBlock::format()`: `start` is what is on the open line when `formatLine` is
    entered for the next paragraph (`mIndentSpaces`, or nothing for an unindented first line);
    the `std::endl` before every later paragraph closes the last line of the previous one -/
def fmtParas (c : Cfg) : Str → List Str → List Str
  | _, [] => []
  | start, p :: ps => formatLine c start p ++ fmtParas c c.ind ps

/-- `TextBlock::format()`: the output as the list of its lines (`[]`: nothing was written) -/
def format (c : Cfg) (txt : Str) : List Str :=
  fmtParas c (if c.first then c.ind else []) (tokP isNl txt)

/-- the lines joined by the `'\n'` that `std::endl` wrote: the exact characters on the stream -/
def render : List Str → Str
  | [] => []
  | [l] => l
  | l :: l' :: ls => l ++ '\n' :: render (l' :: ls)

/-! ### the same loop over `size_t` with a symbolic word size -/

def fmtWordsW (W : Nat) (c : Cfg) : List Str → Str → Nat → Bool → List Str
  | [], cur, _, _ => [cur]
  | w :: ws, cur, len, dash =>
    if w = nn then
      cur :: fmtWordsW W c ws (c.ind ++ (if dash then [' '] else []))
                           ((c.indent + (if dash then 1 else 0)) % W) dash
    else if (len + w.length + 1) % W > c.width then
      cur :: fmtWordsW W c ws (c.ind ++ (if dash then [' ', ' '] else []) ++ w)
                           ((c.indent + w.length + (if dash then 2 else 0)) % W) dash
    else if len ≠ c.indent then
      fmtWordsW W c ws (cur ++ ' ' :: w) ((len + 1 + w.length) % W) dash
    else
      fmtWordsW W c ws (cur ++ w) ((len + w.length) % W) (dash || w.head? == some '-')

end CelmaVerif.TextBlock
