import CelmaVerif.Base.Res
/-
  Model of the *destination layer* of celma::prog_args for container destinations (property C06):
  `TypedArg<ContainerAdapter<T>>::assign`, `TypedArg<T[N]>::assign`, `TypedArg<std::array<T,N>>::assign`,
  `TypedArg<std::bitset<N>>::assign`, `TypedArg<KeyValueContainerAdapter<std::map<K,V>>>::assign`,
  `TypedArg<std::tuple<int,std::string,int>>::assign` (src/celma/prog_args/detail/typed_arg.hpp), the adapters of
  container_adapter.hpp / key_value_container_adapter.hpp, `common::Tokenizer` (boost::char_separator, empty
  tokens dropped), `boost::lexical_cast<int / size_t / std::string>`, the value checks lower / upper / range /
  minLength / maxLength and the uppercase and lowercase formatters.

  One *use* = one call of `assign(value)` (the handler calls it once for the value after the key and once for
  every further free value of a multi-value argument).  Everything is followed branch by branch; an exception
  leaves the elements stored so far in place (there is no roll-back in the C++), so the per-use functions
  return the state reached *and* what stopped them (`Out`).

  Core Lean only.
-/
namespace CelmaVerif.Containers

/-- why an operation stopped early: a C++ exception, or (model only) an access outside an object -/
inductive Stop where
  | exc (e : Exc)
  | oob (what : String)
  deriving Repr, DecidableEq

/-- state reached, and `none` = returned normally -/
abbrev Out (σ : Type) := σ × Option Stop

def Out.toRes {σ : Type} : Out σ → Res σ
  | (s, none) => .ok s
  | (_, some (.exc e)) => .throw e
  | (_, some (.oob w)) => .oob w

/-! ## `common::Tokenizer( value, sep)`: boost::char_separator, empty tokens dropped -/

/-- puts a character in front of the first field -/
def consHead (c : Char) : List (List Char) → List (List Char)
  | [] => [[c]]
  | w :: ws => (c :: w) :: ws

/-- all fields between separators, empty ones included -/
def splitAll (sep : Char) : List Char → List (List Char)
  | [] => [[]]
  | c :: cs => if c = sep then [] :: splitAll sep cs else consHead c (splitAll sep cs)

def tokens (sep : Char) (s : List Char) : List (List Char) :=
  (splitAll sep s).filter (fun t => decide (t ≠ []))

/-- a list of elements written as one value string -/
def joinSep (sep : Char) : List (List Char) → List Char
  | [] => []
  | e :: es => match es with
    | [] => e
    | _ :: _ => e ++ sep :: joinSep sep es

/-! ## `boost::lexical_cast` -/

def digitVal (c : Char) : Nat := c.toNat - 48

/-- non-empty, decimal digits only (leading zeros allowed), unbounded value -/
def parseNat (s : List Char) : Option Nat :=
  if s = [] then none
  else if s.all Char.isDigit then some (s.foldl (fun n c => 10 * n + digitVal c) 0)
  else none

/-- optional sign -/
def splitSign : List Char → Bool × List Char
  | '-' :: r => (true, r)
  | '+' :: r => (false, r)
  | r => (false, r)

def intMax : Nat := 2147483647

/-- `lexical_cast<int>`: optional sign, digits, range check (`-2147483648 … 2147483647`) -/
def convInt (s : List Char) : Option Int :=
  match parseNat (splitSign s).2 with
  | none => none
  | some n =>
    if (splitSign s).1 then (if n ≤ intMax + 1 then some (-(n : Int)) else none)
    else (if n ≤ intMax then some (n : Int) else none)

def sizeMod : Nat := 18446744073709551616

/-- `lexical_cast<size_t>`: optional sign, digits, value below 2^64; a minus sign negates modulo 2^64 -/
def convSize (s : List Char) : Option Nat :=
  match parseNat (splitSign s).2 with
  | none => none
  | some n =>
    if n < sizeMod then some (if (splitSign s).1 then (sizeMod - n) % sizeMod else n) else none

/-- `lexical_cast<std::string>` -/
def convStr (s : List Char) : Option (List Char) := some s

/-! ## checks (`ICheck::checkValue( text)`) and formats -/

inductive Check where
  | lower (n : Int)          -- `lower<int>`: value >= n, else underflow_error
  | upper (n : Int)          -- `upper<int>`: value <  n, else overflow_error
  | range (lo hi : Int)      -- lo <= value < hi, else out_of_range
  | minlen (n : Nat)         -- underflow_error
  | maxlen (n : Nat)         -- overflow_error
  deriving Repr, DecidableEq

/-- the numeric checks convert the text themselves (`lexical_cast<int>` → bad_lexical_cast : std::bad_cast) -/
def Check.run : Check → List Char → Option Exc
  | .lower n, s => match convInt s with
    | none => some .bad_cast
    | some v => if v < n then some .underflow_error else none
  | .upper n, s => match convInt s with
    | none => some .bad_cast
    | some v => if v ≥ n then some .overflow_error else none
  | .range lo hi, s => match convInt s with
    | none => some .bad_cast
    | some v => if v < lo then some .out_of_range else if v ≥ hi then some .out_of_range else none
  | .minlen n, s => if s.length < n then some .underflow_error else none
  | .maxlen n, s => if s.length > n then some .overflow_error else none

/-- `TypedArgBase::check`: all checks in the order they were added, the first failure throws -/
def runChecks : List Check → List Char → Option Exc
  | [], _ => none
  | c :: cs, s => match c.run s with
    | some e => some e
    | none => runChecks cs s

inductive Fmt where
  | none | upper | lower
  deriving Repr, DecidableEq

def applyFmt : Fmt → List Char → List Char
  | .none, s => s
  | .upper, s => s.map Char.toUpper
  | .lower, s => s.map Char.toLower

/-- `TypedArgBase::format( val, idx)` for `idx ≥ 0`: the formatters stored with `addFormatPos( idx, …)`, in the
    order of the calls (`mFormats[ idx + 1]`); a position for which nothing is stored — in particular one
    beyond the last slot of `mFormats` — leaves the text unchanged.  The list is the sequence of
    `addFormatPos` calls. -/
def applyPos : List (Nat × Fmt) → Nat → List Char → List Char
  | [], _, s => s
  | (i, f) :: r, p, s => applyPos r p (if i = p then applyFmt f s else s)

/-! ## element types -/

/-- what the model needs of an element type: `lexical_cast<T>` and `operator<=` -/
structure Elem (α : Type) where
  conv : List Char → Option α
  le : α → α → Bool

def lexLe : List Char → List Char → Bool
  | [], _ => true
  | _ :: _, [] => false
  | a :: as, b :: bs => if a.toNat < b.toNat then true else if b.toNat < a.toNat then false else lexLe as bs

def intElem : Elem Int := { conv := convInt, le := fun a b => decide (a ≤ b) }
def strElem : Elem (List Char) := { conv := convStr, le := lexLe }

/-! ## sorting, de-duplication -/

def insertSorted {α : Type} (le : α → α → Bool) (v : α) : List α → List α
  | [] => [v]
  | x :: xs => if le v x then v :: x :: xs else x :: insertSorted le v xs

/-- the result of `std::sort` / `list::sort` on a total order whose equivalent elements are equal -/
def isort {α : Type} (le : α → α → Bool) : List α → List α
  | [] => []
  | x :: xs => insertSorted le x (isort le xs)

/-- the values of `vs` that are neither in `seen` nor earlier in `vs` (first occurrences kept) -/
def dedupInto {α : Type} [DecidableEq α] (seen : List α) : List α → List α
  | [] => []
  | v :: vs => if v ∈ seen then dedupInto seen vs else v :: dedupInto (v :: seen) vs

/-! ## sequence / set / adapter destinations: `TypedArg<ContainerAdapter<T>>` -/

inductive SeqKind where
  | vec | deque | list | fwdlist | set | multiset | stack | queue | prioq
  deriving Repr, DecidableEq

/-- `ContainerAdapter<…>::HasIterators` -/
def SeqKind.hasIterators : SeqKind → Bool
  | .stack | .queue | .prioq => false
  | _ => true

/-- `!IsSorted && IsSortable` -/
def SeqKind.sortable : SeqKind → Bool
  | .vec | .deque | .list | .fwdlist => true
  | _ => false

/-- kept in ascending order by the container itself.  The content of a priority queue is kept ascending in
    the model and *observed* (popped) in reverse, see `observe`. -/
def SeqKind.ordered : SeqKind → Bool
  | .set | .multiset | .prioq => true
  | _ => false

def SeqKind.isSet : SeqKind → Bool
  | .set => true
  | _ => false

/-- `push_front` -/
def SeqKind.prepend : SeqKind → Bool
  | .fwdlist => true
  | _ => false

/-- `ContainerAdapter<…>::AllowsPositionFormat`: `true` for `std::vector` only ("the values stored in the
    container keep their order") -/
def SeqKind.allowsPos : SeqKind → Bool
  | .vec => true
  | _ => false

/-- the order in which the content is seen from outside: iteration order; a stack (kept in push order in the
    model) and a priority queue (kept ascending) are popped from the other end -/
def observe {α : Type} (k : SeqKind) (c : List α) : List α :=
  match k with
  | .stack | .prioq => c.reverse
  | _ => c

structure Opts where
  sep : Char := ','
  clear : Bool := false
  sort : Bool := false
  unique : Bool := false
  dupErr : Bool := false
  checks : List Check := []
  fmt : Fmt := .none
  fmtPos : List (Nat × Fmt) := []     -- the calls `addFormatPos( idx, uppercase()/lowercase())`, in order
  deriving Repr

/-- `setSortData()` / `setUniqueData()` at definition time: the base class throws `std::invalid_argument`
    for the kinds that cannot do it; `addFormatPos` on an adapter with `AllowsPositionFormat == false` ends in
    `TypedArgBase::addFormatPos`, which throws `std::logic_error` (the options are applied in this order) -/
def configure (k : SeqKind) (o : Opts) : Res Unit :=
  if o.sort && !k.sortable then .throw .invalid_argument
  else if o.unique && !k.hasIterators then .throw .invalid_argument
  else if !o.fmtPos.isEmpty && !k.allowsPos then .throw .logic_error
  else .ok ()

structure SeqState (α : Type) where
  content : List α
  clearPending : Bool
  deriving Repr, DecidableEq

def SeqState.start {α : Type} (init : List α) (o : Opts) : SeqState α := ⟨init, o.clear⟩

section seq
variable {α : Type} [DecidableEq α] (E : Elem α) (k : SeqKind) (o : Opts)

/-- `ContainerAdapter::addValue` -/
def addValue (v : α) (c : List α) : List α :=
  match k with
  | .vec | .deque | .list | .queue | .stack => c ++ [v]
  | .fwdlist => v :: c
  | .set => if v ∈ c then c else insertSorted E.le v c
  | .multiset | .prioq => insertSorted E.le v c

/-- `ContainerAdapter::contains` (throws `std::logic_error` for the adapters without iterators) -/
def containsValue (v : α) (c : List α) : Res Bool :=
  if k.hasIterators then .ok (decide (v ∈ c)) else .throw .logic_error

/-- `ContainerAdapter::sort` -/
def sortContent (c : List α) : Res (List α) :=
  if k.sortable then .ok (isort E.le c) else .throw .logic_error

/-- what happens to one converted value: duplicate handling, then `addValue` -/
def storeValue (c : List α) (v : α) : Res (List α) :=
  if o.unique then
    match containsValue k v c with
    | .ok true => if o.dupErr then .throw .runtime_error else .ok c
    | .ok false => .ok (addValue E k v c)
    | .throw e => .throw e
    | .oob w => .oob w
  else .ok (addValue E k v c)

/-- `format( list_val); if (AllowsPositionFormat) format( list_val, mDestVar.size());` — the general format
    first, then the formatters of the position `p` = number of elements in the destination right now -/
def fmtSeq (p : Nat) (t : List Char) : List Char :=
  if k.allowsPos then applyPos o.fmtPos p (applyFmt o.fmt t) else applyFmt o.fmt t

/-- one token of the list: `check` (on the text as given), `format`, `lexical_cast`, duplicate handling,
    `addValue` -/
def elemStep (c : List α) (t : List Char) : Res (List α) :=
  match runChecks o.checks t with
  | some e => .throw e
  | none =>
    match E.conv (fmtSeq k o c.length t) with
    | none => .throw .bad_cast
    | some v => storeValue E k o c v

/-- the `for` loop over the tokens; stops at the first exception, what was stored stays -/
def elems (c : List α) : List (List Char) → Out (List α)
  | [] => (c, none)
  | t :: ts =>
    match elemStep E k o c t with
    | .ok c' => elems c' ts
    | .throw e => (c, some (.exc e))
    | .oob w => (c, some (.oob w))

/-- `TypedArg<ContainerAdapter<T>>::assign( value)` -/
def assignP (s : SeqState α) (value : List Char) : Out (SeqState α) :=
  let c0 := if s.clearPending then [] else s.content
  match elems E k o c0 (tokens o.sep value) with
  | (c1, some st) => (⟨c1, false⟩, some st)
  | (c1, none) =>
    if o.sort then
      match sortContent E k c1 with
      | .ok c2 => (⟨c2, false⟩, none)
      | .throw e => (⟨c1, false⟩, some (.exc e))
      | .oob w => (⟨c1, false⟩, some (.oob w))
    else (⟨c1, false⟩, none)

def assignUse (s : SeqState α) (value : List Char) : Res (SeqState α) := (assignP E k o s value).toRes

/-- all uses of one evaluation, in order; the first exception ends the evaluation -/
def runP (s : SeqState α) : List (List Char) → Out (SeqState α)
  | [] => (s, none)
  | u :: us =>
    match assignP E k o s u with
    | (s', none) => runP s' us
    | (s', some st) => (s', some st)

def run (s : SeqState α) (uses : List (List Char)) : Res (SeqState α) := (runP E k o s uses).toRes

/-- The content after any non-empty sequence of uses, written without reference to the uses:
    previous content (or nothing if clear-before-assign), then the values `vs` in order — those already present
    or given before dropped if `unique` (always for a set) —, appended (or prepended one by one for a forward
    list), sorted ascending if `sort` is on or the container keeps itself sorted. -/
def finalSpec (init : List α) (vs : List α) : List α :=
  let base := if o.clear then [] else init
  let keep := if o.unique || k.isSet then dedupInto base vs else vs
  if o.sort || k.ordered then isort E.le (base ++ keep)
  else if k.prepend then keep.reverse ++ base
  else base ++ keep

end seq

/-! ## fixed-size arrays: `TypedArg<T[N]>` and `TypedArg<std::array<T,N>>` (identical code) -/

structure ArrState (α : Type) where
  slots : List α         -- all N slots of the array
  idx : Nat              -- `mIndex`
  deriving Repr, DecidableEq

section arr
variable {α : Type} [DecidableEq α] (E : Elem α)

/-- checked store `mDestVar[ mIndex] = v` -/
def ArrState.store (s : ArrState α) (v : α) : Res (ArrState α) :=
  if s.idx < s.slots.length then .ok ⟨s.slots.set s.idx v, s.idx + 1⟩ else .oob "array store"

/-- `mIndex == N` is tested before anything else is done with the token.
    `uniqueWhole = true` is the code before the repair: `common::contains( mDestVar, value)` searched all N
    slots, also those not filled yet.  Generic in the element type (`lexical_cast<T>`, `operator<`), like the
    C++ template.  Formats: `format( list_val); format( list_val, mIndex);` — general first, then the
    formatters of the slot the value is about to be stored in. -/
def arrStep (o : Opts) (uniqueWhole : Bool) (s : ArrState α) (t : List Char) : Res (ArrState α) :=
  if s.idx = s.slots.length then .throw .runtime_error
  else match runChecks o.checks t with
    | some e => .throw e
    | none =>
      match E.conv (applyPos o.fmtPos s.idx (applyFmt o.fmt t)) with
      | none => .throw .bad_cast
      | some v =>
        if o.unique && decide (v ∈ (if uniqueWhole then s.slots else s.slots.take s.idx)) then
          (if o.dupErr then .throw .runtime_error else .ok s)
        else s.store v

def arrElems (o : Opts) (w : Bool) (s : ArrState α) : List (List Char) → Out (ArrState α)
  | [] => (s, none)
  | t :: ts =>
    match arrStep E o w s t with
    | .ok s' => arrElems o w s' ts
    | .throw e => (s, some (.exc e))
    | .oob x => (s, some (.oob x))

/-- `std::sort( mDestVar, mDestVar + mIndex)` -/
def ArrState.sortPrefix (s : ArrState α) : ArrState α :=
  ⟨isort E.le (s.slots.take s.idx) ++ s.slots.drop s.idx, s.idx⟩

def arrAssignP (o : Opts) (w : Bool) (s : ArrState α) (value : List Char) : Out (ArrState α) :=
  match arrElems E o w s (tokens o.sep value) with
  | (s1, some st) => (s1, some st)
  | (s1, none) => (if o.sort then s1.sortPrefix E else s1, none)

def arrRunP (o : Opts) (w : Bool) (s : ArrState α) : List (List Char) → Out (ArrState α)
  | [] => (s, none)
  | u :: us =>
    match arrAssignP E o w s u with
    | (s', none) => arrRunP o w s' us
    | (s', some st) => (s', some st)

/-- what the array holds after the uses: the kept values (sorted if `sort`) in the first slots, the rest of
    the array untouched -/
def arrFinalSpec (o : Opts) (init : List α) (vs : List α) : ArrState α :=
  let keep := if o.unique then dedupInto [] vs else vs
  ⟨(if o.sort then isort E.le keep else keep) ++ init.drop keep.length, keep.length⟩

end arr

/-- arrays of `n` slots have no clear-before-assign (`setClearBeforeAssign` is the throwing base-class
    version); `addFormatPos( idx, …)` with `idx >= N` throws `std::range_error` -/
def arrConfigure (n : Nat) (o : Opts) : Res Unit :=
  if o.clear then .throw .invalid_argument
  else if o.fmtPos.any (fun q => decide (q.1 ≥ n)) then .throw .range_error else .ok ()

/-! ## `TypedArg<std::bitset<N>>` -/

structure BitState where
  bits : List Bool
  clearPending : Bool
  deriving Repr

def bitStep (o : Opts) (b : List Bool) (t : List Char) : Res (List Bool) :=
  match runChecks o.checks t with
  | some e => .throw e
  | none =>
    match convSize (applyFmt o.fmt t) with
    | none => .throw .bad_cast
    | some pos =>
      if pos ≥ b.length then .throw .runtime_error
      else if pos < b.length then .ok (b.set pos true) else .oob "bitset"

def bitElems (o : Opts) (b : List Bool) : List (List Char) → Out (List Bool)
  | [] => (b, none)
  | t :: ts =>
    match bitStep o b t with
    | .ok b' => bitElems o b' ts
    | .throw e => (b, some (.exc e))
    | .oob x => (b, some (.oob x))

def bitAssignP (o : Opts) (s : BitState) (value : List Char) : Out BitState :=
  let b0 := if s.clearPending then s.bits.map (fun _ => false) else s.bits
  match bitElems o b0 (tokens o.sep value) with
  | (b1, st) => (⟨b1, false⟩, st)

def bitRunP (o : Opts) (s : BitState) : List (List Char) → Out BitState
  | [] => (s, none)
  | u :: us =>
    match bitAssignP o s u with
    | (s', none) => bitRunP o s' us
    | (s', some st) => (s', some st)

/-- a bitset does not override `addFormatPos`: the base class throws `std::logic_error` -/
def bitConfigure (o : Opts) : Res Unit :=
  if o.sort || o.unique then .throw .invalid_argument
  else if !o.fmtPos.isEmpty then .throw .logic_error else .ok ()

/-- bit `i` is set iff it was set before (and not cleared) or `i` is among the positions given -/
def bitFinalSpec (o : Opts) (init : List Bool) (ps : List Nat) : List Bool :=
  (List.range init.length).map fun i => ((!o.clear) && init.getD i false) || decide (i ∈ ps)

/-! ## `TypedArg<KeyValueContainerAdapter<std::map<int,std::string>>>` -/

structure MapOpts where
  sep : Char := ';'
  pair : List Char := [',']      -- 1 character, or 3: separator, opening, closing
  clear : Bool := false
  unique : Bool := false
  dupErr : Bool := false
  checks : List Check := []
  deriving Repr

abbrev Pair := Int × List Char

/-- `common::split2`: at the first separator; no separator → two empty strings -/
def split2 (sep : Char) (s : List Char) : List Char × List Char :=
  if s.contains sep then (s.takeWhile (fun c => c != sep), (s.dropWhile (fun c => c != sep)).drop 1)
  else ([], [])

/-- `std::map::insert`: ascending by key, an existing key keeps its value -/
def mapInsert (p : Pair) : List Pair → List Pair
  | [] => [p]
  | q :: qs => if p.1 < q.1 then p :: q :: qs else if p.1 = q.1 then q :: qs else q :: mapInsert p qs

/-- strips the brackets of a three-character pair format -/
def unbracket (pair : List Char) (t : List Char) : Res (List Char) :=
  match pair with
  | [_, open_, close] =>
    if t.head? = some open_ && t.getLast? = some close then .ok ((t.drop 1).take (t.length - 2))
    else .throw .runtime_error
  | _ => .ok t

def mapStep (o : MapOpts) (c : List Pair) (t : List Char) : Res (List Pair) :=
  match runChecks o.checks t with
  | some e => .throw e
  | none =>
    match unbracket o.pair t with
    | .throw e => .throw e
    | .oob w => .oob w
    | .ok body =>
      let kv := split2 (o.pair.headD ',') body
      if kv.1 = [] || kv.2 = [] then .throw .runtime_error
      else match convInt kv.1 with
        | none => .throw .bad_cast
        | some key =>
          if o.unique && c.any (fun q => q.1 = key) then
            (if o.dupErr then .throw .runtime_error else .ok c)
          else .ok (mapInsert (key, kv.2) c)

def mapElems (o : MapOpts) (c : List Pair) : List (List Char) → Out (List Pair)
  | [] => (c, none)
  | t :: ts =>
    match mapStep o c t with
    | .ok c' => mapElems o c' ts
    | .throw e => (c, some (.exc e))
    | .oob x => (c, some (.oob x))

structure MapState where
  content : List Pair
  clearPending : Bool
  deriving Repr

def mapAssignP (o : MapOpts) (s : MapState) (value : List Char) : Out MapState :=
  let c0 := if s.clearPending then [] else s.content
  match mapElems o c0 (tokens o.sep value) with
  | (c1, st) => (⟨c1, false⟩, st)

def mapRunP (o : MapOpts) (s : MapState) : List (List Char) → Out MapState
  | [] => (s, none)
  | u :: us =>
    match mapAssignP o s u with
    | (s', none) => mapRunP o s' us
    | (s', some st) => (s', some st)

/-- `setPairFormat` then `setListSep`, as the harness calls them -/
def mapConfigure (pairGiven : Option (List Char)) (sepGiven : Option Char) (sort : Bool) : Res (List Char × Char) :=
  let pair0 : List Char := [',']
  let sep0 : Char := ';'
  match (match pairGiven with
    | none => Res.ok pair0
    | some p => if p.length ≠ 1 ∧ p.length ≠ 3 then .throw .invalid_argument
                else if p.contains sep0 then .throw .invalid_argument else .ok p) with
  | .throw e => .throw e
  | .oob w => .oob w
  | .ok pair =>
    match (match sepGiven with
      | none => Res.ok sep0
      | some s => if pair.contains s then .throw .invalid_argument else .ok s) with
    | .throw e => .throw e
    | .oob w => .oob w
    | .ok sep => if sort then .throw .invalid_argument else .ok (pair, sep)

/-- the pair a token stands for (when it is well-formed) -/
def mapPairOf (o : MapOpts) (t : List Char) : Option Pair :=
  match unbracket o.pair t with
  | .ok body =>
    let kv := split2 (o.pair.headD ',') body
    if kv.1 = [] || kv.2 = [] then none else (convInt kv.1).map fun key => (key, kv.2)
  | _ => none

/-- previous content (or nothing), then every pair inserted in order; a key that is already there keeps its value -/
def mapFinalSpec (o : MapOpts) (init : List Pair) (ps : List Pair) : List Pair :=
  ps.foldl (fun c p => mapInsert p c) (if o.clear then [] else init)

/-! ## `TypedArg<std::tuple<int,std::string,int>>` with its `CardinalityExact( 3)` -/

structure TupState where
  a : Int
  s : List Char
  b : Int
  numSet : Nat      -- `mNumValuesSet`
  card : Nat        -- `CardinalityExact::mNumValues`
  deriving Repr, DecidableEq

def tupLen : Nat := 3

/-- `CardinalityExact::gotValue` -/
def TupState.gotValue (s : TupState) : Res TupState :=
  if s.card + 1 > tupLen then .throw .runtime_error else .ok { s with card := s.card + 1 }

/-- `tuple_at_index( mNumValuesSet, …)` with `lexical_cast` to the type of that position (`t` is the text
    after formatting) -/
def TupState.put (s : TupState) (t : List Char) : Res TupState :=
  match s.numSet with
  | 0 => match convInt t with
    | some v => .ok { s with a := v, numSet := 1 }
    | none => .throw .bad_cast
  | 1 => .ok { s with s := t, numSet := 2 }
  | 2 => match convInt t with
    | some v => .ok { s with b := v, numSet := 3 }
    | none => .throw .bad_cast
  | _ => .throw .out_of_range

/-- loop body for the token number `i` of this use: cardinality, `check`, then
    `format( list_val, mNumValuesSet)` — only the formatters of the tuple position that is filled next (a tuple
    has no general format), *not* of the token's index `i` in this list —, then the store -/
def tupStep (o : Opts) (s : TupState) (i : Nat) (t : List Char) : Res TupState :=
  match (if i > 0 then s.gotValue else .ok s) with
  | .throw e => .throw e
  | .oob w => .oob w
  | .ok s1 =>
    match runChecks o.checks t with
    | some e => .throw e
    | none => s1.put (applyPos o.fmtPos s1.numSet t)

def tupElems (o : Opts) (s : TupState) (i : Nat) : List (List Char) → Out TupState
  | [] => (s, none)
  | t :: ts =>
    match tupStep o s i t with
    | .ok s' => tupElems o s' (i + 1) ts
    | .throw e => (s, some (.exc e))
    | .oob x => (s, some (.oob x))

/-- `TypedArgBase::assignValue`: `gotValue()` once per use, then `assign( value)` -/
def tupAssignP (o : Opts) (s : TupState) (value : List Char) : Out TupState :=
  match s.gotValue with
  | .throw e => (s, some (.exc e))
  | .oob w => (s, some (.oob w))
  | .ok s1 => tupElems o s1 0 (tokens o.sep value)

def tupRunP (o : Opts) (s : TupState) : List (List Char) → Out TupState
  | [] => (s, none)
  | u :: us =>
    match tupAssignP o s u with
    | (s', none) => tupRunP o s' us
    | (s', some st) => (s', some st)

/-- `CardinalityExact::check` at the end of the evaluation -/
def TupState.finish (s : TupState) : Out TupState :=
  if s.card > 0 ∧ s.card ≠ tupLen then (s, some (.exc .runtime_error)) else (s, none)

/-- `addFormat` on a tuple throws `std::logic_error`; `addFormatPos( idx, …)` with `idx >= tuple length`
    throws `std::range_error` -/
def tupConfigure (o : Opts) : Res Unit :=
  if o.clear || o.sort || o.unique then .throw .invalid_argument
  else if o.fmt ≠ .none then .throw .logic_error
  else if o.fmtPos.any (fun q => decide (q.1 ≥ tupLen)) then .throw .range_error else .ok ()

end CelmaVerif.Containers
