/-
  Model of the log message formatting of Celma (property C16), core Lean only.

  Follows, branch by branch,
    src/library/log/formatting/creator.cpp   (Creator: the builder behind the stream syntax)
    src/library/log/formatting/format.cpp    (Format::format / formatDateTime / append)
    src/library/log/detail/log_msg.cpp       (LogMsg constructor: directory part of the file name removed)
    src/library/log/detail/log_attributes_container.cpp, src/library/log/log_attributes.cpp
    src/library/log/detail/log_scoped_attribute.cpp, Logging::add/get/removeAttribute/removeAttributeEntry
    src/library/log/detail/stream_log.cpp    (StreamLog::addAttribute: the same lookup)

  Texts are byte lists (`std::string`; `setw` counts bytes).  `strftime` is a parameter:
  nothing is assumed about it.
-/
namespace CelmaVerif.LogFormat

abbrev Text := List Nat

/-- ASCII literal as bytes -/
def bytes (s : String) : Text := s.toList.map Char.toNat

/-! ### Definition / Creator (creator.cpp) -/

/-- `Definition::FieldTypes`, in declaration order -/
inductive FieldType where
  | constant | date | time | time_ms | time_us | dateTime | pid | threadId | lineNbr
  | functionName | fileName | msgLevel | msgClass | errorNbr | text | attribute
  deriving DecidableEq, Repr, Inhabited

/-- `Definition::Field` -/
structure Field where
  typ : FieldType
  const : Text        -- mConstant: constant text, attribute name, or date/time format string
  width : Int         -- mFixedWidth (C++ `int`; only `> 0` is ever tested)
  left : Bool         -- mAlignLeft
  deriving DecidableEq, Repr, Inhabited

/-- `Creator` together with the `Definition` it writes into (`fields` = `mDefs.mFields`). -/
structure Creator where
  fields : List Field
  autoSep : Text := []      -- mAutoSep, empty = feature off
  fmt : Text := []          -- mFormatString
  width : Int := 0          -- mFixedWidth
  left : Bool := false      -- mAlignLeft
  deriving DecidableEq, Repr

namespace Creator

/-- `Creator( dest_def, auto_sep)`; `none` = `nullptr` -/
def new (fields : List Field) (sep : Option Text) : Creator :=
  { fields := fields, autoSep := match sep with | some s => s | none => [] }

/-- `setAutoSep( sep)` (also reached through the `separator` manipulator) -/
def setAutoSep (c : Creator) (sep : Option Text) : Creator :=
  match sep with
  | some s => { c with autoSep := s }
  | none => { c with autoSep := [] }

def setFixedWidth (c : Creator) (w : Int) : Creator := { c with width := w }
def alignLeft (c : Creator) : Creator := { c with left := true }
def formatString (c : Creator) (f : Text) : Creator := { c with fmt := f }

/-- the separator field pushed by `addField` -/
def sepField (s : Text) : Field := ⟨.constant, s, 0, false⟩

/-- `addField( field)`: separator first when one is set and the definition is not empty, then the
    field; the three pending options are reset. -/
def addField (c : Creator) (f : Field) : Creator :=
  let fs := if c.autoSep ≠ [] ∧ c.fields ≠ [] then c.fields ++ [sepField c.autoSep] else c.fields
  { c with fields := fs ++ [f], fmt := [], width := 0, left := false }

/-- `field( field_type)`: the pending format string is stored in `mConstant` whatever the type -/
def field (c : Creator) (t : FieldType) : Creator := c.addField ⟨t, c.fmt, c.width, c.left⟩

def addConstantText (c : Creator) (s : Text) : Creator := c.addField ⟨.constant, s, c.width, c.left⟩

/-- `attribute( attr_name)` (the name is a Lean keyword) -/
def addAttribute (c : Creator) (n : Text) : Creator := c.addField ⟨.attribute, n, c.width, c.left⟩

end Creator

/-- one `<<` of the stream syntax -/
inductive Tok where
  | width (w : Int)            -- `<< 10`
  | left                       -- `<< left`
  | fmt (s : Text)             -- `<< formatString( "...")`
  | sep (s : Option Text)      -- `<< separator( "..."/nullptr)`
  | field (t : FieldType)      -- `<< date`, `<< level`, ... (or `field( type)` directly)
  | const (s : Text)           -- `<< "text"`
  | attr (n : Text)            -- `<< attribute( "name")`
  deriving DecidableEq, Repr

def Creator.step (c : Creator) : Tok → Creator
  | .width w => c.setFixedWidth w
  | .left => c.alignLeft
  | .fmt s => c.formatString s
  | .sep s => c.setAutoSep s
  | .field t => c.field t
  | .const s => c.addConstantText s
  | .attr n => c.addAttribute n

/-- a whole stream expression -/
def Creator.run (c : Creator) (ts : List Tok) : Creator := ts.foldl Creator.step c

/-! ### Attributes -/

/-- `LogAttributesContainer::mAttributes`, in insertion order -/
abbrev Attrs := List (Text × Text)

/-- `addAttribute( name, value)` -/
def Attrs.add (c : Attrs) (n v : Text) : Attrs := c ++ [(n, v)]

/-- `getAttribute( name, value&)` of the container: newest entry with that name -/
def Attrs.find (c : Attrs) (n : Text) : Option Text :=
  match c.reverse.find? (fun p => p.1 = n) with
  | some p => some p.2
  | none => none

/-- `getAttribute( name)`: the value, an empty string when not found -/
def Attrs.get (c : Attrs) (n : Text) : Text :=
  match c.find n with
  | some v => v
  | none => []

/-- `removeAttribute( name)`: erases the entry with the greatest index that has this name -/
def Attrs.remove (c : Attrs) (n : Text) : Attrs :=
  (c.reverse.eraseP (fun p => p.1 = n)).reverse

/-- `LogAttributes::getAttribute( name, value&)`: a chain of containers, the object itself first,
    then `mpOuter` -/
def chainFind : List Attrs → Text → Option Text
  | [], _ => none
  | c :: outer, n =>
    match c.find n with
    | some v => some v
    | none => chainFind outer n

/-! ### The message (log_msg.hpp / log_msg.cpp) -/

/-- `remove_to_if_last_incl( str, '/')` as called by the `LogMsg` constructor -/
def baseName (p : Text) : Text :=
  if p = [] then p
  else if p.contains 47 then (p.reverse.takeWhile (· ≠ 47)).reverse   -- erase( 0, find_last_of('/') + 1)
  else p

structure Msg where
  level : Nat := 0        -- LogLevel as its integer value
  cls : Nat := 0          -- LogClass as its integer value
  errNbr : Int := 0
  line : Int := 0
  file : Text := []       -- mFileName (already without directory part)
  func : Text := []       -- mFunctionName
  pid : Int := 0
  tid : Nat := 0
  time : Int := 0         -- getTimestamp(): seconds
  usec : Nat := 0         -- microseconds within the second
  text : Text := []
  attrs : List Attrs := []  -- the LogAttributes chain given to the message (`[]` = none)
  deriving Repr

/-- `detail::logLevel2text` -/
def levelText : Nat → Text
  | 1 => bytes "Fatal Error"
  | 2 => bytes "Error"
  | 3 => bytes "Warning"
  | 4 => bytes "Info"
  | 5 => bytes "Debug"
  | 6 => bytes "Full Debug"
  | _ => bytes "undefined"

/-- `detail::logClass2text` -/
def classText : Nat → Text
  | 1 => bytes "SysCall"
  | 2 => bytes "Data"
  | 3 => bytes "Communication"
  | 4 => bytes "Application"
  | 5 => bytes "Accounting"
  | 6 => bytes "Operator Action"
  | _ => bytes "undefined"

def decNat (n : Nat) : Text := bytes (Nat.repr n)

/-- `std::to_string( int)` -/
def decInt (i : Int) : Text :=
  if i < 0 then 45 :: decNat (-i).toNat else decNat i.toNat

/-- `oss << std::setw( k) << std::setfill( '0') << n` on a fresh stream -/
def zeroPad (k : Nat) (n : Nat) : Text :=
  List.replicate (k - (decNat n).length) 48 ++ decNat n

/-- `oss << "0x" << std::hex << n` -/
def hexText (n : Nat) : Text := bytes "0x" ++ (Nat.toDigits 16 n).map Char.toNat

/-! ### Format (format.cpp) -/

/-- what a field shows: environment of one `format()` call -/
structure Env where
  strftime : Text → Int → Text     -- parameter: format string → timestamp → text
  glob : Attrs                     -- `Logging::instance().mAttributes`

/-- the attribute case of `Format::format` (and `StreamLog::addAttribute`): the message's own
    attributes, then the global ones -/
def attrValue (e : Env) (m : Msg) (n : Text) : Text :=
  match chainFind m.attrs n with
  | some v => v
  | none => e.glob.get n

/-- `formatDateTime`: the custom format string if the field has one, the default otherwise -/
def dateText (e : Env) (f : Field) (dflt : Text) (t : Int) : Text :=
  e.strftime (if f.const = [] then dflt else f.const) t

/-- the string handed to `append` by each `case` of the switch in `Format::format` -/
def fieldText (e : Env) (m : Msg) (f : Field) : Text :=
  match f.typ with
  | .constant => f.const
  | .date => dateText e f (bytes "%F") m.time
  | .time => dateText e f (bytes "%T") m.time
  | .dateTime => dateText e f (bytes "%F %T") m.time
  | .time_ms => zeroPad 3 (m.usec / 1000 % 1000)
  | .time_us => zeroPad 6 (m.usec % 1000000)
  | .pid => decInt m.pid
  | .threadId => hexText m.tid
  | .lineNbr => decInt m.line
  | .functionName => m.func
  | .fileName => m.file
  | .msgLevel => levelText m.level
  | .msgClass => classText m.cls
  | .errorNbr => decInt m.errNbr
  | .text => m.text
  | .attribute => attrValue e m f.const

/-- the part of `std::ostream` that `append` touches -/
structure OStream where
  out : Text := []
  width : Nat := 0          -- ios_base::width()
  left : Bool := false      -- adjustfield == ios_base::left
  fill : Nat := 32
  deriving DecidableEq, Repr

/-- `dest << str`: padded to `width()` per `adjustfield`, never truncated; `width( 0)` afterwards -/
def OStream.put (s : OStream) (str : Text) : OStream :=
  let padding := List.replicate (s.width - str.length) s.fill
  { s with out := s.out ++ (if s.left then str ++ padding else padding ++ str), width := 0 }

/-- `Format::append` -/
def append (s : OStream) (f : Field) (str : Text) : OStream :=
  let s1 := if f.width > 0 then { s with width := f.width.toNat } else s
  let s2 := if f.left then { s1 with left := true } else s1
  let s3 := s2.put str
  if f.left then { s3 with left := false } else s3

/-- one iteration of the loop of `Format::format` -/
def formatField (e : Env) (m : Msg) (s : OStream) (f : Field) : OStream :=
  append s f (fieldText e m f)

/-- `Format::format( dest, msg)` -/
def format (e : Env) (m : Msg) (s : OStream) (fields : List Field) : OStream :=
  fields.foldl (formatField e m) s

/-! ### The global attributes and attribute scopes (logging.cpp, log_scoped_attribute.cpp)

  Model of the repaired code (/repo fix "scoped log attribute removes its own entry"): every entry of a
  `LogAttributesContainer` carries the id `addAttribute` returned for it (`mNextId++`); a `ScopedAttribute`
  remembers the id of its entry and its destructor calls `removeAttributeEntry( id)`.  Before the fix the
  destructor called `removeAttribute( name)` = "erase the newest entry of that name", which after a permanent
  `addAttribute`/`removeAttribute` of the same name inside the scope was somebody else's entry. -/

/-- one entry of `Logging::mAttributes`: the id given by `addAttribute`, name, value -/
structure GEntry where
  id : Nat
  name : Text
  value : Text
  deriving DecidableEq, Repr

/-- what a lookup sees of the global container: (name, value) in insertion order -/
def viewOf (g : List GEntry) : Attrs := g.map (fun e => (e.name, e.value))

/-- `removeAttribute( name)` on the global container: erases the entry with the greatest index that has
    this name -/
def removeName (g : List GEntry) (n : Text) : List GEntry :=
  (g.reverse.eraseP (fun e => e.name = n)).reverse

/-- `removeAttributeEntry( id)`: erases the first entry with this id, nothing if there is none -/
def removeId (g : List GEntry) (k : Nat) : List GEntry := g.eraseP (fun e => e.id = k)

/-- what happens to the global attribute container -/
inductive Ev where
  | push (n v : Text)     -- a `ScopedAttribute` is constructed (LOG_ATTRIBUTE)
  | pop                   -- the most recently constructed one still alive is destroyed
  | global (n v : Text)   -- `Logging::addAttribute` (stays)
  | remove (n : Text)     -- `Logging::removeAttribute`
  | drop (i : Nat)        -- the live `ScopedAttribute` number `i` (0 = newest) is destroyed: objects on the
                          -- heap / in other threads need not die in reverse order of construction
  | removeId (k : Nat)    -- `Logging::removeAttributeEntry( k)` (public since the repair 46917af) called with the
                          -- id `k` by anyone: the application with an id `addAttribute` returned, or the
                          -- destructor of a COPY of a `ScopedAttribute` (the copy holds the id of the original,
                          -- which stays alive: `live` is unchanged)
  deriving DecidableEq, Repr

/-- the global container (`ents`, `next` = `mNextId`) and the ids held by the live `ScopedAttribute`
    objects (newest first) -/
structure Scopes where
  ents : List GEntry := []
  next : Nat := 0
  live : List Nat := []
  deriving DecidableEq, Repr

/-- the global attributes as a lookup sees them -/
def Scopes.glob (s : Scopes) : Attrs := viewOf s.ents

/-- `none`: a `pop`/`drop` without such a live scope (not a program) -/
def Scopes.step (s : Scopes) : Ev → Option Scopes
  | .push n v => some { ents := s.ents ++ [⟨s.next, n, v⟩], next := s.next + 1, live := s.next :: s.live }
  | .pop =>
    match s.live with
    | [] => none
    | k :: rest => some { s with ents := removeId s.ents k, live := rest }
  | .global n v => some { s with ents := s.ents ++ [⟨s.next, n, v⟩], next := s.next + 1 }
  | .remove n => some { s with ents := removeName s.ents n }
  | .drop i =>
    match s.live[i]? with
    | none => none
    | some k => some { s with ents := removeId s.ents k, live := s.live.eraseIdx i }
  | .removeId k => some { s with ents := removeId s.ents k }

def Scopes.run (s : Scopes) : List Ev → Option Scopes
  | [] => some s
  | e :: es =>
    match s.step e with
    | some s' => s'.run es
    | none => none

end CelmaVerif.LogFormat
