/-
  Result type shared by every model: a C++ call either returns, throws an
  exception of some class, or (model only) touches memory outside an object.
  `oob` is what "invalid memory access" means in the models: all raw-memory
  primitives are checked and return `oob` instead of reading/writing outside.
-/
namespace CelmaVerif

/-- exception classes (messages are not modelled) -/
inductive Exc where
  | invalid_argument | runtime_error | out_of_range | logic_error | length_error
  | overflow_error | underflow_error | range_error | bad_cast | domain_error
  | eof            -- harness-defined: the byte source is exhausted
  | other
  deriving DecidableEq, Repr, Inhabited

def Exc.name : Exc → String
  | .invalid_argument => "invalid_argument"
  | .runtime_error => "runtime_error"
  | .out_of_range => "out_of_range"
  | .logic_error => "logic_error"
  | .length_error => "length_error"
  | .overflow_error => "overflow_error"
  | .underflow_error => "underflow_error"
  | .range_error => "range_error"
  | .bad_cast => "bad_cast"
  | .domain_error => "domain_error"
  | .eof => "eof"
  | .other => "other"

inductive Res (α : Type) where
  | ok (a : α)
  | throw (e : Exc)
  | oob (what : String)
  deriving Repr

namespace Res

instance : Monad Res where
  pure := .ok
  bind r f := match r with
    | .ok a => f a
    | .throw e => .throw e
    | .oob w => .oob w

def isOk : Res α → Bool | .ok _ => true | _ => false
def isOob : Res α → Bool | .oob _ => true | _ => false
def isThrow : Res α → Bool | .throw _ => true | _ => false

@[simp] theorem bind_ok (a : α) (f : α → Res β) : (Res.ok a >>= f) = f a := rfl
@[simp] theorem bind_throw (e : Exc) (f : α → Res β) : ((Res.throw e : Res α) >>= f) = .throw e := rfl
@[simp] theorem bind_oob (w : String) (f : α → Res β) : ((Res.oob w : Res α) >>= f) = .oob w := rfl
@[simp] theorem pure_eq (a : α) : (pure a : Res α) = .ok a := rfl

theorem bind_eq_ok {α β : Type} {r : Res α} {f : α → Res β} {b : β} :
    (r >>= f) = .ok b ↔ ∃ a, r = .ok a ∧ f a = .ok b := by
  cases r with
  | ok a => exact ⟨fun h => ⟨a, rfl, h⟩, fun ⟨a', h1, h2⟩ => by cases h1; exact h2⟩
  | throw e => exact ⟨fun h => (by cases h), fun ⟨a', h1, _⟩ => (by cases h1)⟩
  | oob w => exact ⟨fun h => (by cases h), fun ⟨a', h1, _⟩ => (by cases h1)⟩

end Res

/-- bytes are naturals below 256 (the bound is carried by hypotheses where needed) -/
abbrev Byte := Nat

namespace Mem

/-- checked `memcpy(dst + off, src, src.length)` into an object of `dst.length` bytes -/
def write (dst : List Byte) (off : Nat) (src : List Byte) (what : String := "write") : Res (List Byte) :=
  if off + src.length ≤ dst.length then
    .ok (dst.take off ++ src ++ dst.drop (off + src.length))
  else .oob what

/-- checked read of `len` bytes at `off` -/
def read (src : List Byte) (off len : Nat) (what : String := "read") : Res (List Byte) :=
  if off + len ≤ src.length then .ok ((src.drop off).take len) else .oob what

/-- checked `memmove(buf + dst, buf + from, len)` inside one object -/
def move (buf : List Byte) (dst src len : Nat) (what : String := "memmove") : Res (List Byte) :=
  match read buf src len what with
  | .ok bytes => write buf dst bytes what
  | .throw e => .throw e
  | .oob w => .oob w

/-- checked `memset(buf + off, c, len)` -/
def set (buf : List Byte) (off len : Nat) (c : Byte) (what : String := "memset") : Res (List Byte) :=
  write buf off (List.replicate len c) what

theorem write_length {dst : List Byte} {off : Nat} {src r : List Byte} {w : String}
    (h : write dst off src w = .ok r) : r.length = dst.length := by
  unfold write at h
  split at h
  · cases h; simp; omega
  · cases h

theorem write_ok {dst : List Byte} {off : Nat} {src : List Byte} {w : String}
    (h : off + src.length ≤ dst.length) :
    write dst off src w = .ok (dst.take off ++ src ++ dst.drop (off + src.length)) := by
  unfold write; simp [h]

theorem read_ok {src : List Byte} {off len : Nat} {w : String} (h : off + len ≤ src.length) :
    read src off len w = .ok ((src.drop off).take len) := by
  unfold read; simp [h]

end Mem
end CelmaVerif
