/-
  Line protocol helpers shared by the model drivers (core Lean only).
-/
namespace CelmaVerif.Proto

def hexDigit (n : Nat) : Char :=
  if n < 10 then Char.ofNat (48 + n) else Char.ofNat (87 + n)

def hexByte (b : Nat) : String :=
  String.ofList [hexDigit (b / 16 % 16), hexDigit (b % 16)]

def hexEncode (bs : List Nat) : String :=
  String.join (bs.map hexByte)

def hexVal (c : Char) : Option Nat :=
  if '0' ≤ c ∧ c ≤ '9' then some (c.toNat - 48)
  else if 'a' ≤ c ∧ c ≤ 'f' then some (c.toNat - 87)
  else if 'A' ≤ c ∧ c ≤ 'F' then some (c.toNat - 55)
  else none

def hexDecodeAux : List Char → List Nat → Option (List Nat)
  | [], acc => some acc.reverse
  | [_], _ => none
  | a :: b :: rest, acc =>
    match hexVal a, hexVal b with
    | some x, some y => hexDecodeAux rest ((x * 16 + y) :: acc)
    | _, _ => none

/-- "-" encodes the empty byte string -/
def hexDecode (s : String) : Option (List Nat) :=
  if s == "-" then some [] else hexDecodeAux s.toList []

def hexOut (bs : List Nat) : String :=
  if bs.isEmpty then "-" else hexEncode bs

def tokens (line : String) : List String :=
  (line.trimAscii.toString.splitOn " ").filter (· ≠ "")

/-- `key=value` lookup among tokens -/
def kv (toks : List String) (key : String) : Option String :=
  toks.findSome? fun t =>
    if t.startsWith (key ++ "=") then some ((t.drop (key.length + 1)).toString) else none

def natList (s : String) : Option (List Nat) :=
  if s == "-" || s == "" then some []
  else (s.splitOn ",").mapM (·.toNat?)

/-- generic driver loop: one input line → one output line -/
partial def loop {σ : Type} (h : IO.FS.Stream) (out : IO.FS.Stream) (step : σ → String → σ × String) (s : σ) : IO Unit := do
  let line ← h.getLine
  if line.isEmpty then
    out.flush
    return ()
  let l := line.trimAscii.toString
  if l.isEmpty || l.startsWith "#" then
    loop h out step s
  else
    let (s', o) := step s l
    out.putStrLn o
    loop h out step s'

def run {σ : Type} (init : σ) (step : σ → String → σ × String) : IO Unit := do
  let stdin ← IO.getStdin
  let stdout ← IO.getStdout
  loop stdin stdout step init

end CelmaVerif.Proto
