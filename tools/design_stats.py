#!/usr/bin/env python3
"""design_stats.py: the numbers quoted in DESIGN.md section 0.2 (sizes of the development, one quick run per
property from the committed evidence files), printed as markdown."""
import glob, json, os
V = os.path.dirname(os.path.dirname(os.path.abspath(__file__)))


def count(pattern):
    fs = [f for f in glob.glob(os.path.join(V, pattern), recursive=True) if os.path.isfile(f)]
    return len(fs), sum(sum(1 for _ in open(f, errors="replace")) for f in fs)


for label, pat in [("Base", "lean/CelmaVerif/Base/**/*.lean"), ("Model", "lean/CelmaVerif/Model/**/*.lean"),
                   ("Generated", "lean/CelmaVerif/Generated/**/*.lean"), ("Lemmas", "lean/CelmaVerif/Lemmas/**/*.lean"),
                   ("Props", "lean/CelmaVerif/Props/**/*.lean"), ("Drivers", "lean/Drivers/**/*.lean"),
                   ("harness", "harness/*"), ("translate", "translate/*.py"), ("tools", "tools/*.py")]:
    n, l = count(pat)
    print("%-10s %3d files %6d lines" % (label, n, l))
print()
print("| id | tier | seed | theorems | evaluations | distinct | wall s | violations |")
print("|---|---|---|---|---|---|---|---|")
for i in range(1, 21):
    pid = "C%02d" % i
    try:
        e = json.load(open(os.path.join(V, "evidence", pid + ".json")))
    except Exception as ex:
        print("| %s | (no evidence: %s) |" % (pid, ex))
        continue
    cov = e.get("coverage", e)
    print("| %s | %s | %s | %s | %s | %s | %s | %s |" % (
        pid, e.get("tier"), e.get("seed"), len(cov.get("theorems", [])) or cov.get("obligations", ""),
        cov.get("evaluations", e.get("evaluations")), cov.get("distinct_nontrivial", e.get("distinct_nontrivial")),
        e.get("wall_s"), e.get("violations")))
