"""component plugin: independent argument handlers used concurrently (C09)

Lean side : CelmaVerif/Props/C09.lean (frame theorem of the interleaving model, inventory clean,
            isolation theorem), driver model-handlermt (per-thread result of the run alone in the model)
Tie       : translate/shared_state.py regenerates Generated/HandlerSharedState.lean on every run;
            harness/handler_mt.cpp is built twice from the working tree (TSan and ASan+UBSan) out of
            exactly the translation units of the translator's reach and run through one wrapper
"""
import concurrent.futures as cf
import os
import random
import stat
import sys

import vlib
from vlib import Case, Problem

sys.path.insert(0, os.path.join(vlib.VERIF, "translate"))
import shared_state  # noqa: E402

COMPONENT = "handlermt"
DRIVER = "model-handlermt"


def handler_inventory(repo, lean_dir):
    return shared_state.handler_inventory(repo, lean_dir)


def singleton_facts(repo, lean_dir):
    """singleton.hpp -> the singleton part of Generated/SharedState.lean (translate/concurrency.py, the C20
    translator).  Every plain handler whose command line asks for the usage reaches Singleton<Groups>
    (Handler::usage), so the justification of that inventory entry rests on instance() being the
    double-checked lock the C20 model covers.  A managed_thread.hpp the translator does not understand is
    not C09's business and is ignored here (property C20 reports it)."""
    import importlib.util
    spec = importlib.util.spec_from_file_location("translate_concurrency",
                                                  os.path.join(vlib.VERIF, "translate", "concurrency.py"))
    mod = importlib.util.module_from_spec(spec)
    spec.loader.exec_module(mod)
    try:
        rep = mod.translate(repo, lean_dir)
        return {"singleton": rep.get("singleton"), "written": rep.get("written"), "changed": rep.get("changed")}
    except ValueError as e:
        parts = [x for x in str(e).split(" | ") if x.startswith("singleton.hpp:")]
        if parts:
            raise ValueError(" | ".join(parts))
        return {"singleton": "understood", "ignored (not part of C09)": str(e)[:300]}


PROPERTIES = {
    "C09": {
        "lean_module": "CelmaVerif.Props.C09",
        "kind": "relational",
        "translators": [handler_inventory, singleton_facts],
        "trusted": [
            "translate/shared_state.py (reach = #include/link closure of prog_args; clang-query-14 AST matchers, "
            "token scan for units clang cannot parse) -> Generated/HandlerSharedState.lean, regenerated on every run",
            "hand-written interleaving model CelmaVerif/Model/Interleave.lean (sequentially consistent, steps atomic, "
            "no synchronisation operations)",
            "harness/handler_mt.cpp built from the working tree with ThreadSanitizer and with ASan+UBSan (g++ 12); "
            "TSan as the oracle for data races on the schedules that occurred, the in-process sequential run as the "
            "oracle for results",
        ],
        "assumptions": [
            "closed world (built into the derived thread programs of C09_plain_handler_threads_isolated, hypothesis of "
            "C09_handler_threads_isolated_partial): a call of a handler thread reaches only objects of its own thread "
            "or objects with static storage duration; the mutable ones of the latter are the regenerated inventory",
            "which handler call reaches the singleton's static members is read from the regenerated call-site table "
            "(callers of common::Singleton<T> members; per call site the normalised text of the enclosing `if` conditions, "
            "compared with the expected guard per caller by C09_singleton_callers_modelled: `mUsedByGroup` for "
            "internAddArgument / addBracketHandler); that mUsedByGroup is set from hfInGroup in both constructors and "
            "never written afterwards, and that only Groups passes hfInGroup, is read by hand",
            "what else of process-wide state a call can name is the regenerated per-call table entryFootprints (call "
            "closure BY SIMPLE FUNCTION NAME of the entry point of each of the nine Api calls, cut at the other entry "
            "points, at Singleton<T> members and at functions outside the repository), part of the derived thread "
            "programs and checked by C09_call_footprints_modelled; hand-written and assumed: the own-object cells per "
            "call and Api.prints (no hfVerboseArgs, no evalArgumentsErrorExit); not seen by a name-based graph: function "
            "pointers / objects handed in by the application, hidden state in libstdc++/Boost beyond a fixed list of "
            "non-re-entrant functions, mutable/const_cast",
            "Singleton<Groups> (singleton.hpp class-statics) is reached only through Groups::instance(): handlers "
            "created with hfInGroup, usage()/--list-arg-groups, evalArgumentString without handler, "
            "addStandardArgument.  A plain handler whose own command line contains -h / --help / --list-arg-groups "
            "DOES reach it (Handler::usage starts with Groups::instance().evaluatedByArgGroups()): for those threads "
            "the entry is justified by the singleton being correct - the C20 singleton obligations over the "
            "regenerated Generated/SharedState.lean are obligations of C09 too (C09_singleton_entry_sound, translator "
            "singleton_facts) and the `help` workloads force the first-use race through the sync points of instance(); "
            "that the Groups object is only read on that path (evaluatedByArgGroups) is read by hand",
            "std::cout/std::cerr are only bound as default stream references; threads of the quantifier request no "
            "usage/summary/verbose output; [iostream.objects.overview]/5 for the objects themselves",
            "libstdc++, Boost.Tokenizer, boost::lexical_cast, std::regex and the allocator keep no unsynchronised "
            "process-wide state (outside /repo/src, not in the inventory; locale facets are read-only after startup)",
            "threads share no destination variables and no command line storage (the property's premise)",
        ],
    }
}

RULE = ("one case = one workload of 2..16 threads (own handler, own destinations, own command line each; `file` threads "
        "also an argument file / environment variable of their own); one "
        "evaluation = one protocol line; a `run` line stands for reps x threads concurrent handler lifetimes in the "
        "TSan build and as many in the ASan build, each compared with the same job run alone in the same process and, "
        "for threads inside the model's fragment, with the model driver; distinct_nontrivial = distinct (thread "
        "count, multiset of per-thread outcome classes) for run lines and distinct (kind, option set) for arg lines")

SEPS = ",;:.+%#@^~!"
NOTE_FILES = ("handler_mt_retry.notes",)

# --------------------------------------------------------------------------- machine load must not become a VIOLATION
# (coordinator report 2026-09-30: a 240 s kill switch turned a slow TSan batch on a loaded machine into
#  `VIOLATION property=C09 replay=...`, kind=crash.)  Wall-clock limits of this component are no-progress limits that
#  grow with the load, a run killed for not answering is repeated once alone with a much longer limit, and a run that
#  passes on the retry leaves a note that ends up in the evidence (`coverage.rule`, which check.py reads from the
#  plugin after the runs: there is no other hook for notes).

_WORK = [None]
_NOTES_SEEN = set()


def _load_factor():
    try:
        return max(1.0, os.getloadavg()[0] / max(1, os.cpu_count() or 1))
    except Exception:
        return 1.0


def _relax_batch_limit():
    """vlib.Pair kills a whole harness batch after its `timeout` (default 900 s) and check.py reports the missing
    lines as a crash of the property.  The harness side of this component has its own no-progress watchdogs, so the
    batch limit only has to stop a wrapper that is itself stuck: raise the default for this check process, scaled by
    the load.  (Work-around in the plugin; the clean change would be in vlib: a batch time-out is a broken tie, not
    a failing input.)"""
    try:
        d = vlib.Pair.__init__.__defaults__
        want = int(min(8 * 3600, 3600 * _load_factor()))
        if d and isinstance(d[-1], int) and d[-1] < want:
            vlib.Pair.__init__.__defaults__ = d[:-1] + (want,)
    except Exception:
        pass


def _pickup_retry_notes():
    """notes written by the harness side into the work directory -> RULE (evidence: coverage.rule) and the log"""
    global RULE
    w = _WORK[0]
    if not w:
        return
    for name in NOTE_FILES:
        path = os.path.join(w, name)
        try:
            with open(path) as f:
                notes = [l.strip() for l in f if l.strip()]
        except OSError:
            continue
        for n in notes:
            if n in _NOTES_SEEN:
                continue
            _NOTES_SEEN.add(n)
            vlib.log("note (not a failure): " + n)
            if isinstance(RULE, dict):
                for k in RULE:
                    RULE[k] = RULE[k] + " NOTE (load, not a failure): " + n
            else:
                RULE = RULE + " NOTE (load, not a failure): " + n



# --------------------------------------------------------------------------- harness build

WRAPPER = r'''#!/usr/bin/env python3
# runs the ASan and the TSan build of harness/handler_mt.cpp on the same input and merges their lines
import os, re, subprocess, sys, threading, time
here = os.path.dirname(os.path.abspath(__file__))
data = sys.stdin.buffer.read()
res = {}
# A sanitizer run time that dead locks in its own SEGV handler must not stall the check, so a build that does not
# answer is killed.  "Does not answer" = no new answer line for LIMIT seconds (the harness flushes after every line);
# the total run time of a batch is NOT limited here: a loaded machine makes a batch slow, not wrong.  LIMIT grows with
# the machine load.  A build killed that way is run again ALONE (nothing else of this wrapper running) from the start
# of the case it stopped in, with a much longer limit; only a hang that shows again is a failure.
def load_factor():
    try:
        return max(1.0, os.getloadavg()[0] / max(1, os.cpu_count() or 1))
    except Exception:
        return 1.0
LIMIT = int(min(1800, float(os.environ.get("HANDLER_MT_LIMIT", "240")) * load_factor()))
RETRY_LIMIT = int(min(3600, float(os.environ.get("HANDLER_MT_RETRY_LIMIT", "900")) * load_factor()))
NOTE = os.path.join(here, "handler_mt_retry.notes")

def significant(raw):
    # the input lines the harness answers (vh::run skips empty lines and comments)
    out = []
    for l in raw.split(b"\n"):
        t = l.lstrip(b" \t\r")
        if t and not t.startswith(b"#"):
            out.append(l)
    return out

def die_with_parent():
    # a harness must not outlive this wrapper (an orphaned TSan build spinning in its SEGV handler was found burning a
    # CPU for hours after its check had been killed): SIGKILL when the creating thread of the wrapper goes away
    try:
        import ctypes
        ctypes.CDLL("libc.so.6", use_errno=True).prctl(1, 9)      # PR_SET_PDEATHSIG, SIGKILL
    except Exception:
        pass

def run_once(tag, inp, limit):
    # -> (returncode or None when killed, complete answer lines, stderr text, seconds)
    t0 = time.time()
    p = subprocess.Popen([os.path.join(here, "handler_mt_" + tag)], stdin=subprocess.PIPE, stdout=subprocess.PIPE,
                         stderr=subprocess.PIPE, preexec_fn=die_with_parent)
    lines, err, last = [], [], [time.time()]
    def rd_out():
        for raw in p.stdout:
            if raw.endswith(b"\n"):          # an incomplete last line of a killed process is dropped
                lines.append(raw[:-1].decode("utf-8", "replace"))
                last[0] = time.time()
    def rd_err():
        err.append(p.stderr.read())
    def wr():
        try:
            p.stdin.write(inp)
            p.stdin.close()
        except (BrokenPipeError, OSError):
            pass
    ths = [threading.Thread(target=f, daemon=True) for f in (rd_out, rd_err, wr)]
    [t.start() for t in ths]
    killed = False
    while p.poll() is None:
        time.sleep(0.2)
        if time.time() - last[0] > limit:
            killed = True
            p.kill()
            break
    p.wait()
    [t.join(10) for t in ths]
    return (None if killed else p.returncode), lines, b"".join(err).decode("utf-8", "replace"), time.time() - t0

def run(tag):
    res[tag] = run_once(tag, data, LIMIT)

ts = [threading.Thread(target=run, args=(t,)) for t in ("asan", "tsan")]
[t.start() for t in ts]
[t.join() for t in ts]

sig = significant(data)
for tag in ("asan", "tsan"):
    rc, lines, err, secs = res[tag]
    if rc is not None:
        continue
    # killed for not answering: once more, alone, from the start of the case of the unanswered line
    k = min(len(lines), len(sig) - 1) if sig else 0
    c = k
    while c > 0 and not sig[c].lstrip().startswith(b"case "):
        c -= 1
    op = sig[k].decode("utf-8", "replace") if sig else ""
    rc2, lines2, err2, secs2 = run_once(tag, b"".join(l + b"\n" for l in sig[c:]), RETRY_LIMIT)
    if rc2 is None:
        k2 = c + len(lines2)
        op2 = sig[min(k2, len(sig) - 1)].decode("utf-8", "replace")
        res[tag] = (97, lines[:c] + lines2, err + err2 + (
            "\n== %s build: no answer to `%s` within %d s, killed; run again alone: no answer to `%s` within %d s "
            "(hang reproduced twice; load factor %.1f)\n" % (tag, op, LIMIT, op2, RETRY_LIMIT, load_factor())), secs + secs2)
    else:
        res[tag] = (rc2, lines[:c] + lines2, err + err2, secs + secs2)
        try:
            with open(NOTE, "a") as f:
                f.write("%s build: one run (`%s`) gave no answer within %d s (load factor %.1f) and was killed; run again "
                        "alone from the start of its case it answered everything (%d lines in %.0f s, exit=%s)\n"
                        % (tag, op, LIMIT, load_factor(), len(lines2), secs2, rc2))
        except OSError:
            pass
arc, a, aerr, _ = res["asan"]
trc, t, terr, _ = res["tsan"]
summ = sorted(set(re.sub(r"\(/[^)]*\) ", "", l.strip()) for l in terr.split("\n") if l.startswith("SUMMARY: ThreadSanitizer")))
summ_txt = (" [" + " ;; ".join(s.replace("SUMMARY: ThreadSanitizer: ", "") for s in summ[:3]) + "]") if summ else ""
if trc == 66 and not any(l.startswith("!! tsan") or (l.startswith("!!") and "tsan_reports" in l) for l in t):
    # a report that the in-process hook did not attribute to a run: charge it to the last run
    for k in range(len(t) - 1, -1, -1):
        if t[k].startswith("ok threads="):
            t[k] = "!! tsan exit code 66, report not attributed to a run"
            break
n = min(len(a), len(t))
out = []
for k in range(n):
    la, lt = a[k], t[k]
    if la.startswith("!!"):
        out.append(la + (" (tsan build: " + lt + summ_txt + ")" if lt.startswith("!!") else ""))
    elif lt.startswith("!!"):
        out.append(lt + summ_txt)
    elif la != lt:
        out.append("!! asan and tsan builds differ: asan=" + la + " tsan=" + lt)
    else:
        out.append(la)
sys.stdout.write("".join(l + "\n" for l in out))
sys.stdout.flush()
rc = 0
if arc != 0:
    rc = arc
    sys.stderr.write("== asan build exit=%s\n%s\n" % (arc, aerr[-3000:]))
if trc not in (0, 66):
    rc = rc or trc
    sys.stderr.write("== tsan build exit=%s\n%s\n" % (trc, terr[-3000:]))
elif trc == 66:
    sys.stderr.write(terr[-3000:])
if rc == 0 and len(a) != len(t):
    rc = 98
sys.exit(rc)
'''


def build_harness(work, prop):
    _WORK[0] = work
    _relax_batch_limit()
    srcs = shared_state.impl_sources(vlib.REPO)       # exactly the translation units of the inventory's reach
    logs = []

    def one(san):
        return san, vlib.build_harness(os.path.join(work, "obj_" + san), "harness/handler_mt.cpp", srcs, sanitizer=san,
                                       name="handler_mt_" + san)

    with cf.ThreadPoolExecutor(2) as ex:
        results = dict(ex.map(one, ["tsan", "asan"]))
    for san, (b, log) in results.items():
        if b is None:
            return None, "%s build failed (sources = the reach of translate/shared_state.py):\n%s" % (san, log)
        os.replace(b, os.path.join(work, "handler_mt_" + san))
        logs.append(log)
    wrapper = os.path.join(work, "handler_mt_both")
    with open(wrapper, "w") as f:
        f.write(WRAPPER)
    os.chmod(wrapper, os.stat(wrapper).st_mode | stat.S_IXUSR | stat.S_IXGRP | stat.S_IXOTH)
    return wrapper, "\n".join(logs)


# --------------------------------------------------------------------------- judging

def judge(prop, case, impl, model):
    _pickup_retry_notes()
    probs = []
    ops = ["case " + case.cid] + case.lines
    for i, op in enumerate(ops):
        a = impl[i] if i < len(impl) else None
        b = model[i] if i < len(model) else None
        if a is not None and a.startswith("!!"):
            probs.append(Problem("oracle", case, i, op, a, b))
            break
        if (a is not None and a.startswith("bad-op")) or (b is not None and b.startswith("bad-op")):
            probs.append(Problem("badop", case, i, op, a, b))
            break
        if a == b:
            continue
        if a is not None and b is not None and op.startswith("run ") and a.startswith("ok ") and b.startswith("ok "):
            ta, tb = a.split(" "), b.split(" ")
            if len(ta) == len(tb) and all(x == y or y.endswith("=?") and x.split("=")[0] == y.split("=")[0]
                                          for x, y in zip(ta, tb)):
                continue        # `t<k>=?`: outside the model's fragment, the sequential run is the oracle
        probs.append(Problem("diff", case, i, op, a, b))
        break
    return probs


def diff_is_failure(prop, p):
    """The harness has already compared every concurrent result with the run alone and asked TSan ('!!' lines
    are oracle failures).  A remaining difference to the model driver means the model's sequential semantics
    of a job is not the implementation's: a broken tie, not an interference."""
    return False


def problem_rank(prop, p):
    """which failing input speaks most directly about the property: a stand-alone thread whose result differs from its
    run alone under a *forced* (deterministic) schedule, then any other oracle failure, then crashes of a sanitizer build"""
    if p.kind == "oracle":
        return 0 if "forced=1" in (p.line or "") and "!! mismatch" in (p.impl or "") else 1
    return 2


def nontrivial_key(op, result):
    w = op.split(" ")
    if w[0] == "run":
        r = (result or "").split(" ")
        classes = []
        for x in r[2:]:
            v = x.split("=", 1)[1] if "=" in x else x
            classes.append(v.split(":")[0] + (":" + v.split(":", 1)[1] if v.startswith(("throw", "setup-throw")) else ""))
        return ("run", r[0], r[1] if len(r) > 1 else "", tuple(sorted(classes)))
    if w[0] == "arg":
        kind = [x for x in w if x.startswith("kind=")]
        opts = sorted(set(x.split("=")[0] + ("=" + x.split("=")[1].split(":")[0] if x.startswith(("check=", "card=", "constr=")) else "")
                          for x in w[1:] if not x.startswith(("t=", "key=", "kind="))))
        return ("arg", kind[0] if kind else "", tuple(opts))
    return None


# --------------------------------------------------------------------------- generator

WORDS = ["a", "b", "c", "ab", "xy", "foo", "bar", "q7", "Zed", "m"]
LONGS = ["alpha", "beta", "gamma", "delta", "input", "output", "level", "names", "values", "words", "ratio", "tags"]


def list_value(rng, sep, kind, others):
    """a value for a list argument: tokens joined by the thread's own separator; string tokens carry
    *other* threads' separators inside, so that splitting at a foreign separator is visible"""
    n = rng.choice([1, 1, 2, 3, 3, 4, 6])
    toks = []
    for _ in range(n):
        if kind in ("vec_int", "set_int"):
            toks.append(str(rng.choice([0, 1, 2, 7, 10, 42, 99, 100, 12345, rng.randint(0, 999999)])))
        else:
            t = rng.choice(WORDS)
            if others and rng.random() < 0.7:
                o = rng.choice(others)
                t = t + o + rng.choice(WORDS)
            toks.append(t)
    v = sep.join(toks)
    if rng.random() < 0.1:
        v = v + sep            # trailing separator: empty token dropped
    if rng.random() < 0.05:
        v = sep + v
    return v


def thread_lines(rng, t, all_seps, simple):
    """configuration + command line of one thread"""
    nargs = rng.choice([1, 1, 2, 2, 3, 4])
    shorts = rng.sample("abcdefghiklmnopqrstuvwxyz", nargs)
    longs = rng.sample(LONGS, nargs)
    lines, args = [], []
    for k in range(nargs):
        kind = rng.choice(["vec_str", "vec_str", "vec_int", "vec_int", "list_str", "str", "int", "flag"] +
                          ([] if simple else ["set_int", "vec_str", "vec_int"]))
        form = rng.random()
        key = shorts[k] if form < 0.5 else (shorts[k] + "," + longs[k] if form < 0.85 else longs[k])
        a = {"key": key, "kind": kind, "short": shorts[k] if form < 0.85 else None, "long": longs[k] if form >= 0.5 else None}
        toks = ["arg", "t=%d" % t, "key=" + key, "kind=" + kind]
        if kind in ("vec_str", "vec_int", "list_str", "set_int"):
            if rng.random() < 0.85:
                a["sep"] = rng.choice(all_seps)
                toks.append("sep=" + a["sep"])
            else:
                a["sep"] = ","
        if not simple:
            r = rng.random()
            if kind in ("int", "vec_int", "set_int") and r < 0.5:
                c = rng.choice(["lower:%d" % rng.choice([0, 5, 50]), "upper:%d" % rng.choice([50, 1000, 1000000]),
                                "range:%d:%d" % (rng.choice([0, 1, 10]), rng.choice([100, 1000, 100000]))])
                toks.append("check=" + c)
            elif kind in ("str", "vec_str", "list_str") and r < 0.5:
                c = rng.choice(["minlen:1", "minlen:2", "maxlen:3", "maxlen:8", "values:a,b,c,ab,xy,foo,bar"])
                toks.append("check=" + c)
            if rng.random() < 0.25:
                toks.append("mand=1")
                a["mand"] = True
            if kind in ("vec_str", "vec_int", "list_str") and rng.random() < 0.3:
                toks.append("unique=%d" % rng.choice([1, 1, 2]))
            if kind in ("vec_str", "vec_int") and rng.random() < 0.3:
                toks.append("sort=1")
            if kind in ("vec_str", "vec_int", "list_str", "set_int") and rng.random() < 0.2:
                toks.append("multi=1")
                a["multi"] = True
            if kind in ("vec_str", "vec_int") and rng.random() < 0.15:
                toks.append("clear=1")
            if kind in ("vec_str", "vec_int", "list_str") and rng.random() < 0.2:
                toks.append("card=" + rng.choice(["max:2", "max:5", "exact:2", "range:1:4"]))
            if kind in ("str", "vec_str", "list_str") and rng.random() < 0.25:
                toks.append("fmt=" + rng.choice(["upper", "lower"]))
        args.append(a)
        lines.append(" ".join(toks))
    if not simple and nargs >= 2:
        if rng.random() < 0.4:
            i, j = rng.sample(range(nargs), 2)
            lines[i] += " constr=%s:%s" % (rng.choice(["requires", "excludes"]), args[j]["key"].split(",")[0])
        if rng.random() < 0.35:
            ks = rng.sample(range(nargs), rng.choice([2, min(3, nargs)]))
            lines.append("hc t=%d kind=%s spec=%s" % (t, rng.choice(["all_of", "any_of", "one_of"]),
                                                      ";".join(args[k]["key"].split(",")[0] for k in ks)))
    # the command line
    words = []
    others = [s for s in all_seps]
    use_order = [k for k in range(nargs) if rng.random() < 0.85 or args[k].get("mand")]
    rng.shuffle(use_order)
    for k in list(use_order):
        if args[k]["kind"] in ("vec_str", "vec_int", "list_str") and rng.random() < 0.3:
            use_order.append(k)          # a second use appends
    for k in use_order:
        a = args[k]
        name = ("-" + a["short"]) if a["short"] and (not a["long"] or rng.random() < 0.5) else ("--" + a["long"])
        words.append(name)
        kind = a["kind"]
        if kind == "flag":
            continue
        if kind in ("vec_str", "vec_int", "list_str", "set_int"):
            words.append(list_value(rng, a["sep"], kind, [o for o in others if o != a["sep"]]))
            if a.get("multi") and rng.random() < 0.6:
                words.append(list_value(rng, a["sep"], kind, [o for o in others if o != a["sep"]]))
        elif kind == "int":
            words.append(str(rng.choice([0, 1, 7, 42, 100, 99999, rng.randint(0, 10 ** 6)])))
        else:
            w = rng.choice(WORDS)
            if rng.random() < 0.5:
                w += rng.choice(others) + rng.choice(WORDS)
            words.append(w)
    if not simple:
        r = rng.random()           # rule-breaking edits: exception paths must be thread-local too
        if r < 0.08:
            words.append("--nosucharg")
        elif r < 0.14 and words:
            words = words[:-1]
        elif r < 0.2:
            for i, w in enumerate(words):
                if w and w[0].isdigit():
                    words[i] = w + "x"
                    break
    lines.append("argv t=%d %s" % (t, " ".join(words)))
    return lines


def help_case(rng, cid, nthreads, reps, forced):
    """independent plain handlers whose own command lines contain -h (hfHelpShort | hfUsageCont, usage on a
    stream of the thread): every thread reaches the process-wide Singleton<Groups> through Handler::usage().
    The harness resets the singleton before every round; forced=1 holds every thread after the unlocked first
    check of instance() until all are there (sync points of the CELMA_VERIF build)."""
    seps = rng.sample(SEPS, min(len(SEPS), nthreads))
    lines = []
    for t in range(nthreads):
        sep = seps[t % len(seps)]
        lines.append("help t=%d" % t)
        kind = rng.choice(["vec_int", "vec_str"])
        lines.append("arg t=%d key=v,values kind=%s sep=%s%s" % (t, kind, sep, " check=range:1:100" if kind == "vec_int" else ""))
        lines.append("arg t=%d key=l kind=int check=lower:5" % t)
        vals = sep.join(str(rng.randint(1, 99)) if kind == "vec_int" else rng.choice(["a", "b,c", "x;y", "foo"]) for _ in range(3))
        lv = rng.choice([7, 50, 3]) if rng.random() < 0.8 else 3          # 3 violates the check
        words = ["-v", vals, "-l", str(lv)]
        pos = rng.choice([0, 0, 2, 4])                                      # where the -h stands
        words[pos:pos] = ["-h"]
        if nthreads >= 3 and t > 1 and rng.random() < 0.15:
            words = [w for w in words if w != "-h"]                        # a thread that does not ask for the usage
        lines.append("argv t=%d %s" % (t, " ".join(words)))
    lines.append("run n=%d reps=%d seed=%d%s" % (nthreads, reps, rng.randint(1, 10 ** 6), " forced=1" if forced else ""))
    return Case(cid, lines)


GROUP_POOL = [("v,verbose", "flag"), ("c,count", "int"), ("l,list", "vec_int"), ("n,name", "str"), ("w,words", "vec_str"),
              ("q", "flag"), ("i,input", "str"), ("k,keys", "vec_str")]


def pool_thread(rng, t, picks, sep, others, brackets):
    """arg lines + command line for arguments taken from GROUP_POOL; `brackets`: the command line may contain ( )"""
    lines, words = [], []
    for key, kind in picks:
        lines.append("arg t=%d key=%s kind=%s%s" % (t, key, kind, " sep=" + sep if kind.startswith("vec_") else ""))
        if rng.random() < 0.1:
            continue                                  # defined but not used
        forms = key.split(",")
        words.append("-" + forms[0] if len(forms) == 1 or rng.random() < 0.6 else "--" + forms[1])
        if kind == "int":
            words.append(str(rng.choice([0, 7, 42, 1000])))
        elif kind == "str":
            words.append(rng.choice(WORDS) + (rng.choice(others) + rng.choice(WORDS) if others and rng.random() < 0.5 else ""))
        elif kind == "vec_int":
            words.append(sep.join(str(rng.randint(0, 99)) for _ in range(rng.choice([1, 3, 4]))))
        elif kind == "vec_str":
            words.append(list_value(rng, sep, "vec_str", others))
    if brackets and len(words) >= 2 and rng.random() < 0.6:
        # a bracket pair around the arguments from the i-th word on (never between an argument and its value)
        starts = [i for i, w in enumerate(words) if w.startswith("-")]
        i = rng.choice(starts)
        words = words[:i] + ["("] + words[i:] + [")"]
    return lines, words


def group_case(rng, cid, nthreads, reps, forced):
    """a group thread beside stand-alone threads: one thread obtains its handlers from Groups::instance().getArgHandler(),
    defines arguments on them, evaluates through Groups::evalArguments and removes them, in a loop; every other thread
    sets up and evaluates a stand-alone handler that calls addBracketHandler() (before / between / after its arguments)
    and *shares argument keys* with the group handlers.  The stand-alone handlers were never created by Groups
    (mUsedByGroup = false): nothing they do may depend on what is registered in the process-wide Groups object.
    forced=1: every stand-alone job runs between the group thread's registration and its removal."""
    gt = rng.randrange(nthreads)
    seps = rng.sample(SEPS, min(len(SEPS), nthreads))
    gpicks = rng.sample(GROUP_POOL, rng.choice([2, 3, 4]))
    lines = []
    for t in range(nthreads):
        sep = seps[t % len(seps)]
        others = [x for x in seps if x != sep]
        if t == gt:
            m = rng.choice([1, 2, 2, 3])
            br = rng.choice([-1, -1] + list(range(m)))
            lines.append("group t=%d handlers=%d loops=%d%s remove=%s" % (
                t, m, 2 if forced else rng.choice([6, 10, 16]), " brackets=%d" % br if br >= 0 else "", rng.choice(["each", "all"])))
            al, words = pool_thread(rng, t, gpicks, sep, others, br >= 0)
        else:
            k = rng.choice([1, 2, 2, 3])
            shared = rng.sample(gpicks, min(len(gpicks), rng.choice([1, 1, 2]))) if rng.random() < 0.85 else []
            rest = [x for x in GROUP_POOL if x not in shared]
            picks = (shared + rng.sample(rest, max(0, k - len(shared))))[:max(k, len(shared))]
            rng.shuffle(picks)
            r = rng.random()
            at = None if r < 0.15 else (0 if r < 0.35 else (len(picks) if r < 0.8 else rng.randint(0, len(picks))))
            has_br = at is not None or t % 2 == 1
            if at is not None:
                lines.append("bracket t=%d at=%d" % (t, at))
            al, words = pool_thread(rng, t, picks, sep, others, has_br)
        lines += al
        lines.append("argv t=%d %s" % (t, " ".join(words)))
    lines.append("run n=%d reps=%d seed=%d%s" % (nthreads, reps, rng.randint(1, 10 ** 6), " forced=1" if forced else ""))
    return Case(cid, lines)


def file_case(rng, cid, nthreads, reps, forced, nfile=1):
    """threads that take their arguments from a file / an environment variable OF THEIR OWN beside plain threads
    (seeded/C09-4: Handler::mReadMode made process-wide).  A file thread (`file t=<k> mode=argfile|progarg|env`) evaluates
    its source through Handler::readArgumentFile() / checkReadEnvVarArgs(); while it is in there ITS handler skips the
    cardinality checks (values from a file may be overwritten by the command line).  The plain threads evaluate command
    lines whose acceptance DEPENDS on the cardinality check: a scalar given twice (`-i 1 -i 101`: refused, i stays 1),
    a list with `card=max:2` used three times, and lines that are accepted.  forced=1: the plain threads run their whole
    job while every file thread sits in the `--hold` callable in the middle of its source; free running: long files
    (hundreds of lines) so that the window is wide, for TSan."""
    seps = rng.sample(SEPS.replace(":", ""), min(len(SEPS) - 1, nthreads))
    filet = set(rng.sample(range(nthreads), min(nfile, nthreads - 1)))
    lines = []
    for t in range(nthreads):
        sep = seps[t % len(seps)]
        if t in filet:
            mode = rng.choice(["argfile", "progarg", "env", "argfile", "progarg"])
            lines.append("file t=%d mode=%s hold=1" % (t, mode))
            lines.append("arg t=%d key=a kind=int" % t)
            lines.append("arg t=%d key=l,list kind=vec_int sep=%s" % (t, sep))
            lines.append("arg t=%d key=n,name kind=str" % t)
            # free running: hundreds of lines that overwrite scalars (allowed in a file; the result line stays short)
            body = 1 if forced else rng.choice([150, 300, 600])
            lines.append("fline t=%d n=%d -a %d" % (t, body, rng.randint(1, 9)))
            lines.append("fline t=%d n=1 -l %s" % (t, sep.join(str(rng.randint(0, 99)) for _ in range(3))))
            lines.append("fline t=%d n=1 --hold" % t)
            lines.append("fline t=%d n=%d --name %s -a %d" % (t, body, rng.choice(WORDS), rng.randint(1, 9)))
            lines.append("fline t=%d n=1 --list %s" % (t, sep.join(str(rng.randint(0, 99)) for _ in range(2))))
            if rng.random() < 0.5:
                lines.append("fline t=%d n=1 -n fromfile" % t)
            # the command line overwrites a value from the file (accepted only because values from a file do not count)
            words = (["--arg-file", "@file"] if mode == "argfile" else []) + ["-a", str(rng.randint(10, 99))]
            if rng.random() < 0.5:
                words += ["-n", rng.choice(WORDS)]
            if rng.random() < 0.15:
                words += ["-a", "7"]                   # ... but twice on the command line is refused
        else:
            shape = rng.choice(["twice", "twice", "twice", "card", "fine", "str-twice"])
            lines.append("arg t=%d key=i kind=int" % t)
            lines.append("arg t=%d key=v kind=vec_int sep=%s%s" % (t, sep, " card=max:2" if shape == "card" else ""))
            lines.append("arg t=%d key=s kind=str check=values:abc,def" % t)
            v = lambda: sep.join(str(rng.randint(0, 99)) for _ in range(3))
            if shape == "twice":
                words = ["-i", str(t + 1), "-v", v(), "-s", "def", "-i", str(t + 101)]
            elif shape == "str-twice":
                words = ["-s", "abc", "-i", str(t + 1), "-s", "def"]
            elif shape == "card":
                words = ["-v", v(), "-i", str(t + 1), "-v", v(), "-v", v()]
            else:
                words = ["-i", str(t + 1), "-v", v(), "-s", "abc"]
        lines.append("argv t=%d %s" % (t, " ".join(words)))
    lines.append("run n=%d reps=%d seed=%d%s" % (nthreads, reps, rng.randint(1, 10 ** 6), " forced=1" if forced else ""))
    return Case(cid, lines)


def workload(rng, cid, nthreads, reps, simple_ratio):
    nsep = rng.choice([2, 3, 4, len(SEPS)])
    all_seps = rng.sample(SEPS, nsep)
    lines = []
    for t in range(nthreads):
        lines += thread_lines(rng, t, all_seps, rng.random() < simple_ratio)
    lines.append("run n=%d reps=%d seed=%d" % (nthreads, reps, rng.randint(1, 10 ** 6)))
    return Case(cid, lines)


def saturated_case(rng, cid, nthreads, reps):
    """every thread uses every feature the harness knows (all destination kinds, formats, all check types,
    cardinalities, uniqueness, sorting, argument and handler constraints) with its own separators, so that any
    process-wide state behind any of these code paths is touched by several threads at once"""
    lines = []
    for t in range(nthreads):
        sp = rng.sample(SEPS, 4)
        o = lambda k: sp[(k + 1) % 4]
        broken = rng.choice(["", "", "", "check", "card", "constr", "hc", "cast", "mand", "unknown"])
        lines += [
            "arg t=%d key=a,alpha kind=vec_str sep=%s fmt=upper check=minlen:1 unique=1 sort=1" % (t, sp[0]),
            "arg t=%d key=b,beta kind=vec_int sep=%s check=range:0:1000000 card=max:5 multi=1" % (t, sp[1]),
            "arg t=%d key=c kind=str fmt=lower check=maxlen:8 constr=requires:h" % t,
            "arg t=%d key=d,delta kind=int check=lower:0 check=upper:100000 mand=1" % t,
            "arg t=%d key=e kind=list_str sep=%s check=values:a,b,c,ab,xy,foo,bar card=range:1:4" % (t, sp[2]),
            "arg t=%d key=f kind=flag constr=excludes:g,gamma" % t,
            "arg t=%d key=g,gamma kind=set_int sep=%s" % (t, sp[3]),
            "arg t=%d key=h kind=vec_str sep=%s clear=1 unique=2" % (t, sp[0]),
            "hc t=%d kind=all_of spec=a,alpha;b,beta" % t,
            "arg t=%d key=x,extra kind=flag" % t,
            "hc t=%d kind=any_of spec=c;x,extra" % t,
            "hc t=%d kind=one_of spec=f;g,gamma" % t,
        ]
        w = ["-a", sp[0].join(["foo" + o(0) + "x", "Bar", "foo" + o(0) + "x", "q" + o(1) + "r"]),
             "--beta", sp[1].join(["3", "14", "159"]), sp[1].join(["26", "5"]),
             "-c", "MiXed" + o(2) + "y", "--delta", "99999" if broken != "check" else "100001",
             "-e", sp[2].join(["a", "xy", "bar"] if broken != "card" else ["a", "b", "c", "ab", "xy"]),
             "-h", sp[0].join(["u", "v" + o(3) + "w"] if broken != "cast" else ["u", "u"]),
             "-f" if t % 2 == 0 else "--gamma"]
        if t % 2 == 1:
            w.append(sp[3].join(["7", "5", "7", "1000"]))
        if broken == "constr":
            w += ["-f", "-g", "1"] if t % 2 == 0 else ["-f"]
        if broken == "hc":
            w = [x for x in w if x not in ("--beta",)][0:2] + w[5:]
        if broken == "mand":
            i = w.index("--delta")
            w = w[:i] + w[i + 2:]
        if broken == "unknown":
            w.append("--nosuch")
        lines.append("argv t=%d %s" % (t, " ".join(w)))
    lines.append("run n=%d reps=%d seed=%d" % (nthreads, reps, rng.randint(1, 10 ** 6)))
    return Case(cid, lines)


def sep_pair_cases(seps, reps):
    """exhaustive: every ordered pair of separators x {string, int} lists, two threads, values that contain
    both separators"""
    cases = []
    for a in seps:
        for b in seps:
            for kind in ("vec_str", "vec_int"):
                if kind == "vec_str":
                    va = a.join(["p" + b + "q", "r", "s" + b + "t"])
                    vb = b.join(["p" + a + "q", "r", "s" + a + "t"])
                else:
                    va, vb = a.join(["1", "22", "333"]), b.join(["4", "55", "666"])
                lines = ["arg t=0 key=v kind=%s sep=%s" % (kind, a), "argv t=0 -v %s -v %s" % (va, va),
                         "arg t=1 key=w,words kind=%s sep=%s" % (kind, b), "argv t=1 --words %s -w %s" % (vb, vb),
                         "run n=2 reps=%d seed=%d" % (reps, 1 + len(cases))]
                cases.append(Case("xs%d" % len(cases), lines))
    return cases


def generate(prop, tier, seed, scale=1):
    rng = random.Random("%s-%s" % (prop, seed))
    # scale > 1: a proof obligation or the tie is broken and check.py asks for a directed search.  The saturated
    # workloads (every feature in every thread) are the directed part: they are tripled, the random ones doubled.
    # Everything is handed over in small batches, small thread counts first, so that the first failures (the ones
    # check.py shrinks) are small and a search that fails everywhere stops early.
    directed = scale > 1
    if tier == "quick":
        nrand, reps, nsat = 70, 6, 8
    else:
        nrand, reps, nsat = 500, 12, 60
    if directed:
        nrand, nsat = 2 * nrand, 3 * nsat
    nhelp = (6 if tier == "quick" else 40) * (3 if directed else 1)
    hsizes = sorted(([2, 2, 3, 4, 2, 8] * (nhelp // 6 + 1))[:nhelp])
    yield ("usage threads (-h on the own command line: Handler::usage -> Singleton<Groups>), first use forced "
           "through the sync points of instance() / free running"), \
        [help_case(rng, "h%d" % i, n, 3, i % 3 != 2) for i, n in enumerate(hsizes)]
    nfilec = (6 if tier == "quick" else 36) * (3 if directed else 1)
    fsizes = sorted(([2, 2, 3, 4, 3, 8] * (nfilec // 6 + 1))[:nfilec])
    yield ("a thread that reads its arguments from a file / environment variable of its own (addArgumentFile, hfReadProgArg "
           "with $HOME/.progargs/<prog>.pa under a scratch HOME, hfEnvVarArgs) beside plain threads whose acceptance depends "
           "on the cardinality check; plain jobs forced into the middle of the file / free running with long files"), \
        [file_case(rng, "f%d" % i, n, 3 if i % 3 != 2 else reps, i % 3 != 2, 1 if (i % 3 != 2 or n < 4) else 2)
         for i, n in enumerate(fsizes)]
    ngroup = (9 if tier == "quick" else 60) * (3 if directed else 1)
    gsizes = sorted(([2, 2, 3, 4, 3, 8] * (ngroup // 6 + 1))[:ngroup])
    yield ("a group thread beside stand-alone threads (handlers of Groups::instance() registered / evaluated / removed in a "
           "loop while stand-alone handlers with shared keys call addBracketHandler), stand-alone jobs forced between "
           "registration and removal / free running"), \
        [group_case(rng, "p%d" % i, n, 3 if i % 3 != 2 else reps, i % 3 != 2) for i, n in enumerate(gsizes)]
    sizes = sorted(([2, 3, 2, 4, 8, 2, 16, 4] * (nsat // 8 + 1))[:nsat])
    sat = [saturated_case(rng, "s%d" % i, n, reps if n <= 8 else max(3, reps // 2)) for i, n in enumerate(sizes)]
    for k in range(0, len(sat), 8):
        yield "saturated (every feature in every thread) #%d" % (k // 8), sat[k:k + 8]
    cases = []
    for i in range(nrand):
        n = rng.choice([2, 2, 2, 3, 4, 4, 6, 8, 8, 12, 16])
        cases.append(workload(rng, "g%d" % i, n, reps if n <= 8 else max(3, reps // 2), rng.choice([0.0, 0.5, 0.5, 1.0])))
    for k in range(0, len(cases), 35):
        yield "generated #%d" % (k // 35), cases[k:k + 35]
    if tier == "quick":
        yield "exhaustive separator pairs over 4 separators x {vec_str,vec_int}, 2 threads", sep_pair_cases(",;:.", 10)
    else:
        yield "exhaustive separator pairs over 11 separators x {vec_str,vec_int}, 2 threads", sep_pair_cases(SEPS, 20)
