"""component plugin: celma::container::DynamicBitset and its iterators (C12)"""
import itertools
import random
import re

import vlib
from vlib import Case, Problem

COMPONENT = "dynbitset"
DRIVER = "model-dynbitset"

PROPERTIES = {
    "C12": {
        "lean_module": "CelmaVerif.Props.C12",
        "kind": "functional",
        "trusted": [
            "hand-written model CelmaVerif/Model/DynBitset.lean of dynamic_bitset.cpp / dynamic_bitset.hpp / "
            "detail/dynamic_bitset_iterator.hpp (loops, index expressions and guards as coded, every mData[i] checked), "
            "tied by the correspondence run (harness/dyn_bitset.cpp, in-process, ASan+UBSan) on every invocation",
            "the reference bit vector DynBitset.Ref (specification side, same file) and the C++ shadow reference in the "
            "harness (std::vector<bool>, written independently; cross-checked against the Lean model line by line)",
            "std::vector<bool> (resize, flip, clear, copy, ==), std::find/std::count, std::string as modelled",
        ],
        "assumptions": [
            "positions and shift distances below 2^51 are an explicit hypothesis of the theorems (posLimit; beyond it the "
            "model answers oob 'not modelled'): (pos + 1) * 1.5 in double is then exactly floor((pos+1)*3/2), pos + 1 and "
            "size + pos do not wrap, ssize_t holds every position",
            "still assumed: vector sizes below vector<bool>::max_size() and the vector can be allocated (a failing "
            "allocation inside a noexcept(true) operator terminates the program)",
            "reset() (no argument) is outside the refinement theorem: recorded finding reset-all-empties",
        ],
    }
}

RULE = ("cases are independent histories over up to three named bitsets; one evaluation = one operation line run on the "
        "real class (with the harness' shadow-reference oracle) and on the Lean model; distinct_nontrivial = distinct "
        "(operation, kind of argument, result class, size class of the target before/after: empty / <64 / >=64) tuples")

FINDING_RESET = "reset-all-empties"
_known = None


def known_ids():
    global _known
    if _known is None:
        _known = {f["id"] for f in vlib.load_findings()["findings"] if f.get("property") == "C12"}
    return _known


def build_harness(work, prop):
    return vlib.build_harness(work, "harness/dyn_bitset.cpp", ["src/library/container/dynamic_bitset.cpp"])


def judge(prop, case, impl, model):
    """line-by-line equality.  A '!!' line is a failure of the property's oracle on the implementation alone (the
    harness re-synchronises its shadow afterwards, so the rest of the case is still compared).  The recorded
    finding (reset() empties the vector) gets its own kind so that shrinking another failure of the same case can
    never end up at the finding and be suppressed."""
    probs = []
    ops = ["case " + case.cid] + case.lines
    for i, op in enumerate(ops):
        a = impl[i] if i < len(impl) else None
        b = model[i] if i < len(model) else None
        if (a is not None and a.startswith("bad-op")) or (b is not None and b.startswith("bad-op")):
            probs.append(Problem("badop", case, i, op, a, b))
            break
        if a is not None and a.startswith("!!"):
            known = (FINDING_RESET in known_ids() and re.match(r"dbs resetall \S+$", op)
                     and a.startswith("!! differs from the reference bit vector") and " size=0 " in a)
            probs.append(Problem("known-oracle" if known else "oracle", case, i, op, a, b))
            rest = a.split("; ", 1)[1] if "; " in a else a
            if rest != b:
                if not known:
                    break
                probs.append(Problem("diff", case, i, op, rest, b))
                break
            continue
        if a != b:
            probs.append(Problem("diff", case, i, op, a, b))
            break
    real = [p for p in probs if p.kind != "known-oracle"]
    return real if real else probs[:1]


def diff_is_failure(prop, p):
    # functional property: the model is proved equal to the reference on everything the lines show
    return True


def _cls(n):
    return "0" if n == 0 else "<64" if n < 64 else ">=64"


def nontrivial_key(op, result):
    w = op.split(" ")
    r = (result or "").split(" ")
    if r and r[0] == "!!":
        return None
    name = w[1]
    arg = ""
    if name not in ("new", "newn") and len(w) > 3:
        arg = w[3] if w[3].startswith("@") else ("num" if w[3].isdigit() else "name")
    rc = " ".join(r[:2]) if r and r[0] == "throw" else (r[0] if r else "")
    m = re.search(r"size=(\d+)", result or "")
    size = _cls(int(m.group(1))) if m else ""
    extra = ""
    if rc == "ok" and len(r) == 2:
        extra = "empty" if r[1] == "-" else "val"
    return (name, arg, rc, size, extra)


# --------------------------------------------------------------------------
# generators

SIZES = [0, 0, 1, 2, 3, 4, 5, 7, 8, 16, 31, 32, 33, 63, 64, 64, 65, 66, 70, 127, 128, 129]
SYMS = ["@size-1", "@size", "@size", "@size+1", "@size*2"]
SHIFTS = ["0", "1", "@size-1", "@size", "@size+1", "@size*3"]
MAXSIZE = 700
BITSET_N = [0, 1, 2, 3, 4, 5, 6, 7, 8, 9, 16, 31, 32, 33, 63, 64, 65, 70, 128]   # std::bitset<N> instantiated in the harness
STR_CHARS = ".x#ab01_"


def rand_script(rng):
    """iterator walk: optional start at the end position, then pre/post increments and decrements"""
    body = "".join(rng.choice("++--pm") for _ in range(rng.randint(1, 9)))
    return ("e" if rng.random() < 0.4 else "") + body


def rand_bits(rng, n):
    style = rng.random()
    if style < 0.15:
        return "0" * n or "-"
    if style < 0.3:
        return "1" * n or "-"
    if style < 0.4 and n:
        i = rng.randrange(n)
        return "0" * i + "1" + "0" * (n - i - 1)
    dens = rng.choice([0.1, 0.5, 0.9])
    return "".join("1" if rng.random() < dens else "0" for _ in range(n)) or "-"


def resolve(sym, size):
    return {"@size": size, "@size-1": max(size - 1, 0), "@size+1": size + 1, "@size*2": size * 2,
            "@size*3": size * 3}.get(sym, None) if sym.startswith("@") else int(sym)


def random_case(rng, cid):
    """a history over the bitsets a, b, c; sizes are tracked (as the implementation evolves them) only to keep
    them small"""
    sizes = {}
    lines = []
    for n in rng.sample(["a", "b", "c"], rng.choice([1, 2, 2, 3])):
        k = rng.choice(SIZES)
        if rng.random() < 0.2:
            lines.append("dbs newn %s %d" % (n, k))
        elif rng.random() < 0.1 and k in BITSET_N:
            lines.append("dbs newbs %s %s" % (n, rand_bits(rng, k)))
        else:
            lines.append("dbs new %s %s" % (n, rand_bits(rng, k)))
        sizes[n] = k
    names = sorted(sizes)
    resets = 0
    for _ in range(rng.randint(1, 14)):
        n = rng.choice(names)
        s = sizes[n]
        kind = rng.random()
        if kind < 0.30:       # positional modifiers
            op = rng.choice(["set", "set", "reset", "flip", "idxset", "idx"])
            pos = rng.choice(SYMS + [str(rng.randint(0, s + 3)), str(rng.randint(0, 2 * s + 3)), "0", "63", "64"])
            p = resolve(pos, s)
            ns = s if p < s else (p + 1) * 3 // 2
            if ns > MAXSIZE:
                continue
            sizes[n] = ns
            if op in ("set", "idxset"):
                lines.append("dbs %s %s %s %d" % (op, n, pos, rng.randint(0, 1)))
            else:
                lines.append("dbs %s %s %s" % (op, n, pos))
        elif kind < 0.42:     # positional observers
            op = rng.choice(["test", "cidx"])
            pos = rng.choice(SYMS + [str(rng.randint(0, s + 2)), "0"])
            lines.append("dbs %s %s %s" % (op, n, pos))
        elif kind < 0.52:
            op = rng.choice(["setall", "flipall", "flipall", "obs", "resetall"])
            if op == "resetall":
                if resets >= 1 or rng.random() < 0.7:
                    continue
                resets += 1
                sizes[n] = 0
            lines.append("dbs %s %s" % (op, n))
        elif kind < 0.58:
            k = rng.choice(["0", "@size", "@size-1", "@size+1", str(rng.randint(0, s + 5)), "64", "65"])
            ns = resolve(k, s)
            if ns > MAXSIZE:
                continue
            sizes[n] = ns
            lines.append("dbs resize %s %s %d" % (n, k, rng.randint(0, 1)))
        elif kind < 0.72:     # shifts
            op = rng.choice(["shl=", "shr=", "shl", "shr"])
            k = rng.choice(SHIFTS + [str(rng.randint(0, s + 3)), "63", "64", "65"])
            kv = resolve(k, s)
            grown = s + kv if (s and kv and op.startswith("shl")) else s
            if grown > MAXSIZE:
                continue
            if op.endswith("="):
                sizes[n] = grown
                lines.append("dbs %s %s %s" % (op, n, k))
            else:
                d = rng.choice(["a", "b", "c"])
                sizes[d] = grown
                if d not in names:
                    names = sorted(names + [d])
                lines.append("dbs %s %s %s %s" % (op, n, k, d))
        elif kind < 0.88:     # logic
            o = rng.choice(names)
            op = rng.choice(["and", "or", "xor"])
            so = sizes[o]
            res = s if op == "and" else max(s, so)
            if rng.random() < 0.5:
                sizes[n] = res
                lines.append("dbs %s= %s %s" % (op, n, o))
            else:
                d = rng.choice(["a", "b", "c"])
                sizes[d] = res
                if d not in names:
                    names = sorted(names + [d])
                lines.append("dbs %s %s %s %s" % (op, n, o, d))
        elif kind < 0.92:
            d = rng.choice(["a", "b", "c"])
            sizes[d] = s
            if d not in names:
                names = sorted(names + [d])
            lines.append("dbs %s %s %s" % (rng.choice(["not", "copy"]), n, d))
        elif kind < 0.94:
            lines.append("dbs eq %s %s" % (n, rng.choice(names)))
        elif kind < 0.96:
            lines.append("dbs %s %s" % (rng.choice(["fwd", "rev"]), n))
        elif kind < 0.98:
            lines.append("dbs %s %s %s" % (rng.choice(["it", "rit"]), n, rand_script(rng)))
        elif kind < 0.99:
            lines.append("dbs strc %s %s %s" % (n, rng.choice(STR_CHARS), rng.choice(STR_CHARS)))
        else:
            k = rng.choice(BITSET_N)
            sizes[n] = k
            lines.append("dbs asgbs %s %s" % (n, rand_bits(rng, k)))
    for n in names:
        lines.append("dbs fwd %s" % n)
        lines.append("dbs rev %s" % n)
        lines.append("dbs it %s %s" % (n, rand_script(rng)))
        lines.append("dbs rit %s %s" % (n, rand_script(rng)))
    return Case(cid, lines)


def all_bits(maxlen):
    yield "-"
    for n in range(1, maxlen + 1):
        for t in itertools.product("01", repeat=n):
            yield "".join(t)


def exhaustive_cases(maxlen, maxarg, maxother, with_reset):
    """every bitset of size <= maxlen x every single operation x every position / shift distance <= maxarg
    (x every second operand of size <= maxother for the two-operand operations), each followed by both iterations"""
    cases = []
    k = 0
    tail = ["dbs fwd r", "dbs rev r"]
    # every bitset: walks with all four iterator operators from both start positions, other to_string
    # characters, construction from / assignment of a std::bitset<N>
    walks = ["e---+++", "pm-+", "+-+-", "epmm", "--++", "mp"]
    for bits in all_bits(maxlen):
        k += 1
        lines = ["dbs newbs r %s" % bits, "dbs strc r . x"]
        for w in walks:
            lines += ["dbs it r %s" % w, "dbs rit r %s" % w]
        for other in all_bits(min(maxother, 3)):
            lines += ["dbs asgbs r %s" % other, "dbs fwd r"]
        cases.append(Case("x%d" % k, lines))
    nullary = ["setall", "flipall", "obs"] + (["resetall"] if with_reset else [])
    for bits in all_bits(maxlen):
        head = "dbs new r %s" % bits
        for op in nullary:
            k += 1
            cases.append(Case("x%d" % k, [head, "dbs %s r" % op] + tail))
        k += 1
        cases.append(Case("x%d" % k, [head, "dbs not r r"] + tail))
        for arg in range(maxarg + 1):
            for op in ("set r %d 0", "set r %d 1", "reset r %d", "flip r %d", "idxset r %d 0", "idxset r %d 1", "idx r %d",
                       "test r %d", "cidx r %d", "resize r %d 0", "resize r %d 1", "shl= r %d", "shr= r %d", "shl r %d r",
                       "shr r %d r"):
                k += 1
                cases.append(Case("x%d" % k, [head, "dbs " + op % arg] + tail))
        for other in all_bits(maxother):
            k += 1
            lines = [head, "dbs new o %s" % other, "dbs eq r o"]
            for op in ("and", "or", "xor"):
                lines += ["dbs %s r o d" % op, "dbs copy r s", "dbs %s= s o" % op, "dbs eq s d", "dbs fwd s", "dbs rev s"]
            cases.append(Case("x%d" % k, lines))
    return cases


def generate(prop, tier, seed, scale=1):
    rng = random.Random("%s-%s" % (prop, seed))
    ncases = (2500 if tier == "quick" else 120000) * scale
    yield "generated", [random_case(rng, "g%d" % i) for i in range(ncases)]
    if tier == "quick":
        yield "exhaustive size<=4 args<=4 second operand size<=3", exhaustive_cases(4, 4, 3, False)
    else:
        yield "exhaustive size<=6 args<=8 second operand size<=4", exhaustive_cases(6, 8, 4, False)
