"""component plugin: the usage listing of prog_args::Handler (C18)"""
import itertools
import os
import random

import vlib
from vlib import Case

COMPONENT = "usage"
DRIVER = "model-usage"

PROPERTIES = {
    "C18": {
        "lean_module": "CelmaVerif.Props.C18",
        "kind": "functional",
        "trusted": [
            "hand-written model CelmaVerif/Model/Usage.lean of argument_desc.cpp / usage_params.cpp / "
            "Handler::usage, helpArgument, handleStartFlags / ArgumentContainer::findArg, tied by the correspondence "
            "run (harness/usage.cpp drives a real Handler in-process, ASan+UBSan; usage text compared byte-exactly) "
            "on every invocation",
            "CelmaVerif/Model/TextBlock.lean (component textblock, property C17) for the description block; "
            "its theorems C17_words_lines / C17_indent / C17_lines are used by the C18 proofs",
            "iostream setw/left, std::string append, ostringstream << int as modelled (padRight, ++, decimal)",
            "the usage-text reader of the specification (Lemmas/UsageSpec.lean `classify`/`parseUsage`: caption lines, entry lines = 3 blanks "
            "+ non-blank, continuation lines) - the same rule the harness oracle implements in C++",
        ],
        "assumptions": [
            "keys contain no blank and no newline (ArgumentKey rejects blanks; newlines are outside the quantifier)",
            "no visible optional argument requests its default value without having one (a bool flag with "
            "setPrintDefault(true) makes usage() throw std::runtime_error - as coded, outside the quantifier; the "
            "theorems say exactly when that happens)",
            "usage texts (IUsageText), Groups::displayUsage, help-arg-full, custom captions and sub-groups below a "
            "sub-group are not modelled; the generators stay outside them",
            "the command-line evaluation that reaches the help arguments is shared model A (C01-C04); here only the "
            "effect of the standard arguments of the main handler and of a sub-group handler on the one shared "
            "UsageParams object is modelled (command lines: main standard arguments, the sub-group argument, the "
            "sub-group handler's standard arguments, its help argument); an exception of the main handler's final "
            "checks after a sub-group handler finished its usage is not part of the listing",
        ],
    }
}

RULE = ("cases are independent handlers; one evaluation = one protocol line run on the real Handler and on the Lean "
        "model (every usage/helparg query runs on a freshly rebuilt Handler); distinct_nontrivial = distinct "
        "(operation, switches or key form, result class, captions present, same-line or two-line layout, "
        "notes present) tuples")

LIB_DIRS = ("prog_args", "common", "format", "appl", "container")


def repo_sources():
    res = []
    for comp in LIB_DIRS:
        top = os.path.join(vlib.REPO, "src", "library", comp)
        for d, _, fs in os.walk(top):
            if "/test" in d[len(top):] or d.endswith("/test"):
                continue
            for f in sorted(fs):
                if f.endswith(".cpp") and f != "print_version_info.cpp":
                    res.append(os.path.relpath(os.path.join(d, f), vlib.REPO))
    return sorted(res)


LAKE_BLOCK = '\n[[lean_exe]]\nname = "model-usage"\nroot = "Drivers.Usage"\n'


def ensure_driver_target():
    """the driver has its own lean_exe entry, appended once (append-only, under the lake lock)"""
    lf = os.path.join(vlib.LEAN, "lakefile.toml")
    if 'name = "model-usage"' in open(lf).read():
        return
    with vlib.LakeLock():
        if 'name = "model-usage"' not in open(lf).read():
            with open(lf, "a") as f:
                f.write(LAKE_BLOCK)


def build_harness(work, prop):
    ensure_driver_target()
    drv = vlib.driver_path(DRIVER)
    if not os.path.exists(drv):
        vlib.lake_build([DRIVER])
    return vlib.build_harness(work, "harness/usage.cpp", repo_sources())


def diff_is_failure(prop, p):
    """The model is proved to list exactly the visible arguments and to answer help-arg with the argument's
    description / 'unknown'; the text is compared byte-exactly.  A difference on a query is a failing input;
    a difference on a configuration line (arg / begin / linelen) is a broken tie only."""
    return p.line.startswith(("us usage", "us helparg", "us subusage", "us subhelparg"))


def unhex(h):
    if not h or h == "-":
        return ""
    try:
        return bytes.fromhex(h).decode("latin-1")
    except ValueError:
        return ""


def nontrivial_key(op, result):
    w = op.split(" ")
    r = (result or "").split(" ")
    if len(w) < 2:
        return None
    if w[1] in ("usage", "subusage"):
        text = ""
        for x in r[1:]:
            if x.startswith("text="):
                text = unhex(x[5:])
        lines = text.split("\n")
        entries = [l for l in lines if l.startswith("   ") and len(l) > 3 and l[3] != " "]
        two_line = any(" " not in l[3:] for l in entries) and any(l.startswith("      ") and l[6:7] != " " for l in lines)
        notes = tuple(n in text for n in ("Default value:", "Check:", "Constraint:", "[deprecated]", "[replaced by", "[hidden]"))
        sw = tuple(sorted(w[2:])) if w[1] == "usage" else tuple(sorted(x for x in w[2:] if not x.startswith("k=")))
        return (w[1], sw, r[0], " ".join(r[1:2]) if r[0] == "throw" else "",
                "Mandatory arguments:" in lines, "Optional arguments:" in lines, two_line, min(len(entries), 3), notes)
    if w[1] in ("helparg", "subhelparg"):
        kw = w[-1]
        form = ("slash-" if "/" in kw else "") + ("both" if "," in kw else ("short" if len(kw.split("/")[-1]) == 1 else "long"))
        out = err = ""
        for x in r[1:]:
            if x.startswith("out="):
                out = unhex(x[4:])
            if x.startswith("err="):
                err = unhex(x[4:])
        return (w[1], form, r[0], " ".join(r[1:2]) if r[0] == "throw" else "", bool(out), bool(err),
                out.count("\n") > 2)
    if w[1] in ("arg", "subarg", "group"):
        feats = tuple(sorted(x.split("=")[0] for x in w[2:] if not x.startswith(("key=", "desc=", "value="))))
        return (w[1], feats, " ".join(r[:2]))
    return (w[1], " ".join(r[:2]))


def shrink_keep(line):
    return line.startswith(("us begin", "us sub "))


# --------------------------------------------------------------------------------------------------
# generators

def hx(s):
    return s.encode("latin-1").hex() or "-"


VOCAB = ["the", "a", "value", "of", "file", "name", "to", "read", "from", "output", "level", "sets", "maximum",
         "number", "entries", "path", "-", "--", "-x", "nn", "x", "I/O", "(default)", "e.g.", "list:", "timeout",
         "seconds", "verbose", "quiet", "mode", "colour", "Mandatory", "arguments:", "Optional", "Usage:"]
LONGW = ["supercalifragilisticexpialidocious", "x" * 60, "y" * 77, "z" * 90, "http://example.org/" + "p" * 40]
RESERVED = {"h", "help", "help-arg", "print-hidden", "print-deprecated", "help-short", "help-long"}


def gen_desc(rng):
    style = rng.random()
    if style < 0.08:
        return ""
    n = rng.choice([0, 1, 2, 3, 5, 8, 12, 20, 30, rng.randint(0, 30)])
    out = []
    for i in range(n):
        r = rng.random()
        if r < 0.06:
            wd = rng.choice(LONGW)
        elif r < 0.12:
            wd = "w" * rng.randint(1, 25)
        else:
            wd = rng.choice(VOCAB)
        out.append(wd)
        if i + 1 < n:
            r = rng.random()
            out.append("\n" if r < 0.08 else "\n- " if r < 0.11 else "  " if r < 0.15 else "\n\n" if r < 0.17 else " ")
    s = "".join(out)
    if rng.random() < 0.05:
        s = " " + s + " "
    if rng.random() < 0.04:
        s = "\n" + s + "\n"
    return s


def long_key(rng, n, used):
    alpha = "abcdefgijklmnopqrstuvwxyz"
    for _ in range(50):
        w = rng.choice(alpha) + "".join(rng.choice(alpha + "-_0123456789") for _ in range(n - 1))
        if w.endswith("-"):
            w = w[:-1] + "q"
        if w not in used and w not in RESERVED and not any(w.startswith(r) or r.startswith(w) for r in RESERVED):
            return w
    return None


FLAG_NAMES = ["hshort", "hlong", "harg", "ahidden", "adepr", "ushort", "ulong", "uhidden", "udepr", "noabbr"]


def gen_flags(rng):
    style = rng.random()
    if style < 0.5:
        fl = ["hshort", "hlong", "harg", "ahidden", "adepr", "ushort", "ulong"]
    else:
        fl = [f for f in FLAG_NAMES[2:7] if rng.random() < 0.7]
        fl = rng.choice([["hshort"], ["hlong"], ["hshort", "hlong"]]) + fl
    for f in ("uhidden", "udepr"):
        if rng.random() < 0.12:
            fl.append(f)
    if rng.random() < 0.2:
        fl.append("noabbr")
    return fl


def switch_sets(fl, rng=None, all_sets=False):
    """the display settings reachable with the standard arguments the flags define"""
    opts = []
    hid = [[]] + ([["print-hidden"]] if "ahidden" in fl else [])
    dep = [[]] + ([["print-deprecated"]] if "adepr" in fl else [])
    con = [[]] + ([["help-short"]] if "ushort" in fl else []) + ([["help-long"]] if "ulong" in fl else [])
    for h in hid:
        for d in dep:
            for c in con:
                opts.append(h + d + c)
    if all_sets or rng is None:
        return opts
    k = rng.choice([1, 2, 3, len(opts)])
    pick = rng.sample(opts, min(k, len(opts)))
    # (--help-short and --help-long together are rejected by the library: "mContents has already been set")
    res = []
    for p in pick:
        p = list(p)
        if rng.random() < 0.3:
            rng.shuffle(p)
        res.append(p)
    return res


def gen_arg(rng, used_short, used_long, target_long_len=None, op="us arg", group=False):
    form = rng.choice(["s", "l", "b", "b"])
    if target_long_len is not None and form == "s":
        form = rng.choice(["l", "b"])
    short = lng = None
    if form in ("s", "b"):
        free = [c for c in "abcdefgijklmnopqrstuvwxyzABCDXYZ0123456789" if c not in used_short]
        if not free:
            form = "l"
        else:
            short = rng.choice(free)
    if form in ("l", "b"):
        n = target_long_len if target_long_len is not None else rng.choice([2, 2, 3, 4, 5, 6, 8, 10, 12, 16, 24, rng.randint(2, 30)])
        # abbreviation families: sometimes extend or cut an existing long key
        if used_long and target_long_len is None and rng.random() < 0.3:
            base = rng.choice(sorted(used_long))
            cand = base + rng.choice(["-x", "2", "file", "s"]) if rng.random() < 0.6 else base[:max(2, len(base) - rng.randint(1, 3))]
            lng = cand if cand not in used_long and cand not in RESERVED and len(cand) >= 2 and not cand.endswith("-") \
                and not any(cand.startswith(r) or r.startswith(cand) for r in RESERVED) else None
        if lng is None:
            lng = long_key(rng, max(2, n), used_long)
        if lng is None:
            return None
    if short is None and lng is None:
        return None
    key = ",".join(x for x in ((short, lng) if rng.random() < 0.8 else (lng, short)) if x)
    kind = "group" if group else rng.choice(["int", "int", "str", "flag"])
    toks = ["key=" + key] + ([] if group else ["kind=" + kind])
    if kind == "int" and rng.random() < 0.8:
        toks.append("value=%d" % rng.choice([0, 1, -1, 42, -7, 123456, 99999999, -99999999]))
    if kind == "str" and rng.random() < 0.8:
        toks.append("value=" + hx(rng.choice(["", "hello", "two words", "/tmp/file name.txt", "x" * 50])))
    r = rng.random()
    if group:
        if r < 0.1:
            toks.append("default=0")
        elif r < 0.13:
            toks.append("default=1")       # the base class has no default value: usage() throws
    elif r < 0.25:
        toks.append("default=0")
    elif r < 0.4 or (kind == "flag" and r < 0.45):
        toks.append("default=1")
    if rng.random() < (0.04 if kind == "flag" else 0.12 if group else 0.3):
        toks.append("mandatory=1")
    if rng.random() < 0.3:
        toks.append("hidden=1")
    r = rng.random()
    if group:
        r = 0.1 + r * 4.5      # a deprecated / replaced sub-group argument cannot be used any more: seldom
    if r < 0.2:
        toks.append("deprecated=1")
    elif r < 0.4:
        toks.append("replaced=" + hx(rng.choice(["-n", "--new-name", "new", "", "the new one"])))
    elif r < 0.43:
        toks += ["deprecated=1", "replaced=" + hx("--both")]
    if rng.random() < (0.3 if kind not in ("flag", "group") else 0.05):
        toks.append("check=" + rng.choice(["lower:3", "upper:100", "lower:-5;upper:9", "range:1:10", "upper:7;lower:2",
                                           "range:-3:3;lower:0", "lower:1;lower:2"]))
    if rng.random() < 0.15:
        toks.append("requires=" + rng.choice(["beta", "x", "other-arg", "b,beta"]))
    if rng.random() < 0.12:
        toks.append("excludes=" + rng.choice(["gamma", "y", "g,gamma"]))
    toks.append("desc=" + hx(gen_desc(rng)))
    if short:
        used_short.add(short)
    if lng:
        used_long.add(lng)
    return op + " " + " ".join(toks), short, lng


def help_queries(rng, shorts, longs, fl):
    qs = []
    pool = sorted(longs) + ["help", "help-arg", "print-hidden", "help-short"]
    for _ in range(rng.randint(1, 5)):
        r = rng.random()
        if r < 0.25 and shorts:
            q = rng.choice(sorted(shorts))
        elif r < 0.45 and longs:
            q = rng.choice(sorted(longs))
        elif r < 0.75 and pool:
            w = rng.choice(pool)
            q = w[:rng.randint(2, len(w))] if len(w) > 2 else w
            if q.endswith("-"):
                q = q[:-1]
        elif r < 0.85 and shorts and longs:
            q = rng.choice(sorted(shorts)) + "," + rng.choice(sorted(longs))
        elif r < 0.9:
            q = rng.choice(["h", "h,help", "help,h", "help-"])
            if q.endswith("-"):
                q = "help-s"
        else:
            q = rng.choice(["zz", "Q", "unknown-arg", "q,quux"])
        if len(q) >= 1:
            qs.append("us helparg " + q)
    return qs


SUB_FLAG_NAMES = ["hshort", "hlong", "harg", "adepr", "ushort", "ulong"]


def gen_sub_flags(rng):
    """flags for the sub-group constructor: mostly with an own help argument; hfUsageDeprecated sometimes (it
    switches the SHARED setting on), hfUsageHidden / hfArgHidden sometimes (the constructor ignores them)"""
    style = rng.random()
    if style < 0.35:
        fl = ["hshort", "hlong", "harg", "adepr", "ushort", "ulong"]
    elif style < 0.9:
        fl = rng.choice([["hshort"], ["hlong"], ["hshort", "hlong"]]) + [f for f in SUB_FLAG_NAMES[2:] if rng.random() < 0.5]
    else:
        fl = [f for f in SUB_FLAG_NAMES[2:] if rng.random() < 0.4]      # no help argument of its own
    if rng.random() < 0.1:
        fl.append("udepr")
    for f in ("uhidden", "ahidden"):
        if rng.random() < 0.08:
            fl.append(f)
    if rng.random() < 0.15:
        fl.append("noabbr")
    return fl


def sub_queries(rng, k, fl, sfl, shorts, longs):
    """usage of sub-group k after run-time setting arguments of the main handler (pre) and of the sub-group
    handler itself (in); single-argument help inside the sub-group and through the g/key form"""
    qs = []
    pre_opts = switch_sets(fl, all_sets=True)
    in_opts = switch_sets([f for f in sfl if f != "ahidden"], all_sets=True)
    combos = []
    for p in pre_opts:
        for i in in_opts:
            ncont = sum(1 for x in p + i if x in ("help-short", "help-long"))
            combos.append((p, i, ncont))
    ok = [c for c in combos if c[2] <= 1]
    twice = [c for c in combos if c[2] == 2]
    n = rng.choice([1, 2, 3, 5, len(ok)])
    pick = rng.sample(ok, min(n, len(ok)))
    # every single run-time setting argument of the main handler before the sub-group help
    for p in pre_opts:
        if len(p) == 1 and not any(q[0] == p and not q[1] for q in pick) and rng.random() < 0.7:
            pick.append((p, [], 0))
    if twice and rng.random() < 0.15:
        pick.append(rng.choice(twice))          # mContents set twice: rejected by the library
    for p, i, _ in pick:
        p, i = list(p), list(i)
        if rng.random() < 0.3:
            rng.shuffle(p)
            rng.shuffle(i)
        toks = ["us subusage", "k=%d" % k]
        if p:
            toks.append("pre=" + ",".join(p))
        if i:
            toks.append("in=" + ",".join(i))
        qs.append(" ".join(toks))
    return qs


def sub_help_queries(rng, k, gkey, fl, sfl, shorts, longs):
    qs = []
    pool = sorted(shorts) + sorted(longs) + ["help", "help-arg", "print-deprecated", "zz", "Q"]
    for _ in range(rng.randint(0, 3)):
        w = rng.choice(pool)
        if len(w) > 3 and rng.random() < 0.4:
            w = w[:rng.randint(2, len(w))].rstrip("-") or w
        r = rng.random()
        if "harg" in sfl and r < 0.5:
            qs.append("us subhelparg k=%d %s" % (k, w))
        elif "harg" in fl:
            g = gkey
            if rng.random() < 0.15:
                g = rng.choice(["zz", "q", gkey[:max(2, len(gkey) - 1)] if len(gkey) > 2 else gkey])
            qs.append("us helparg %s/%s" % (g, w))
    return qs


def random_case(rng, cid):
    fl = gen_flags(rng)
    lines = ["us begin flags=" + (",".join(fl) or "-")]
    shorts, longs = set(), set()
    nargs = rng.choice([0, 1, 1, 2, 3, 4, 6, 9])
    # sub-group handlers in about 45 % of the cases
    nsubs = rng.choice([0, 0, 0, 0, 0, 0, 1, 1, 1, 2, 3]) if rng.random() < 0.82 else 1
    # key lengths around the same-line threshold: the longest key string is 37..42 characters
    target = None
    if rng.random() < 0.4 and nargs > 0:
        target = rng.choice([37, 38, 39, 40, 41, 42])
    tpos = rng.randrange(nargs) if nargs else 0
    # where the sub-group handlers are constructed / attached among the main handler's arguments
    sub_pos = sorted(rng.randint(0, nargs) for _ in range(nsubs))
    subs = []          # (k, flags, shorts, longs, group key as typed after --help-arg)
    queries = []

    def make_sub():
        k = len(subs)
        sfl = gen_sub_flags(rng)
        lines.append("us sub flags=" + (",".join(sfl) or "-"))
        ss, sl = set(), set()
        n = rng.choice([0, 1, 2, 3, 3, 4, 6])
        starget = rng.choice([37, 38, 39, 40, 41, 42]) if n and rng.random() < 0.25 else None
        spos = rng.randrange(n) if n else 0
        for i in range(n):
            a = gen_arg(rng, ss, sl, (starget - rng.choice([2, 5])) if starget is not None and i == spos else None,
                        op="us subarg k=%d" % k)
            if a is None:
                continue
            lines.append(a[0])
            if rng.random() < 0.02:
                lines.append(a[0])
        if rng.random() < 0.92:
            # the sub-group argument of the main handler shares the main handler's key space (since 2dd61bc the
            # library checks a new key against mArguments AND mSubGroupArgs); a clash now and then: first a
            # sub-group argument with the key of a plain argument (refused, the handler stays unattached) ...
            if (shorts or longs) and rng.random() < 0.08:
                taken = rng.choice(sorted(shorts) + sorted(longs))
                lines.append("us group k=%d key=%s desc=%s" % (k, taken, hx("key of a plain argument")))
            g = gen_arg(rng, shorts, longs, None, op="us group k=%d" % k, group=True)
            if g is not None:
                lines.append(g[0])
                subs.append((k, sfl, ss, sl, g[1] or g[2]))
                return
        subs.append((k, sfl, ss, sl, None))

    for i in range(nargs + 1):
        while sub_pos and sub_pos[0] == i:
            sub_pos.pop(0)
            make_sub()
        if i == nargs:
            break
        tl = None
        if target is not None and i == tpos:
            tl = target - rng.choice([2, 5])          # "--word" or "-c,--word"
        a = gen_arg(rng, shorts, longs, tl)
        if a is None:
            continue
        lines.append(a[0])
        if rng.random() < 0.03:
            lines.append(a[0])      # the same key again: rejected by the storage
    if subs and rng.random() < 0.08:
        # ... and a plain argument with the key of a sub-group argument (refused since 2dd61bc; the unchanged tree
        # accepted both and listed the key twice)
        k, sfl, ss, sl, gk = rng.choice(subs)
        if gk:
            lines.append("us arg key=%s kind=int desc=%s" % (gk, hx("same key as the group")))
    if rng.random() < 0.2:
        lines.append("us linelen %d" % rng.choice([59, 60, 61, 79, 100, 239, 240, rng.randint(60, 239)]))
    if subs and rng.random() < 0.15:
        lines.append("us sublinelen k=%d %d" % (rng.choice(subs)[0], rng.choice([59, 60, 72, 120, 239, 240])))
    for sw in switch_sets(fl, rng):
        lines.append(("us usage " + " ".join(sw)).strip())
    for k, sfl, ss, sl, gk in subs:
        # (a sub-group handler without help argument or without sub-group argument cannot be asked)
        if gk and ("hshort" in sfl or "hlong" in sfl):
            lines += sub_queries(rng, k, fl, sfl, ss, sl)
        if gk:
            lines += sub_help_queries(rng, k, gk, fl, sfl, ss, sl)
    if "harg" in fl:
        lines += help_queries(rng, shorts, longs, fl)
    return Case(cid, lines)


ATTRS = [(m, h, d) for m in (0, 1) for h in (0, 1) for d in ("", "deprecated=1", "replaced=" + hx("-n"))]
FORMS = ["s", "l", "b"]
ALLFLAGS = ["hshort", "hlong", "harg", "ahidden", "adepr", "ushort", "ulong"]


def attr_line(idx, form, attr, longlen=5, desc="does something"):
    m, h, d = attr
    short = "ab"[idx]
    lng = ("alpha", "beta")[idx]
    if longlen != 5:
        lng = (lng * 20)[:longlen]
    key = {"s": short, "l": lng, "b": short + "," + lng}[form]
    toks = ["key=" + key, "kind=int", "value=%d" % (idx + 1)]
    if m:
        toks.append("mandatory=1")
    if h:
        toks.append("hidden=1")
    if d:
        toks.append(d)
    toks.append("desc=" + hx(desc))
    return "us arg " + " ".join(toks)


def exhaustive_cases(pairs):
    """every combination of mandatory/hidden/(deprecated|replaced) x short/long/both for one argument with key
    lengths around the same-line threshold, and (pairs) for two arguments, each under all 12 display settings"""
    cases = []
    sets = switch_sets(ALLFLAGS, all_sets=True)
    k = 0
    for form in FORMS:
        for attr in ATTRS:
            for ll in ((5,) if form == "s" else (5, 34, 35, 36, 37, 38, 39)):
                k += 1
                lines = ["us begin flags=" + ",".join(ALLFLAGS), attr_line(0, form, attr, ll, "one two\nthree")]
                lines += [("us usage " + " ".join(s)).strip() for s in sets]
                lines += ["us helparg a", "us helparg " + ("alpha" * 20)[:ll], "us helparg al"]
                cases.append(Case("x1.%d" % k, lines))
    if pairs:
        for f1, f2 in itertools.product(FORMS, repeat=2):
            for a1, a2 in itertools.product(ATTRS, repeat=2):
                k += 1
                lines = ["us begin flags=" + ",".join(ALLFLAGS), attr_line(0, f1, a1), attr_line(1, f2, a2)]
                lines += [("us usage " + " ".join(s)).strip() for s in sets]
                cases.append(Case("x2.%d" % k, lines))
    return cases


SUBALL = ["hshort", "hlong", "harg", "adepr", "ushort", "ulong"]


def sub_attr_line(idx, form, attr, desc="does something"):
    return attr_line(idx, form, attr, 5, desc).replace("us arg ", "us subarg k=0 ", 1)


def sub_setting_queries(main_fl, sub_fl, with_in):
    """sub-group usage after every combination of run-time setting arguments of the main handler (and of the
    sub-group handler), at most one contents argument - plus the two-contents combinations, which are rejected"""
    qs = []
    for p in switch_sets(main_fl, all_sets=True):
        for i in (switch_sets(sub_fl, all_sets=True) if with_in else [[]]):
            ncont = sum(1 for x in p + i if x.startswith("help-"))
            if ncont == 2 and not (p[-1] == "help-short" and len(p) == 1):
                continue
            toks = ["us subusage k=0"] + (["pre=" + ",".join(p)] if p else []) + (["in=" + ",".join(i)] if i else [])
            qs.append(" ".join(toks))
    return qs


def exhaustive_sub_cases():
    """one sub-group handler with one argument (attributes x key form, x preset flags of main / sub-group
    handler) under every main x sub-group setting combination; two arguments in the sub-group (attributes x key
    form, squared) under all 12 settings requested on the main handler"""
    cases = []
    k = 0
    group = "us group k=0 key=g,group desc=" + hx("the group")
    for form in FORMS:
        for attr in ATTRS:
            for mfl in ([[], ["uhidden"], ["udepr"], ["uhidden", "udepr"]] if form == "b" else [[]]):
                for sfl in ([[], ["udepr"]] if form == "b" else [[]]):
                    k += 1
                    lines = ["us begin flags=" + ",".join(ALLFLAGS + mfl), "us sub flags=" + ",".join(SUBALL + sfl),
                             sub_attr_line(0, form, attr, "one two\nthree"), group]
                    lines += sub_setting_queries(ALLFLAGS, SUBALL, True)
                    lines += ["us usage", "us subhelparg k=0 a", "us subhelparg k=0 al", "us helparg g/alpha",
                              "us helparg gr/a", "us helparg g", "us helparg x/a"]
                    cases.append(Case("x3.%d" % k, lines))
    for f1, f2 in itertools.product(FORMS, repeat=2):
        for a1, a2 in itertools.product(ATTRS, repeat=2):
            k += 1
            lines = ["us begin flags=" + ",".join(ALLFLAGS), "us sub flags=hshort", sub_attr_line(0, f1, a1),
                     sub_attr_line(1, f2, a2), group]
            lines += sub_setting_queries(ALLFLAGS, [], False)
            cases.append(Case("x4.%d" % k, lines))
    return cases


def generate(prop, tier, seed, scale=1):
    rng = random.Random("%s-%s" % (prop, seed))
    ncases = (2000 if tier == "quick" else 30000) * scale
    yield "generated", [random_case(rng, "g%d" % i) for i in range(ncases)]
    yield ("exhaustive 1 and 2 arguments: attributes x key form (x key length) x 12 display settings",
           exhaustive_cases(True))
    yield ("exhaustive sub-group handler with 1 and 2 arguments: attributes x key form (x preset flags) x display "
           "settings requested on the main handler (x on the sub-group handler)", exhaustive_sub_cases())
