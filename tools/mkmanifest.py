#!/usr/bin/env python3
"""assembles MANIFEST.json from tools/manifest.d/*.json (one check object per property) and
properties.jsonl (everything without a check is listed under not_applicable with the reason from
tools/manifest.d/not_applicable.json, default: not built yet)"""
import json, os
V = os.path.dirname(os.path.dirname(os.path.abspath(__file__)))
props = [json.loads(l)["id"] for l in open(os.path.join(V, "properties.jsonl"))]
d = os.path.join(V, "tools", "manifest.d")
checks, na = {}, {}
for f in sorted(os.listdir(d)):
    if f == "not_applicable.json":
        na = json.load(open(os.path.join(d, f)))
    elif f == "head.json":
        head = json.load(open(os.path.join(d, f)))
    elif f.endswith(".json"):
        c = json.load(open(os.path.join(d, f)))
        checks[c["property_id"]] = c
# only the properties listed in enabled.txt are claimed (builders write their manifest.d entry early)
enabled = set(open(os.path.join(d, "enabled.txt")).read().split())
checks = {k: v for k, v in checks.items() if k in enabled}
man = dict(head)
man["engines"][0]["serves_properties"] = sorted(checks)
man["checks"] = []
for p in props:
    if p in checks:
        c = checks[p]
        c.setdefault("quick_cmd", "python3 tools/check.py %s --tier quick" % p)
        c.setdefault("thorough_cmd", "python3 tools/check.py %s --tier thorough" % p)
        c.setdefault("evidence_file", "evidence/%s.json" % p)
        c.setdefault("replay_cmd_template", "python3 tools/check.py %s --replay {path}" % p)
        c.setdefault("engine", "lean4-proof+correspondence")
        man["checks"].append(c)
man["not_applicable"] = [{"property_id": p, "reason": na.get(p, "check not built yet in this commit (work in progress, see DESIGN.md section 9)")}
                         for p in props if p not in checks]
json.dump(man, open(os.path.join(V, "MANIFEST.json"), "w"), indent=1)
print("checks:", " ".join(sorted(checks)), "| not claimed:", " ".join(x["property_id"] for x in man["not_applicable"]))
