"""Generator family `value_list_case` (property C06, also C01/C02): where does a value list end?

One configuration per case: a multi-value vector<int> argument V (sometimes a second one W, sometimes with a
cardinality / initial content), a flag F and a value argument N in the main handler, one or two SUB-GROUP arguments
whose sub handlers have 0..3 arguments (flag, int, str, sometimes a multi-value vector of their own), with or without
a positional argument (vector, int or string), abbreviations on/off.  Then 6..12 `pa eval` lines.

Every line is spelled from an ABSTRACT command line, a list of items

    ("vec", i, [values])      use of the multi-value argument i of the main handler with ALL the values of this use
    ("flag", i)               use of the flag i of the main handler
    ("val", i, text)          use of the value argument i of the main handler
    ("pos", [words])          free words meant for the positional argument
    ("sub", j, [sub items])   use of sub-group argument j followed by uses of arguments of ITS handler
                              (sub items: ("flag", a) / ("val", a, text) / ("vec", a, [values]))

so the destination of every word is fixed before it is spelled: the values of a ("vec", ...) item become the value of
the key plus FREE WORDS directly behind it; the words of a ("pos", ...) item are free words too, and the generator
places such an item only where the documented reading gives a free word to the positional argument: at the start,
behind a flag, behind an argument with its value, and behind a sub-group visit whose handler has taken what it
wants (the sub-group argument ends the value list of the main handler's multi-value argument) - never directly behind
a ("vec", ...) item or behind a sub-group visit that ends in the sub handler's own multi-value argument (those free
words belong to that list and are part of its item).  The expectation `x-exp` is the fold of the items
(`_expect`): a container holds its initial content plus the values of its items in order; a scalar used twice, a
cardinality that is exceeded or not reached, a positional word without positional argument, a second word for a
scalar positional argument, a word that is no number for an int destination, a mandatory argument without value and
a multi-value key without value are errors (`throw`).  Nothing here follows the code's cursor / `mpLastArg`.

Keys: all short keys of one configuration differ, the long keys are prefix-free over the whole configuration (main
handler and sub handlers), and an abbreviation is used only when the handler that owns the key allows abbreviations
and the prefix matches one long key of the whole configuration - so no word can be read as a key of another level.
When a cardinality is set on a list, its values are spelled one per word (a cardinality counts value words).

Labels (`x-lbl=vl-<scenario>`), the first seven are the shape of seeded defect C06-4 (multi-value argument, then a
sub-group argument, then a free word the sub handler does not take):
    sub-free  sub-free-reuse  sub-bundle-free  two-subs-free  sub-ownlist-key-free  two-lists-sub-free
    sub-revisit-free
    sub-nofree  sub-ownlist  flag-free  val-free  ctl-list  ctl-pos-first  sub-first  flagbundle-sub-free
    missing-value  sub-reuse-nofree
"""
import gen_progargs as G
from vlib import Case

STR_WORDS = ["abc", "x", "hello", "Peter", "v1", "007", "q", "A", "12"]
V_CARDS = [None] * 6 + ["max:3", "max:4", "range:1:3", "range:2:5"]


def words_hex(ws):
    return " ".join(G.hx(w) for w in ws)


class VArg:
    def __init__(self, short, long, kind, multi=False, card=None, mandatory=False, init=None, pos=False):
        self.short, self.long, self.kind, self.multi = short, long, kind, multi
        self.card, self.mandatory, self.init, self.pos = card, mandatory, init, pos

    def keyspec(self):
        if self.pos:
            return "-"
        if self.short and self.long:
            return "%s,%s" % (self.short, self.long)
        return self.short or self.long

    def line(self):
        t = "pa arg key=%s kind=%s" % (self.keyspec(), self.kind)
        if self.multi:
            t += " multi"
        if self.card:
            t += " card=" + self.card
        if self.mandatory:
            t += " mandatory"
        if self.init:
            t += " init=" + self.init
        return t


class VSub:
    def __init__(self, short, long, args, abbr):
        self.short, self.long, self.args, self.abbr = short, long, args, abbr

    def keyspec(self):
        if self.short and self.long:
            return "%s,%s" % (self.short, self.long)
        return self.short or self.long

    def lines(self):
        return ["pa sub begin key=%s abbr=%d" % (self.keyspec(), self.abbr)] + [a.line() for a in self.args] + ["pa sub end"]


class VCfg:
    pass


def _prefix_free(rng, n):
    pool = list(G.LONGS)
    rng.shuffle(pool)
    out = []
    for l in pool:
        if all(not l.startswith(o) and not o.startswith(l) for o in out):
            out.append(l)
        if len(out) == n:
            break
    return out


def _config(rng):
    c = VCfg()
    c.abbr = rng.randint(0, 1)
    n_sub = 1 if rng.random() < 0.6 else 2
    sub_n = [rng.choice([0, 1, 2, 2, 3]) for _ in range(n_sub)]
    has_w = rng.random() < 0.35
    n_keys = 3 + (1 if has_w else 0) + n_sub + sum(sub_n)
    shorts = rng.sample(G.SHORTS, n_keys)
    longs = _prefix_free(rng, n_keys)

    def key(must_short=False):
        s, l = shorts.pop(), longs.pop()
        form = rng.choice(["short", "long", "both", "both", "both"])
        if must_short and form == "long":
            form = "both"
        return (s if form != "long" else None, l if form != "short" else None)

    main = []
    s, l = key()
    v = VArg(s, l, "vec", multi=True, card=rng.choice(V_CARDS))
    if rng.random() < 0.2:
        v.init = ",".join(str(rng.randint(50, 59)) for _ in range(rng.randint(1, 2)))
    main.append(v)
    if has_w:
        s, l = key()
        main.append(VArg(s, l, "vec", multi=True, card=rng.choice([None, None, None, "max:3"])))
    s, l = key(must_short=rng.random() < 0.7)
    main.append(VArg(s, l, "flag"))
    s, l = key()
    main.append(VArg(s, l, rng.choice(["int", "str"])))
    pk = rng.choice([None, None, None, "vec", "vec", "vec", "vec", "int", "int", "str"])
    if pk is not None:
        main.append(VArg(None, None, pk, mandatory=rng.random() < 0.2, pos=True))
    rng.shuffle(main)
    c.main = main
    c.subs = []
    for j in range(n_sub):
        sargs = []
        for k in range(sub_n[j]):
            s, l = key(must_short=rng.random() < 0.6)
            sargs.append(VArg(s, l, rng.choice(["flag", "flag", "int", "str"])))
        if sargs and rng.random() < 0.4:
            a = rng.choice(sargs)
            a.kind, a.multi = "vec", True
        s, l = key(must_short=rng.random() < 0.7)
        c.subs.append(VSub(s, l, sargs, rng.randint(0, 1)))
    c.all_longs = [a.long for a in main if a.long] + [s.long for s in c.subs if s.long] + \
                  [a.long for s in c.subs for a in s.args if a.long]
    c.vecs = [i for i, a in enumerate(main) if a.kind == "vec" and a.multi]
    c.flag = [i for i, a in enumerate(main) if a.kind == "flag"][0]
    c.val = [i for i, a in enumerate(main) if a.kind in ("int", "str") and not a.pos][0]
    pp = [i for i, a in enumerate(main) if a.pos]
    c.pos = pp[0] if pp else None
    return c


def _cfg_lines(rng, c):
    seq = [("a", i) for i in range(len(c.main))]
    for j in range(len(c.subs)):
        seq.insert(rng.randint(0, len(seq)), ("s", j))
    ks = [k for k, x in enumerate(seq) if x[0] == "s"]          # the sub-group arguments keep their order
    for k, j in zip(ks, range(len(c.subs))):
        seq[k] = ("s", j)
    lines = ["pa cfg begin abbr=%d" % c.abbr]
    for typ, i in seq:
        lines += [c.main[i].line()] if typ == "a" else c.subs[i].lines()
    return lines + ["pa cfg end"]


# ---- the expectation: fold of the abstract items ----------------------------------------------------------------

class _Throw(Exception):
    pass


def _is_int(t):
    return t.isdigit()


class _Fold:
    """destinations of one handler (main or sub) under the items given to it"""
    def __init__(self, args):
        self.args = args
        self.dest, self.n = [], [0] * len(args)
        for a in args:
            if a.kind == "vec":
                self.dest.append([int(x) for x in a.init.split(",")] if a.init else [])
            else:
                self.dest.append({"flag": 0, "int": 0, "str": ""}[a.kind])

    def _count(self, i, k=1):
        a = self.args[i]
        self.n[i] += k
        card = a.card if a.card else (None if a.kind == "vec" else "max:1")
        if card:
            p = card.split(":")
            hi = int(p[1]) if p[0] == "max" else int(p[2])
            if self.n[i] > hi:
                raise _Throw("too many values for %s" % a.keyspec())

    def give(self, i, text):
        """one value word for argument i"""
        a = self.args[i]
        if a.kind == "flag":
            self._count(i)
            self.dest[i] = 1
        elif a.kind == "int":
            self._count(i)
            if not _is_int(text):
                raise _Throw("not a number")
            self.dest[i] = int(text)
        elif a.kind == "str":
            self._count(i)
            self.dest[i] = text
        else:
            self._count(i)
            for t in text.split(","):
                if not _is_int(t):
                    raise _Throw("not a number")
                self.dest[i].append(int(t))

    def end(self, check_mandatory):
        for i, a in enumerate(self.args):
            if check_mandatory and a.mandatory and self.n[i] == 0:
                raise _Throw("mandatory")
            if a.card and a.card.startswith("range") and 0 < self.n[i] < int(a.card.split(":")[1]):
                raise _Throw("too few values")

    def show(self):
        out = ""
        for i, a in enumerate(self.args):
            d = self.dest[i]
            if a.kind == "flag":
                out += " %d:f=%d" % (i, d)
            elif a.kind == "int":
                out += " %d:i=%d" % (i, d)
            elif a.kind == "str":
                out += " %d:s=%s" % (i, G.hx(d))
            else:
                out += " %d:v=[%s]" % (i, ",".join(map(str, d)))
        return out


def _expect(c, items):
    """the result line of the abstract command line `items`, or 'throw'"""
    m = _Fold(c.main)
    ss = [_Fold(s.args) for s in c.subs]
    called = [0] * len(c.subs)

    def feed(f, it):
        if it[0] == "flag":
            f.give(it[1], None)
        elif it[0] == "val":
            f.give(it[1], it[2])
        else:
            if not it[2]:
                raise _Throw("a multi-value key needs a value")
            for w in it[2]:                 # value WORDS (a word may be a list `1,2`)
                f.give(it[1], w)
    try:
        for it in items:
            if it[0] == "pos":
                for w in it[1]:
                    if c.pos is None:
                        raise _Throw("free word, no positional argument")
                    m.give(c.pos, w)
            elif it[0] == "sub":
                called[it[1]] = 1
                for st in it[2]:
                    feed(ss[it[1]], st)
            else:
                feed(m, it)
        m.end(True)
        # the sub handler's own end checks never run (design of the library, see gen_progargs.SgHandler): a
        # cardinality lower bound / mandatory flag inside a sub handler is not generated here
    except _Throw:
        return "throw"
    out = "ok" + m.show()
    for j in range(len(c.subs)):
        out += " | s%d=%d%s" % (j, called[j], ss[j].show())
    return out


# ---- spelling ------------------------------------------------------------------------------------------------------

def _key_forms(c, a, abbr):
    sh = ["-" + a.short] if a.short else []
    lg, ab = [], []
    if a.long:
        lg.append("--" + a.long)
        if abbr:
            for k in range(1, len(a.long)):
                p = a.long[:k]
                if not p.endswith("-") and sum(1 for l in c.all_longs if l.startswith(p)) == 1:
                    ab.append("--" + p)
    return sh, lg, ab


def _key(rng, c, a, abbr, want_short=False):
    sh, lg, ab = _key_forms(c, a, abbr)
    if want_short and sh:
        return sh[0]
    r = rng.random()
    if sh and (r < 0.45 or not lg):
        return sh[0]
    if ab and r > 0.75:
        return rng.choice(ab)
    return lg[0]


def _tok(text, noval=False, force=False):
    # noval: a single-dash key that takes no value (flag / sub-group key): the next single-dash word may be bundled
    # onto it; force: bundle it with the next word whenever possible
    return [text, noval and not text.startswith("--"), force]


def _spell_value_arg(rng, key, value):
    if key.startswith("--"):
        return [_tok("%s=%s" % (key, value))] if rng.random() < 0.3 else [_tok(key), _tok(value)]
    return [_tok(key + value)] if rng.random() < 0.2 else [_tok(key), _tok(value)]


def _spell_vec(rng, key, words):
    if not words:
        return [_tok(key)]
    return _spell_value_arg(rng, key, words[0]) + [_tok(w) for w in words[1:]]


def _spell_item(rng, c, args, abbr, it, want_short=False, force=False):
    a = args[it[1]]
    key = _key(rng, c, a, abbr, want_short)
    if it[0] == "flag":
        return [_tok(key, True, force)]
    if it[0] == "val":
        return _spell_value_arg(rng, key, it[2])
    return _spell_vec(rng, key, it[2])


def _spell(rng, c, items, opts):
    toks = []
    prev = None
    for n, it in enumerate(items):
        if it[0] == "pos":
            assert prev is None or prev[0] in ("flag", "val", "pos") or \
                (prev[0] == "sub" and not (prev[2] and prev[2][-1][0] == "vec")), "free words would join a list"
            toks += [_tok(w) for w in it[1]]
        elif it[0] == "sub":
            s = c.subs[it[1]]
            bundle = opts.get("bundle_sub") == n
            toks.append(_tok(_key(rng, c, s, c.abbr, bundle or opts.get("short_sub") == n), True, bundle))
            for k, st in enumerate(it[2]):
                toks += _spell_item(rng, c, s.args, s.abbr, st, bundle and k == 0)
        else:
            fb = opts.get("bundle_flag") == n
            toks += _spell_item(rng, c, c.main, c.abbr, it, fb, fb)
        prev = it
    words = []
    k = 0
    while k < len(toks):
        text, noval, force = toks[k]
        while noval and k + 1 < len(toks) and toks[k + 1][0].startswith("-") and not toks[k + 1][0].startswith("--") \
                and len(toks[k + 1][0]) > 1 and (force or rng.random() < 0.08):
            k += 1
            text += toks[k][0][1:]
            noval, force = toks[k][1], toks[k][2]
        words.append(text)
        k += 1
    return words


# ---- abstract command lines ------------------------------------------------------------------------------------------

class _Line:
    """builder of one abstract command line: no scalar / flag is used twice"""
    def __init__(self, rng, c):
        self.rng, self.c = rng, c
        self.used_main = set()
        self.used_sub = [set() for _ in c.subs]
        self.room = {}
        for i in c.vecs:
            card = c.main[i].card
            self.room[i] = 99 if not card else int(card.split(":")[-1])

    def ints(self, k, one_per_word=True):
        rng = self.rng
        ws = [str(rng.randint(0, 40)) for _ in range(k)]
        if not one_per_word and k >= 2 and rng.random() < 0.15:
            p = rng.randrange(k - 1)
            ws[p:p + 2] = [ws[p] + "," + ws[p + 1]]
        return ws

    def vec(self, i=None, kmin=1, kmax=3):
        rng, c = self.rng, self.c
        if i is None:
            i = rng.choice(c.vecs)
        k = rng.randint(kmin, kmax)
        card = c.main[i].card
        if rng.random() < 0.85:                       # mostly inside the cardinality; sometimes beyond / below it
            if card and card.startswith("range") and i not in self.used_main:
                k = max(k, int(card.split(":")[1]))
            k = max(1, min(k, self.room[i]))
        self.used_main.add(i)
        self.room[i] -= k
        return ("vec", i, self.ints(k, c.main[i].card is not None))

    def flag(self):
        self.used_main.add(self.c.flag)
        return ("flag", self.c.flag)

    def val(self):
        a = self.c.main[self.c.val]
        self.used_main.add(self.c.val)
        return ("val", self.c.val, str(self.rng.randint(0, 99)) if a.kind == "int" else self.rng.choice(STR_WORDS))

    def can_flag(self):
        return self.c.flag not in self.used_main

    def can_val(self):
        return self.c.val not in self.used_main

    def tail_key(self):
        """a flag or value argument of the main handler that was not used yet, or nothing"""
        opts = ([self.flag] if self.can_flag() else []) + ([self.val] if self.can_val() else [])
        return [self.rng.choice(opts)()] if opts else []

    def sub_item(self, j, a):
        rng = self.rng
        arg = self.c.subs[j].args[a]
        if arg.kind == "flag":
            self.used_sub[j].add(a)
            return ("flag", a)
        if arg.kind == "vec":
            return ("vec", a, self.ints(rng.randint(1, 3), False))
        self.used_sub[j].add(a)
        return ("val", a, str(rng.randint(0, 99)) if arg.kind == "int" else rng.choice(STR_WORDS))

    def sub(self, j=None, n=None, last=None):
        """a visit of sub-group argument j with n uses of arguments of its handler; last: 'vec' = the visit ends in
        the sub handler's multi-value argument, 'novec' = it does not"""
        rng, c = self.rng, self.c
        if j is None:
            j = rng.randrange(len(c.subs))
        s = c.subs[j]
        if n is None:
            n = rng.choice([0, 1, 1, 2, 2])
        avail = [a for a in range(len(s.args)) if a not in self.used_sub[j]]
        rng.shuffle(avail)
        picked = avail[:n]
        if last == "vec":
            vs = [a for a in range(len(s.args)) if s.args[a].kind == "vec"]
            picked = [a for a in picked if a not in vs][:max(0, n - 1)] + [vs[0]]
        elif last == "novec" and picked and s.args[picked[-1]].kind == "vec":
            picked = [picked[-1]] + picked[:-1] if len(picked) > 1 else []
        return ("sub", j, [self.sub_item(j, a) for a in picked])

    def pos(self, kmin=1, kmax=3):
        rng, c = self.rng, self.c
        pk = None if c.pos is None else c.main[c.pos].kind
        if pk in (None, "vec"):
            return ("pos", self.ints(rng.randint(kmin, kmax), pk is None))
        k = 1 if rng.random() < 0.75 else 2            # a scalar takes one word; two are an error
        if pk == "int":
            return ("pos", self.ints(k))
        return ("pos", [rng.choice(STR_WORDS + ["7", "33"]) for _ in range(k)])


def _scenario(rng, c, name):
    """(label, items, spelling options) or None when the configuration cannot show the scenario"""
    L = _Line(rng, c)
    opts = {}
    subvec = [j for j, s in enumerate(c.subs) if any(a.kind == "vec" for a in s.args)]
    if name == "sub-free":
        items = [L.vec(), L.sub(last="novec"), L.pos()]
        if rng.random() < 0.3:
            items += L.tail_key()
    elif name == "sub-free-reuse":
        i = rng.choice(c.vecs)
        items = [L.vec(i, 1, 2), L.sub(last="novec"), L.pos(1, 2), L.vec(i, 1, 2)]
    elif name == "sub-bundle-free":
        js = [j for j, s in enumerate(c.subs) if s.short and any(a.short and a.kind != "vec" for a in s.args)]
        if not js:
            return None
        j = rng.choice(js)
        s = c.subs[j]
        a = rng.choice([k for k, x in enumerate(s.args) if x.short and x.kind != "vec"])
        first = L.sub_item(j, a)
        more = L.sub(j, rng.choice([0, 0, 1]), last="novec")[2]
        items = [L.vec(), ("sub", j, [first] + more), L.pos()]
        opts["bundle_sub"] = 1
    elif name == "two-subs-free":
        if len(c.subs) < 2:
            return None
        o = [0, 1]
        rng.shuffle(o)
        items = [L.vec(), L.sub(o[0], last="novec"), L.sub(o[1], last="novec"), L.pos()]
    elif name == "sub-ownlist-key-free":
        js = [j for j in subvec if len(c.subs[j].args) >= 2]
        if not js:
            return None
        j = rng.choice(js)
        s = c.subs[j]
        v = [k for k, x in enumerate(s.args) if x.kind == "vec"][0]
        o = rng.choice([k for k in range(len(s.args)) if k != v])
        items = [L.vec(), ("sub", j, [L.sub_item(j, v), L.sub_item(j, o)]), L.pos()]
    elif name == "two-lists-sub-free":
        if len(c.vecs) < 2:
            return None
        o = list(c.vecs)
        rng.shuffle(o)
        items = [L.vec(o[0], 1, 2), L.vec(o[1], 1, 2), L.sub(last="novec"), L.pos()]
    elif name == "sub-revisit-free":
        if not subvec:
            return None
        j = rng.choice(subvec)
        items = [L.sub(j, rng.choice([1, 2]), last="vec"), L.vec(), L.sub(j, rng.choice([0, 0, 1]), last="novec"), L.pos()]
    elif name == "sub-nofree":
        items = [L.vec(), L.sub(last="novec")]
        if rng.random() < 0.5:
            t = L.tail_key()
            items += t + ([L.pos(1, 2)] if t and rng.random() < 0.4 else [])
    elif name == "sub-ownlist":
        if not subvec:
            return None
        j = rng.choice(subvec)
        items = [L.vec(), L.sub(j, rng.choice([1, 2]), last="vec")]
        if rng.random() < 0.4:
            t = L.tail_key()
            items += t + ([L.pos(1, 2)] if t and rng.random() < 0.6 else [])
    elif name == "flag-free":
        items = [L.vec(), L.flag(), L.pos()]
        if rng.random() < 0.3:
            items.append(L.sub())
    elif name == "val-free":
        items = [L.vec(), L.val(), L.pos()]
        if rng.random() < 0.3:
            items.append(L.sub())
    elif name == "ctl-list":
        items = [L.vec(c.vecs[0], 1, 4)]
        if len(c.vecs) > 1 and rng.random() < 0.7:
            items.append(L.vec(c.vecs[1], 1, 3))
        if rng.random() < 0.5:
            items += (L.tail_key() if rng.random() < 0.5 else []) + [L.vec(rng.choice(c.vecs), 1, 2)]
        if rng.random() < 0.3:
            items += L.tail_key()
    elif name == "ctl-pos-first":
        items = [L.pos(1, 2), L.vec()]
        if rng.random() < 0.6:
            items.append(L.sub())
    elif name == "sub-first":
        items = [L.sub(last="novec"), L.vec()]
        if rng.random() < 0.4:
            t = L.tail_key()
            items += t + ([L.pos(1, 2)] if t else [])
    elif name == "flagbundle-sub-free":
        if not c.main[c.flag].short:
            return None
        js = [j for j, s in enumerate(c.subs) if s.short]
        if not js:
            return None
        items = [L.vec(), L.flag(), L.sub(rng.choice(js), last="novec"), L.pos()]
        opts["bundle_flag"] = 1                           # `-fg`: the flag and the sub-group key in one word
        opts["short_sub"] = 2
    elif name == "missing-value":
        i = rng.choice(c.vecs)
        items = (L.tail_key() if rng.random() < 0.3 else []) + [("vec", i, [])]
        r = rng.random()
        if r < 0.6:
            items.append(L.sub(last="novec"))
        elif r < 0.8:
            items += L.tail_key()
    elif name == "sub-reuse-nofree":
        i = rng.choice(c.vecs)
        items = [L.vec(i, 1, 2), L.sub(last="novec"), L.vec(i, 1, 2)]
        if rng.random() < 0.3:
            t = L.tail_key()
            items += t + ([L.pos(1, 2)] if t else [])
    else:
        raise ValueError(name)
    return name, items, opts


SEEDED_SHAPES = [("sub-free", 16), ("sub-free-reuse", 6), ("sub-bundle-free", 7), ("two-subs-free", 4),
                 ("sub-ownlist-key-free", 4), ("two-lists-sub-free", 4), ("sub-revisit-free", 3)]
OTHER_SHAPES = [("sub-nofree", 8), ("sub-ownlist", 8), ("flag-free", 9), ("val-free", 8), ("ctl-list", 7),
                ("ctl-pos-first", 6), ("sub-first", 6), ("flagbundle-sub-free", 4), ("missing-value", 2),
                ("sub-reuse-nofree", 4)]


def _pick(rng, table):
    t = sum(w for _, w in table)
    r = rng.random() * t
    for n, w in table:
        r -= w
        if r < 0:
            return n
    return table[-1][0]


def value_list_case(rng, cid):
    c = _config(rng)
    lines = _cfg_lines(rng, c)
    out = []
    for _ in range(rng.randint(6, 12)):
        seeded = rng.random() < 0.41
        sc = None
        for _try in range(8):
            sc = _scenario(rng, c, _pick(rng, SEEDED_SHAPES if seeded else OTHER_SHAPES))
            if sc is not None:
                break
        if sc is None:
            sc = _scenario(rng, c, "sub-free" if seeded else "sub-nofree")
        label, items, opts = sc
        ws = _spell(rng, c, items, opts)
        out.append("pa eval x-lbl=vl-%s x-exp=%s -- %s" % (label, G.hx(_expect(c, items)), words_hex(ws)))
    return Case(cid, [" ".join(l.split()) for l in lines + out])
