#!/bin/sh
# runs the repository's pinned test suite (guard off) and compares with BASELINE.json.stable_pass
ninja -C /repo/_build -k 0 >/tmp/celma_baseline_ninja.log 2>&1
ctest --test-dir /repo/_build -j8 --timeout 900 >/tmp/celma_baseline_ctest.log 2>&1
python3 - <<'PY'
import json,re,sys
want=set(t.split("::")[0] for t in json.load(open("/root/.vp/BASELINE.json"))["stable_pass"])
passed=set(re.findall(r"Test\s+#\d+:\s+(\S+)\s+\.+\s+Passed", open("/tmp/celma_baseline_ctest.log").read()))
missing=sorted(want-passed)
print("baseline: %d/%d stable tests pass" % (len(want&passed), len(want)))
if missing:
    print("NOT PASSING:", " ".join(missing)); sys.exit(1)
PY
