#!/bin/sh
# runs the repository's pinned test suite (guard off) and compares with BASELINE.json.stable_pass
# (serialised: several builders share /repo/_build)
exec 9>/tmp/celma_baseline.lock
flock 9
D=$(mktemp -d /tmp/celma_baseline.XXXXXX)
ninja -C /repo/_build -k 0 >$D/ninja.log 2>&1
ctest --test-dir /repo/_build -j8 --timeout 900 >$D/ctest.log 2>&1
python3 - "$D/ctest.log" <<'PY'
import json,re,sys
want=set(t.split("::")[0] for t in json.load(open("/root/.vp/BASELINE.json"))["stable_pass"])
passed=set(re.findall(r"Test\s+#\d+:\s+(\S+)\s+\.+\s+Passed", open(sys.argv[1]).read()))
missing=sorted(want-passed)
print("baseline: %d/%d stable tests pass" % (len(want&passed), len(want)))
if missing:
    print("NOT PASSING:", " ".join(missing)); sys.exit(1)
PY
rc=$?
rm -rf "$D"
exit $rc
