"""Generator family of the fourth seeded round (C07, source half): the ENDS of argument-file lines.

An abstract command line (list of (argument, value) uses) is delivered wholly or partly through the argument
file (`file=` line by line, or `fileraw=` the bytes as they are, last line terminated or not), partly through the
environment variable and the rest on argv.  The abstract reading of a file line is: the same words as on the
command line — a line is split at unquoted blanks only (tab and CR are ordinary characters of a word), a line that
is empty or whose FIRST character is '#' contributes nothing.  The shapes (label `x-lbl=le-<shape>`):

  end-bs / end-dq / end-sq      the LAST word of a file line is a string value ending in blank(s), the final blank
                                written `\\ ` / inside "…" / inside '…'
  end-bs-trail                  … backslash-escaped and followed by unescaped trailing blanks
  mid-bs / mid-dq / mid-sq      the same values in the middle of a line (control)
  lead-bs / lead-dq / lead-sq   values with leading blanks (`\\ x`, `" x"`), last word or not
  env-bs / env-dq / env-sq      the same values as the last word of the environment value (control)
  argv-blank                    the same values on argv (control)
  indent / trail / indent-trail blanks before the first word / unescaped blanks after the last word
  blankline / emptyline / comment   such lines between the others
  hash-indent-pos               ` # -a x`: '#' not in column 0 is a word; a positional string argument takes it
  hash-indent-free              … no positional argument: nobody takes the free value -> throw
  hash-indent-list              … directly behind the values of the multi-value int list: bad list value -> throw
  hash-quoted-col0              `'#' -a x` / `\\# -a x`: a quoted '#' in column 0 is a word (positional argument)
  hash-mid                      `-a #x`, `-a x#y`, `-a #` as a value (last word or not)
  cr-str                        `-a x\\r`: the CR is part of the last word (string value `x\\r`)
  cr-int / cr-flag / cr-list    `-n 5\\r`, `-f\\r`, `-l 1 2\\r`: not an int / unknown key -> throw
  cr-alone                      a line that is only a CR: the free value `\\r` (positional argument, else throw)
  crlf-file                     a CR/LF file (`fileraw=`): every line ends in a string value, which gets the CR
  tab-end / tab-in              a tab at the end of / inside a value (also glued `-a\\tx`: value `\\tx`)

Every `pa eval` line carries its own expectation, computed from the abstract uses alone (`G.expected`), or `throw`
when the abstract line is not valid (a value nobody takes, a text that is no int, an unknown key)."""
from vlib import Case
import gen_progargs as G

SPECIAL = " '\"\\"

END_BLANK = ["pad ", "pad ", "pad  ", " ", "   ", "q\\ ", " x ", "a b ", "x\t ", "#' ", "it's ", "say \"hi\" ", "-x ", "v1 "]
LEAD_BLANK = [" x", "  x", " a b", " #", " -x", " 'q"]
HASHV = ["#", "#x", "x#y", "#-a", "##", "x#", "# c"]
CRV = ["x\r", "pad\r", "Peter\r", "a b\r", "pad \r", "\r"]
TAB_END = ["x\t", "a b\t", "\t", "x\t\t"]
TAB_IN = ["x\ty", "\tx", "a\t b", "\t\tq"]
ORD = G.WORDS + ["a b", "it's", "x=y", "C:\\dir", "say \"hi\"", "7"]

STR_KEYS = [("a", "name"), ("b", "output"), ("s", "mode"), ("o", "format"), ("t", "title"), ("d", "input-dir")]
INT_KEYS = [("n", "num"), ("i", "value"), ("m", "max")]
FLAG_KEYS = [("f", "flag"), ("q", "quiet"), ("y", "force")]
VEC_KEYS = [("l", "list"), ("k", "level"), ("j", "in")]

COMMENTS = ["# a comment", "#", "#-a x", "# -n 5 ", "#\t-f", "## pad\\ ", "#'"]
BLANKS = [" ", "  ", "     "]


class Retry(Exception):
    pass


# ---- configuration -------------------------------------------------------------------------------------------------

def mk_arg(kind, short=None, long_=None, multi=False):
    a = G.Arg()
    a.kind, a.short, a.long, a.multi = kind, short, long_, multi
    return a


def gen_cfg(rng):
    """2..3 string arguments without checks, an int, 1..2 flags, a multi-value int list, optionally a positional
    string argument (key "-"); random order, random key forms (a short key always exists for flags)"""
    args = []
    strs = rng.sample(STR_KEYS, rng.randint(2, 3))
    for k, (s, l) in enumerate(strs):
        form = rng.random()
        if k == 0 or form < 0.5:
            args.append(mk_arg("str", s, l))
        elif form < 0.75:
            args.append(mk_arg("str", s, None))
        else:
            args.append(mk_arg("str", None, l))
    s, l = rng.choice(INT_KEYS)
    args.append(mk_arg("int", s, l))
    for s, l in rng.sample(FLAG_KEYS, rng.randint(1, 2)):
        args.append(mk_arg("flag", s, l if rng.random() < 0.7 else None))
    s, l = rng.choice(VEC_KEYS)
    args.append(mk_arg("vec", s, l, multi=True))
    if rng.random() < 0.5:
        args.append(mk_arg("str", "-", None))          # positional
    rng.shuffle(args)
    abbr = rng.random() < 0.6
    return args, abbr


def is_pos(a):
    return a.short == "-"


# ---- abstract uses and their words -----------------------------------------------------------------------------------

class Use:
    """one use of an argument: payload as in gen_progargs (flag: None, int: (text, value), str: (text, text),
    vec: ("vec", [ints])); `bad` = the use is not valid in the abstract grammar (the whole line must be refused);
    `form` / `style` = how it is to be written: value word separate / glued / behind '=', quoting of the word that
    carries the value"""
    def __init__(self, i, payload, form=None, style=None, bad=False, words=None):
        self.i, self.payload, self.form, self.style, self.bad = i, payload, form, style, bad
        self.words = words          # fixed words (for the uses that are not valid)


def key_word(rng, args, i, abbr, want=None):
    forms = [f for f in G.key_forms(rng, args, i, abbr) if want is None or f[0] == want]
    kind, key = rng.choice(forms)
    return kind, ("-" if kind == "short" else "--") + key


def use_words(rng, args, u, abbr):
    """the words of one use; the last one carries the value (if any)"""
    if u.words is not None:
        return list(u.words)
    a = args[u.i]
    if is_pos(a):
        return [u.payload[0]]
    if a.kind == "flag":
        return [key_word(rng, args, u.i, abbr)[1]]
    if a.kind == "vec":
        vals = [str(x) for x in u.payload[1]]
        kind, key = key_word(rng, args, u.i, abbr)
        r = rng.random()
        if r < 0.5:
            return [key] + vals                                   # key + free values
        if r < 0.7:
            return [key, ",".join(vals)]
        if kind == "long":
            return [key + "=" + vals[0]] + vals[1:]
        return [key + vals[0]] + vals[1:]
    v = u.payload[0]
    form = u.form or rng.choice(["sep", "sep", "sep", "glued", "eq"])
    if not G.next_word_ok(v) and form == "sep":
        form = "glued"
    have = set(k for k, _ in G.key_forms(rng, args, u.i, abbr))
    if form == "glued" and "short" not in have:
        form = "eq"
    if form == "eq" and "long" not in have:
        form = "glued"
    if form == "sep":
        return [key_word(rng, args, u.i, abbr)[1], v]
    if form == "glued":
        return [key_word(rng, args, u.i, abbr, "short")[1] + v]
    return [key_word(rng, args, u.i, abbr, "long")[1] + "=" + v]


# ---- writing words into a line ---------------------------------------------------------------------------------------

def q_bs(w):
    return "".join("\\" + c if c in SPECIAL else c for c in w)


def q_in(qc, w):
    return qc + "".join("\\" + c if c in (qc, "\\") else c for c in w) + qc


def quote(rng, w, style):
    """a quoted spelling of the word w; style: plain | bs | dq | sq — for dq / sq a prefix of the word may stay outside
    the quotes (`--name="pad "`, `-a'pad '`, `pad' '`): how the END of the word is written is what the style names"""
    if style == "plain":
        if any(c in SPECIAL for c in w):
            style = "bs"
        else:
            return w
    if style == "bs":
        return q_bs(w)
    qc = '"' if style == "dq" else "'"
    k = 0
    if len(w) > 1 and rng.random() < 0.4:
        k = rng.randint(1, len(w) - 1)
    return q_bs(w[:k]) + q_in(qc, w[k:])


def any_style(rng, w):
    r = rng.random()
    if r < 0.5:
        return "plain"
    return "bs" if r < 0.7 else rng.choice(["dq", "sq"])


class Line:
    """one file line (or the environment value): uses in order, blanks before the first / after the last word"""
    def __init__(self, uses, indent=0, trail=0, hash_quote=None):
        self.uses, self.indent, self.trail, self.hash_quote = list(uses), indent, trail, hash_quote


def render(rng, args, abbr, ln):
    qs = []
    for u in ln.uses:
        ws = use_words(rng, args, u, abbr)
        for k, w in enumerate(ws):
            last = k == len(ws) - 1
            st = u.style if (last and u.style) else any_style(rng, w)
            qs.append(quote(rng, w, st))
    if not qs:
        raise Retry()
    text = qs[0]
    for q in qs[1:]:
        text += (" " if rng.random() < 0.85 else "  " * rng.randint(1, 2)) + q
    text = " " * ln.indent + text + " " * ln.trail
    if text.startswith("#"):
        # a word beginning with '#' in column 0 would make the line a comment: quote the '#'
        w0 = use_words_first_hash(ln, args)
        how = ln.hash_quote or rng.choice(["bs", "sq", "dq"])
        head = ("\\" + q_bs(w0)) if how == "bs" else q_in("'" if how == "sq" else '"', w0)
        text = head + text[len(qs[0]):]
    return text


def use_words_first_hash(ln, args):
    u = ln.uses[0]
    if u.words is not None:
        return u.words[0]
    return u.payload[0]


# ---- one evaluation ----------------------------------------------------------------------------------------------------

SHAPES = [
    ("end-bs", 16), ("end-dq", 6), ("end-sq", 6), ("end-bs-trail", 5),
    ("mid-bs", 3), ("mid-dq", 2), ("mid-sq", 2),
    ("lead-bs", 3), ("lead-dq", 2), ("lead-sq", 2),
    ("env-bs", 3), ("env-dq", 1), ("env-sq", 1), ("argv-blank", 3),
    ("indent", 3), ("trail", 3), ("indent-trail", 3),
    ("blankline", 4), ("emptyline", 2), ("comment", 3),
    ("hash-indent", 9), ("hash-quoted-col0", 2), ("hash-mid", 5),
    ("cr-str", 9), ("cr-int", 3), ("cr-flag", 1), ("cr-list", 1), ("cr-alone", 2), ("crlf-file", 4),
    ("tab-end", 4), ("tab-in", 3),
]


def ordinary_use(rng, args, i):
    a = args[i]
    if a.kind == "flag":
        return Use(i, None)
    if a.kind == "int":
        v = rng.choice([0, 5, 7, 42, rng.randint(0, 999)])
        return Use(i, (str(v), v))
    if a.kind == "vec":
        vals = [rng.randint(0, 40) for _ in range(rng.randint(1, 3))]
        return Use(i, ("vec", vals))
    v = rng.choice(ORD)
    if is_pos(a) and not G.next_word_ok(v):
        v = "x"
    return Use(i, (v, v))


def eval_line(rng, args, abbr, shape):
    """(label, expectation, options, argv words) of one `pa eval` line"""
    strs = [i for i, a in enumerate(args) if a.kind == "str" and not is_pos(a)]
    ints = [i for i, a in enumerate(args) if a.kind == "int"]
    flags = [i for i, a in enumerate(args) if a.kind == "flag"]
    vecs = [i for i, a in enumerate(args) if a.kind == "vec"]
    pos = [i for i, a in enumerate(args) if is_pos(a)]
    label = shape
    sp = rng.choice(strs)                    # the argument of the interesting use
    others = [i for i in range(len(args)) if i != sp and i not in pos]
    rng.shuffle(others)
    pool = [ordinary_use(rng, args, i) for i in others[:rng.randint(1, len(others))]]

    def take(n_max, kinds=None):
        out = []
        for u in list(pool):
            if len(out) >= n_max:
                break
            if kinds is None or args[u.i].kind in kinds:
                out.append(u)
                pool.remove(u)
        return out

    file_lines = []          # Line objects and literal filler strings
    env = None               # Line
    argv = []                # uses
    special_line = None
    kind, _, how = shape.partition("-")

    def sline(uses, **kw):
        return Line(uses, **kw)

    # --- the interesting use and its place --------------------------------------------------------------------------
    if shape in ("end-bs", "end-dq", "end-sq", "end-bs-trail"):
        v = rng.choice(END_BLANK)
        st = shape.split("-")[1]
        u = Use(sp, (v, v), style=st)
        special_line = sline(take(rng.randint(0, 2)) + [u], trail=rng.randint(1, 3) if shape.endswith("trail") else 0)
        file_lines.append(special_line)
    elif kind == "mid":
        v = rng.choice(END_BLANK + CRV[:2] + TAB_END[:1])
        u = Use(sp, (v, v), style=how)
        rest = take(rng.randint(1, 2))
        if not rest:
            raise Retry()
        special_line = sline(take(rng.randint(0, 1)) + [u] + rest)
        file_lines.append(special_line)
    elif kind == "lead":
        v = rng.choice(LEAD_BLANK)
        u = Use(sp, (v, v), style=how)
        special_line = sline(take(rng.randint(0, 2)) + [u] + (take(1) if rng.random() < 0.4 else []))
        file_lines.append(special_line)
    elif kind == "env":
        v = rng.choice(END_BLANK + LEAD_BLANK[:2] + CRV[:2] + TAB_END[:2])
        u = Use(sp, (v, v), style=how)
        env = sline(take(rng.randint(0, 2)) + [u], indent=rng.choice([0, 0, 2]), trail=rng.choice([0, 0, 0, 2]))
    elif shape == "argv-blank":
        v = rng.choice(END_BLANK + LEAD_BLANK + CRV + TAB_END + HASHV)
        argv = take(rng.randint(0, 2)) + [Use(sp, (v, v))] + take(rng.randint(0, 1))
    elif shape in ("indent", "trail", "indent-trail"):
        v = rng.choice(ORD)
        u = Use(sp, (v, v))
        special_line = sline(take(rng.randint(0, 2)) + [u] + take(rng.randint(0, 1)),
                             indent=rng.randint(1, 4) if "indent" in shape else 0,
                             trail=rng.randint(1, 4) if "trail" in shape else 0)
        file_lines.append(special_line)
    elif shape in ("blankline", "emptyline", "comment"):
        v = rng.choice(ORD)
        first = sline(take(rng.randint(0, 1)) + [Use(sp, (v, v))])
        second = take(rng.randint(1, 2))
        filler = {"blankline": rng.choice(BLANKS), "emptyline": "", "comment": rng.choice(COMMENTS)}[shape]
        file_lines += [first, filler] if not second else [first, filler, sline(second)]
        if rng.random() < 0.3:
            file_lines.insert(0, filler)
        if rng.random() < 0.3:
            file_lines.append(filler)
    elif shape == "hash-indent":
        # ` # -a x`: the words `#`, `-a`, `x`
        v = rng.choice(ORD)
        tail = [Use(sp, (v, v))]
        before = []
        r = rng.random()
        if r < 0.25 and vecs:
            # directly behind the values of the multi-value list: `#` is a list value, and no int
            label = "hash-indent-list"
            lv = ordinary_use(rng, args, vecs[0])
            lv.words = [key_word(rng, args, vecs[0], abbr)[1]] + [str(x) for x in lv.payload[1]]
            pool[:] = [p for p in pool if p.i != vecs[0]]
            before = [sline(take(rng.randint(0, 1)) + [lv])]
            hu = Use(vecs[0], None, bad=True, words=["#"], style="plain")
        elif pos:
            label = "hash-indent-pos"
            hu = Use(pos[0], ("#", "#"), style="plain")
            pool[:] = [p for p in pool if args[p.i].kind != "vec"] if rng.random() < 0.5 else pool
            before = [sline(take(1, ("int", "flag", "str")))] if rng.random() < 0.5 else []
            before = [b for b in before if b.uses]
        else:
            label = "hash-indent-free"
            hu = Use(None, None, bad=True, words=["#"], style="plain")
            before = [sline(take(1, ("int", "flag", "str")))] if rng.random() < 0.5 else []
            before = [b for b in before if b.uses]
        special_line = sline([hu] + tail, indent=rng.randint(1, 3), trail=rng.choice([0, 0, 1]))
        file_lines += before + [special_line]
    elif shape == "hash-quoted-col0":
        v = rng.choice(ORD)
        if pos:
            hv = rng.choice(["#", "#x", "# c"])
            hu = Use(pos[0], (hv, hv), style="plain")
        else:
            label = "hash-quoted-col0-free"
            hu = Use(None, None, bad=True, words=["#"])
        special_line = sline([hu, Use(sp, (v, v))])
        file_lines.append(special_line)
    elif shape == "hash-mid":
        v = rng.choice(HASHV)
        if pos and rng.random() < 0.3:
            # the positional value '#' in the middle of a line, behind a flag / a value argument
            pre = take(1, ("flag", "int"))
            if not pre:
                raise Retry()
            w = rng.choice(ORD)
            special_line = sline(pre + [Use(pos[0], ("#", "#"), style="plain"), Use(sp, (w, w))])
        else:
            u = Use(sp, (v, v), style=rng.choice(["plain", "plain", "bs", "dq", "sq"]))
            special_line = sline(take(rng.randint(0, 2)) + [u] + take(rng.randint(0, 1)))
        file_lines.append(special_line)
    elif shape == "cr-str":
        v = rng.choice(CRV)
        u = Use(sp, (v, v), style=rng.choice(["plain", "plain", "plain", "bs", "dq", "sq"]))
        special_line = sline(take(rng.randint(0, 2)) + [u])
        file_lines.append(special_line)
    elif shape == "cr-int":
        n = rng.randint(0, 99)
        key = key_word(rng, args, ints[0], abbr)
        ws = rng.choice([[key[1], "%d\r" % n], [key_word(rng, args, ints[0], abbr, "short")[1] + "%d\r" % n]])
        pool[:] = [p for p in pool if p.i != ints[0]]
        special_line = sline(take(rng.randint(0, 2)) + [Use(ints[0], None, bad=True, words=ws)])
        file_lines.append(special_line)
    elif shape == "cr-flag":
        pool[:] = [p for p in pool if p.i != flags[0]]
        special_line = sline(take(rng.randint(0, 2)) + [Use(flags[0], None, bad=True,
                                                            words=[key_word(rng, args, flags[0], abbr)[1] + "\r"])])
        file_lines.append(special_line)
    elif shape == "cr-list":
        pool[:] = [p for p in pool if p.i != vecs[0]]
        ws = [key_word(rng, args, vecs[0], abbr)[1]] + [str(rng.randint(0, 40)) for _ in range(rng.randint(0, 2))] + ["7\r"]
        special_line = sline(take(rng.randint(0, 2)) + [Use(vecs[0], None, bad=True, words=ws)])
        file_lines.append(special_line)
    elif shape == "cr-alone":
        # a line that is only a CR (the empty line of a CR/LF file): the free value "\r"
        pool[:] = [p for p in pool if args[p.i].kind != "vec"]
        before = take(rng.randint(0, 2))
        if pos:
            hu = Use(pos[0], ("\r", "\r"), style="plain")
        else:
            label = "cr-alone-free"
            hu = Use(None, None, bad=True, words=["\r"], style="plain")
        special_line = sline([hu])
        file_lines += ([sline(before)] if before else []) + [special_line]
    elif shape == "crlf-file":
        # every line ends in a string value; the CR of the line end belongs to it
        nl = rng.randint(1, min(3, len(strs)))
        for i in rng.sample(strs, nl):
            v = rng.choice(["x", "pad", "a b", "Peter", "pad "]) + "\r"
            file_lines.append(sline(take(rng.randint(0, 1), ("int", "flag", "vec")) + [Use(i, (v, v), style=any_style(rng, v))]))
            if rng.random() < 0.3:
                file_lines.append(rng.choice(["# comment\r", "#\r"]))
        pool[:] = [p for p in pool if args[p.i].kind != "str"]
    elif shape in ("tab-end", "tab-in"):
        v = rng.choice(TAB_END if shape == "tab-end" else TAB_IN)
        u = Use(sp, (v, v), style=rng.choice(["plain", "plain", "bs", "dq", "sq"]))
        special_line = sline(take(rng.randint(0, 2)) + [u] + (take(1) if shape == "tab-in" and rng.random() < 0.4 else []))
        file_lines.append(special_line)
    else:
        raise AssertionError(shape)

    # --- the rest of the uses: more file lines, the environment value, argv; overriding uses ---------------------------
    raw_only = shape == "crlf-file"
    if not raw_only:
        while pool and rng.random() < 0.45:
            ln = sline(take(rng.randint(1, 2)), indent=rng.choice([0, 0, 0, 0, 2]), trail=rng.choice([0, 0, 0, 0, 1]))
            if rng.random() < 0.5 or not file_lines:
                file_lines.append(ln)
            else:
                file_lines.insert(0, ln)
        # decoration: comment / empty / blank lines anywhere
        k = 0
        while k <= len(file_lines):
            if file_lines and rng.random() < 0.12:
                file_lines.insert(k, rng.choice(COMMENTS + ["", "", " ", "   "]))
                k += 1
            k += 1
    if env is None and pool and rng.random() < 0.35:
        env = sline(take(rng.randint(1, 2)))
    elif env is not None and pool and rng.random() < 0.4 and not file_lines:
        file_lines.append(sline(take(rng.randint(1, 2))))
    argv = argv + pool
    pool = []
    # override: a string / int argument delivered by the file (not the interesting one) again in a later source
    src_uses = [u for ln in file_lines if isinstance(ln, Line) for u in ln.uses if not u.bad]
    cand = [u for u in src_uses if u.i != sp and args[u.i].kind in ("str", "int") and not is_pos(args[u.i])
            and not any(x.i == u.i for x in argv) and not (env and any(x.i == u.i for x in env.uses))]
    if cand and rng.random() < 0.35:
        o = ordinary_use(rng, args, rng.choice(cand).i)
        if env is not None and rng.random() < 0.4:
            env.uses.insert(0, o)
        else:
            argv.insert(rng.randint(0, len(argv)), o)
    # the interesting value in one source, an earlier source holds another value of the same argument (overridden)
    if shape == "argv-blank" and rng.random() < 0.5:
        w = rng.choice(ORD)
        file_lines.insert(0, sline([Use(sp, (w, w))]))
    if kind == "env" and rng.random() < 0.4:
        w = rng.choice(END_BLANK)
        file_lines.insert(0, sline([Use(sp, (w, w), style="bs")]))

    # --- the abstract line: file lines in order, environment, argv --------------------------------------------------------
    seq = [u for ln in file_lines if isinstance(ln, Line) for u in ln.uses] + (env.uses if env else []) + argv
    for k, u in enumerate(seq):
        if u.i is not None and is_pos(args[u.i]) and k > 0 and seq[k - 1].i is not None and args[seq[k - 1].i].kind == "vec":
            raise Retry()          # a bare word behind list values is a list value
    npos = sum(1 for u in argv if is_pos(args[u.i]))
    if npos > 1:
        raise Retry()
    if any(u.bad for u in seq):
        exp = "throw"
    else:
        exp = G.expected(args, [(u.i, u.payload) for u in seq])

    # --- writing it down --------------------------------------------------------------------------------------------------
    texts = [ln if isinstance(ln, str) else render(rng, args, abbr, ln) for ln in file_lines]
    opts = []
    if texts:
        if any("\n" in t for t in texts):
            raise Retry()
        r = rng.random()
        if raw_only or r < 0.5:
            opts.append("fileraw=" + G.hx("\n".join(texts) + ("\n" if rng.random() < (0.7 if raw_only else 0.5) else "")))
        else:
            opts.append("file=" + "|".join(G.hx(t) for t in texts))
    elif rng.random() < 0.2:
        opts.append(rng.choice(["file=-", "fileraw=-"]))
    if env is not None:
        et = render(rng, args, abbr, env)
        if "\x00" in et:
            raise Retry()
        opts.append("env=" + G.hx(et))
    aw = [w for u in argv for w in use_words(rng, args, u, abbr)]
    return label, exp, opts, aw


def line_end_case(rng, cid):
    args, abbr = gen_cfg(rng)
    lines = G.cfg_lines(args, [], abbr)
    total = sum(w for _, w in SHAPES)
    n = rng.randint(6, 12)
    made = 0
    guard = 0
    while made < n and guard < 200:
        guard += 1
        x = rng.random() * total
        for shape, w in SHAPES:
            x -= w
            if x < 0:
                break
        try:
            label, exp, opts, aw = eval_line(rng, args, abbr, shape)
        except Retry:
            continue
        line = "pa eval x-lbl=le-%s x-exp=%s %s -- %s" % (label, G.hx(exp), " ".join(opts), " ".join(G.hx(w) for w in aw))
        lines.append(" ".join(line.split()))
        made += 1
    return Case(cid, lines)
