"""component plugin: celma::format::TextBlock (C17)"""
import itertools
import random

import vlib
from vlib import Case

COMPONENT = "textblock"
DRIVER = "model-textblock"

PROPERTIES = {
    "C17": {
        "lean_module": "CelmaVerif.Props.C17",
        "kind": "relational",
        "trusted": [
            "hand-written model CelmaVerif/Model/TextBlock.lean of TextBlock::format()/formatLine() "
            "(src/library/format/text_block.cpp), tied by the correspondence run (harness/text_block.cpp, in-process, "
            "ASan+UBSan, byte-exact output) on every invocation",
            "boost::tokenizer<char_separator<char>> with one dropped delimiter and drop_empty_tokens, modelled as "
            "`tokP` (maximal runs of non-delimiter characters)",
            "std::ostream << std::string / std::endl writes the characters / one '\\n'",
            "the harness' own oracle (words, indentation, newline, width) evaluated on the real output",
        ],
        "assumptions": [
            "indent >= 0 and width >= 0 (a negative indent makes the constructor throw std::length_error, a negative "
            "width becomes a huge size_t); single-threaded use (Tokenizer::convChar2String has a static buffer, C09)",
            "size_t additions do not overflow: indent + text length + 4 < 2^64 (proved equal to the unbounded model "
            "under that hypothesis, Lemmas/TextBlockWrap.lean)",
            "an empty output (text without any non-newline character) counts as zero output lines",
            "width clause, sharp form (over-long line = leading blanks + one word) for indent < width; for "
            "width <= indent every line is longer than the width by the indentation clause itself and only "
            "'at most one word on an over-long line' is claimed",
        ],
    }
}

RULE = ("every case is one independent format() call on a fresh TextBlock; one evaluation = one call run on the real "
        "class and on the Lean model, outputs compared byte for byte, plus the property oracle on the real output; "
        "distinct_nontrivial = distinct (indent==0, room class, first, text features nn/dash/newline/multi-blank, "
        "output shape: line count class, over-long line, blank line) tuples")

LETTERS = "abcdefghijklmopqrstuvwxyzABCDEFGHIJKLMOPQRSTUVWXYZ0123456789"   # no 'n'/'N': "nn" only on purpose


def build_harness(work, prop):
    return vlib.build_harness(work, "harness/text_block.cpp", ["src/library/format/text_block.cpp"])


def diff_is_failure(prop, p):
    """C17 constrains the output, it does not determine it: a layout that differs from the model's but
    passes the oracle ('ok out=...') is a broken tie only.  Oracle failures arrive as kind 'oracle'
    ('!!' lines).  An exception or anything else that is not a formatted text loses the words."""
    return not (p.impl or "").startswith("ok ")


def _hex(s):
    return s.encode("latin-1").hex() or "-"


def op(indent, width, first, text):
    return "tb format indent=%d width=%d first=%d text=%s" % (indent, width, 1 if first else 0, _hex(text))


def _unhex(h):
    return "" if h in ("-", "") else bytes.fromhex(h).decode("latin-1")


def nontrivial_key(opline, result):
    t = opline.split(" ")
    if len(t) != 6:
        return None
    kv = dict(x.split("=", 1) for x in t[2:])
    indent, width, first = int(kv["indent"]), int(kv["width"]), kv["first"]
    text = _unhex(kv["text"])
    r = (result or "").split(" ")
    if not r or r[0] != "ok":
        return ("tb", r[0] if r else "")
    out = _unhex(r[-1].split("=", 1)[1]) if "=" in r[-1] else ""
    lines = out.split("\n") if out else []
    room = width - indent
    return ("tb", indent == 0, "room<=0" if room <= 0 else "room<=3" if room <= 3 else "room>3", first,
            " nn " in " " + text.replace("\n", " ") + " ", "-" in text, "\n" in text, "\n\n" in text, "  " in text,
            min(len(lines), 4), any(len(l) > width for l in lines), any(not l.strip(" ") for l in lines))


class WordMaker:
    """words whose letters identify them, so that a lost, duplicated, swapped or split word is visible"""

    def __init__(self):
        self.k = 0

    def word(self, n, dash=False):
        ch = LETTERS[self.k % len(LETTERS)]
        self.k += 1
        n = max(1, n)
        return ("-" + ch * (n - 1)) if dash else ch * n


def random_text(rng, indent, width):
    wm = WordMaker()
    room = max(1, width - indent)
    toks = []
    ntok = rng.choice([0, 1, 2, 3, 5, 8, 12, 20, 30])
    newline_p = rng.choice([0.0, 0.1, 0.3])
    nn_p = rng.choice([0.0, 0.05, 0.2])
    dash_p = rng.choice([0.0, 0.3, 0.8])
    at_line_start = True
    for _ in range(ntok):
        x = rng.random()
        if x < nn_p:
            toks.append(rng.choice(["nn", "nn", "nn", "n", "nnn", "nN", "-nn"]))
            at_line_start = False
            continue
        # lengths around the places where the wrapping decision flips
        ln = rng.choice([1, 1, 2, 3, room - 3, room - 2, room - 1, room, room + 1, width - 1, width, width + 1,
                         width + 3, rng.randint(1, width + 3), rng.randint(1, max(1, room // 2))])
        ln = min(max(1, ln), width + 3)
        dash = at_line_start and rng.random() < dash_p
        w = wm.word(ln, dash)
        if dash and rng.random() < 0.5:
            w = "-"
        elif rng.random() < 0.03:
            w = rng.choice(["a-b", "x\ty", "\r", "\xe4\xf6", "--", "-", "n"])
        toks.append(w)
        at_line_start = False
        if rng.random() < newline_p:
            toks.append("\n")
            at_line_start = True
    # join: single blanks mostly, sometimes runs, newlines bare or padded
    out = []
    style = rng.random()
    for i, t in enumerate(toks):
        if t == "\n":
            out.append(rng.choice(["\n", "\n", "\n\n", " \n", "\n ", " \n ", "\n\n\n", "\n \n"]) if style < 0.5 else "\n")
            continue
        if out and not out[-1].endswith(("\n", " ")):
            out.append(" " if style >= 0.3 or rng.random() < 0.7 else " " * rng.randint(2, 4))
        out.append(t)
    s = "".join(out)
    if rng.random() < 0.15:
        s = rng.choice([" ", "\n", "  ", "\n\n", " \n"]) + s
    if rng.random() < 0.15:
        s = s + rng.choice([" ", "\n", "  ", "\n\n", " \n", " nn", "\nnn", " nn "])
    return s


def fill_text(rng, indent, width):
    """lines filled so that a word ends exactly at, one before or one after the width, also on the
    continuation lines of a list item and right after a forced break"""
    wm = WordMaker()
    dash = rng.random() < 0.6
    parts = []
    pos = indent
    extra = 0
    if dash:
        parts.append("-")
        pos += 1
    target = width + rng.choice([-2, -1, 0, 0, 1, 2])
    for _ in range(rng.randint(1, 4)):          # output lines to fill
        while True:
            sep = 0 if pos == indent else 1
            rest = target - pos - sep
            if rest <= 0:
                break
            ln = rest if rest <= 3 or rng.random() < 0.4 else rng.randint(1, rest)
            parts.append(wm.word(ln))
            pos += sep + ln
            if ln == rest:
                break
        if rng.random() < 0.25:
            parts.append("nn")
        extra = 2 if dash else 0
        pos = indent + extra
        target = width + rng.choice([-2, -1, 0, 0, 1, 2])
        # the word that starts the continuation line carries the list indentation itself
        ln = max(1, min(width + 3, target - pos))
        parts.append(wm.word(rng.choice([1, ln, ln, ln + 1, max(1, ln - 1)])))
        pos += len(parts[-1])
    return " ".join(parts)


def generated_cases(rng, n, tag="g"):
    for i in range(n):
        k = rng.random()
        label = ()
        if k < 0.08:                                 # width <= indent: labelled, weak width clause only
            indent = rng.randint(1, 10)
            width = rng.randint(0, indent)
            label = ("width<=indent",)
        elif k < 0.12:
            indent, width = rng.randint(0, 10), rng.randint(0, 4)
            label = ("tiny-width",)
        else:
            indent = rng.choice([0, 0, 1, 2, 3, 5, 8, 10, rng.randint(0, 10)])
            width = rng.choice([5, 6, 8, 10, 12, 20, 40, rng.randint(5, 40), indent + rng.randint(1, 6)])
        first = rng.random() < 0.5
        text = fill_text(rng, indent, width) if rng.random() < 0.35 else random_text(rng, indent, width)
        yield Case("%s%d" % (tag, i), [op(indent, width, first, text)], label)


# exhaustive space: (indent, width, three word lengths); all texts of <= L tokens over
# {three word lengths, dash, "nn", newline}, tokens joined by one blank (a newline token stands alone)
SPACES_QUICK = [(0, 5, (1, 3, 4)), (2, 7, (1, 2, 4)), (3, 6, (1, 2, 3)), (1, 8, (2, 3, 5)), (4, 4, (1, 2, 3))]
SPACES_THOROUGH = SPACES_QUICK + [(0, 6, (1, 2, 5)), (2, 9, (1, 4, 6)), (5, 10, (1, 2, 4)), (0, 10, (3, 6, 9)),
                                  (10, 16, (1, 3, 5)), (6, 5, (1, 2, 3)), (0, 0, (1, 2, 3)), (3, 4, (1, 2, 3))]


def exhaustive_cases(spaces, maxlen, tag):
    k = 0
    for indent, width, lens in spaces:
        alphabet = ["w0", "w1", "w2", "-", "nn", "\n"]
        for L in range(0, maxlen + 1):
            for seq in itertools.product(alphabet, repeat=L):
                wm = WordMaker()
                parts = []
                for t in seq:
                    if t[0] == "w":
                        t = wm.word(lens[int(t[1])])
                    if t == "\n":
                        parts.append("\n")
                    else:
                        if parts and parts[-1] != "\n":
                            parts.append(" ")
                        parts.append(t)
                text = "".join(parts)
                for first in (0, 1):
                    k += 1
                    yield Case("%s%d" % (tag, k), [op(indent, width, first, text)],
                               ("width<=indent",) if width <= indent else ())


def generate(prop, tier, seed, scale=1):
    """batches are lazy (check.py materialises one batch at a time) and consumed in order, so the
    shared seeded PRNG makes the whole run reproducible"""
    rng = random.Random("%s-%s" % (prop, seed))
    what = "tokens over {3 word lengths, '-', nn, newline} x first"
    # small texts first: a violation is then reported with a short input
    if tier == "quick":
        yield "exhaustive <=5 %s x %d (indent,width)" % (what, len(SPACES_QUICK)), exhaustive_cases(SPACES_QUICK, 5, "x")
        yield "generated", generated_cases(rng, 40000 * scale)
    else:
        for i, sp in enumerate(SPACES_THOROUGH):
            deep = sp in SPACES_QUICK
            yield ("exhaustive <=%d %s, indent=%d width=%d lengths=%s" % (6 if deep else 5, what, sp[0], sp[1], sp[2]),
                   exhaustive_cases([sp], 6 if deep else 5, "x%d." % i))
        for b in range(5):
            yield "generated %d/5" % (b + 1), generated_cases(rng, 200000 * scale, "g%d." % b)
