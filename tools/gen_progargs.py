"""Generator of argument-handler cases: a configuration inside the modelled fragment, an abstract
command line (list of uses) that obeys every declared rule, its legal spellings, rule-breaking
mutations, delivery through file / environment, evaluation through groups, and raw / malformed
argument vectors for memory safety.

Every case carries the generator's own expectation (`expect`), computed from the abstract command
line alone: `ok <destinations>` for rule-obeying lines, `throw` for rule-breaking ones, None for
lines whose outcome only the model predicts (raw argument vectors)."""
import random

SHORTS = "abcdfgijklmnopqrstuwyz"
LONGS = ["input", "input-file", "input-dir", "in", "output", "out", "outfile", "verbose", "value", "val",
         "values", "name", "number", "num", "list", "level", "mode", "max", "maxlen", "quiet", "flag",
         "force", "format", "file"]
WORDS = ["abc", "x", "hello", "Peter", "Paul", "Mary", "a=b", "v1", "007", "zz-top", "q", "long_value_text", "A",
         "ABC", "a", "PeTeR", "HELLO"]        # pairs that a case formatter maps onto each other

# pattern checks: patterns inside the subset that Model/Regex.lean parses, each with values that match as a whole
# (std::regex_match) and values that do not — the generator's own reading of the pattern, checked on the
# implementation alone; the model's matcher is compared on the same lines
PATTERNS = [
    ("[a-c]+x?", ["abc", "a", "cabx", "bx"], ["x", "abd", "abxx", "Abc", "xabc"]),
    ("(ab|cd)*e", ["e", "abe", "cdabe", "ababe"], ["ab", "abce", "ea", "abcde1"]),
    ("[^0-9]+", ["abc", "x-y", "A"], ["a1", "7", "1a"]),
    ("\\d+\\.\\d*", ["12.", "0.5", "3.14"], [".5", "12", "1.2.3", "a.1"]),
    ("v[0-9]?", ["v", "v1", "v0"], ["v12", "V1", "1v"]),
    ("^abc$", ["abc"], ["ab", "abcd", "xabc"]),
    ("a.c", ["abc", "a-c", "a.c"], ["ac", "abbc", "abcd"]),
    ("(?:x|yy)+", ["x", "yyx", "xyy", "yy"], ["y", "xy", "yyy"]),
    ("\\w+", ["abc_1", "A", "007"], ["a-b", "a.b", "x="]),
    ("[a-z]+[0-9]?", ["abc", "abc7", "z"], ["Abc", "abc77", "7", "ab7c"]),
    ("a$|b", ["a", "b"], ["ab", "ba", "aa"]),
    ("(^a|b)*", ["ab", "abb", "b", "bb", "a"], ["ba", "aa", "aba"]),
    ("[xyz]*|q+", ["xyzzy", "qq", "q", "z"], ["xq", "qx", "w"]),
    ("[\\d_-]+", ["1-2", "_", "2024-01"], ["a", "1.2", "1a"]),
    ("x(y|)z", ["xz", "xyz"], ["xyyz", "x", "yz"]),
    ("\\(\\w\\)", ["(a)", "(7)"], ["a", "(ab)", "()"]),
    ("\\S+@\\S+", ["a@b", "me@host.org"], ["@", "a@", "ab"]),
]


def hx(s):
    if isinstance(s, str):
        s = s.encode("latin-1")
    return s.hex() or "-"


class Arg:
    def __init__(self):
        self.short = None
        self.long = None
        self.kind = None
        self.mandatory = False
        self.card = None            # None = default of the kind
        self.checks = []            # textual check specs
        self.cons = []              # ('r'|'x', [arg index...], [spelling per index])
        self.multi = False
        self.sep = ","
        self.init = None
        self.lo, self.hi = -1000, 1000   # admissible int range (derived from checks)
        self.allowed = None         # allowed string values
        self.minlen, self.maxlen = 0, 99
        self.pattern = None         # index into PATTERNS (string arguments)
        self.fmt = None             # value formatter: None, "upper" (addFormat( uppercase())), "lower"

    def keyspec(self):
        if self.short and self.long:
            return "%s,%s" % (self.short, self.long)
        return self.short or self.long

    def maxuses(self):
        """how many values the argument may take on the command line"""
        c = self.card
        if c is None:
            return 1 if self.kind in ("flag", "int", "str") else 99
        if c == "none":
            return 99
        p = c.split(":")
        if p[0] == "max":
            return 99 if p[1] == "-1" else int(p[1])
        if p[0] == "exact":
            return int(p[1])
        return 99 if p[2] == "-1" else int(p[2])

    def minuses(self):
        c = self.card
        if c and c.startswith("exact"):
            return int(c.split(":")[1])
        if c and c.startswith("range"):
            return int(c.split(":")[1])
        return 1


def apply_fmt(a, s):
    """the value a string destination ends with: the text as typed, passed through the argument's formatter
    (ASCII letters only: boost::to_upper / to_lower in the "C" locale); the checks are judged on the text as typed"""
    if a.fmt == "upper":
        return "".join(chr(ord(c) - 32) if "a" <= c <= "z" else c for c in s)
    if a.fmt == "lower":
        return "".join(chr(ord(c) + 32) if "A" <= c <= "Z" else c for c in s)
    return s


def gen_config(rng, fmt_share=0.35):
    n = rng.randint(1, 6)
    shorts = rng.sample(SHORTS, n)
    longs = rng.sample(LONGS, n)
    args = []
    for i in range(n):
        a = Arg()
        form = rng.random()
        if form < 0.25:
            a.short = shorts[i]
        elif form < 0.5:
            a.long = longs[i]
        else:
            a.short, a.long = shorts[i], longs[i]
        a.kind = rng.choice(["flag", "int", "int", "str", "str", "level", "vec", "vec"])
        if a.kind == "flag":
            a.init = rng.choice([None, "0", "1"])
        elif a.kind == "int":
            if rng.random() < 0.5:
                a.init = str(rng.randint(-5, 50))
            r = rng.random()
            if r < 0.2:
                a.lo = rng.randint(-3, 20)
                a.checks.append("lower:%d" % a.lo)
            elif r < 0.4:
                a.hi = rng.randint(5, 100) - 1
                a.checks.append("upper:%d" % (a.hi + 1))
            elif r < 0.6:
                a.lo = rng.randint(-3, 20)
                a.hi = a.lo + rng.randint(0, 30)
                a.checks.append("range:%d:%d" % (a.lo, a.hi + 1))
            if rng.random() < 0.3:
                a.mandatory = True
            if rng.random() < 0.25:
                a.card = rng.choice(["none", "max:2", "max:3", "max:-1"])
            if rng.random() < fmt_share / 2:
                a.fmt = rng.choice(["upper", "lower"])     # invisible for an int (the value converts alike)
        elif a.kind == "str":
            r = rng.random()
            if r < 0.25:
                a.allowed = rng.sample(["Peter", "Paul", "Mary", "x", "abc"], rng.randint(1, 3))
                a.checks.append("values:" + ",".join(a.allowed))
            elif r < 0.45:
                a.minlen = rng.randint(1, 3)
                a.checks.append("minlen:%d" % a.minlen)
                if rng.random() < 0.5:
                    a.maxlen = a.minlen + rng.randint(0, 6)
                    a.checks.append("maxlen:%d" % a.maxlen)
            elif r < 0.65:
                a.pattern = rng.randrange(len(PATTERNS))
                a.checks.append("pattern:" + hx(PATTERNS[a.pattern][0]))
            if rng.random() < 0.3:
                a.mandatory = True
            if rng.random() < 0.2:
                a.card = rng.choice(["none", "max:2"])
            if rng.random() < fmt_share:
                a.fmt = rng.choice(["upper", "lower"])
        elif a.kind == "level":
            if rng.random() < 0.3:
                a.hi = rng.randint(2, 5) - 1
                a.checks.append("upper:%d" % (a.hi + 1))
        elif a.kind == "vec":
            a.multi = rng.random() < 0.5
            a.sep = rng.choice([",", ",", ";", ".", ":"])
            if rng.random() < 0.4:
                a.init = ",".join(str(rng.randint(0, 9)) for _ in range(rng.randint(1, 3)))
            r = rng.random()
            if r < 0.2:
                a.card = "exact:%d" % rng.randint(1, 3)
            elif r < 0.35:
                lo = rng.randint(1, 2)
                a.card = "range:%d:%d" % (lo, lo + rng.randint(0, 3))
            elif r < 0.5:
                a.card = "max:%d" % rng.randint(1, 4)
            if rng.random() < 0.3:
                a.lo = rng.randint(0, 5)
                a.checks.append("lower:%d" % a.lo)
            if rng.random() < 0.2:
                a.mandatory = True
                a.init = None        # a non-empty container already "has a value"
        args.append(a)
    # argument constraints
    for i, a in enumerate(args):
        if n >= 2 and rng.random() < 0.35:
            others = [j for j in range(n) if j != i]
            tgt = rng.sample(others, rng.randint(1, min(2, len(others))))
            typ = rng.choice("rx")
            # a mandatory argument cannot be excluded by a rule-obeying line that uses the excluder: allowed, the
            # generator simply never uses the excluder then
            spell = []
            for j in tgt:
                b = args[j]
                forms = [f for f in (b.short, b.long, b.keyspec()) if f]
                spell.append(rng.choice(forms))
            a.cons.append((typ, tgt, spell))
    globs = []
    if n >= 2 and rng.random() < 0.35:
        members = rng.sample(range(n), rng.randint(2, min(3, n)))
        kind = rng.choice(["allof", "anyof", "oneof"])
        spell = []
        for j in members:
            b = args[j]
            spell.append(rng.choice([f for f in (b.short, b.long, b.keyspec()) if f]))
        globs.append((kind, members, spell))
    # value constraints: differ over int or over string arguments, disjoint over two list arguments
    if n >= 2 and rng.random() < 0.4:
        ints = [i for i, a in enumerate(args) if a.kind == "int"]
        strs = [i for i, a in enumerate(args) if a.kind == "str"]
        vecs = [i for i, a in enumerate(args) if a.kind == "vec"]
        opts = []
        if len(ints) >= 2:
            opts.append(("differ", ints))
        if len(strs) >= 2:
            opts.append(("differ", strs))
        if len(vecs) >= 2:
            opts.append(("disjoint", vecs))
        if opts:
            kind, pool = rng.choice(opts)
            members = rng.sample(pool, 2 if kind == "disjoint" else rng.randint(2, min(3, len(pool))))
            spell = []
            for j in members:
                b = args[j]
                spell.append(rng.choice([f for f in (b.short, b.long, b.keyspec()) if f]))
            globs.append((kind, members, spell))
    abbr = rng.random() < 0.75
    return args, globs, abbr


def cfg_lines(args, globs, abbr):
    out = ["pa cfg begin abbr=%d" % (1 if abbr else 0)]
    for a in args:
        t = ["pa arg", "key=" + a.keyspec(), "kind=" + a.kind]
        if a.mandatory:
            t.append("mandatory")
        if a.card:
            t.append("card=" + a.card)
        for c in a.checks:
            t.append("check=" + c)
        for typ, _, spell in a.cons:
            t.append(("req=" if typ == "r" else "excl=") + ";".join(spell))
        if a.multi:
            t.append("multi")
        if a.kind == "vec" and a.sep != ",":
            t.append("sep=" + hx(a.sep))
        if a.init is not None:
            t.append("init=" + (hx(a.init) if a.kind == "str" else a.init))
        if a.fmt:
            t.append("fmt=" + a.fmt)
        out.append(" ".join(t))
    for kind, _, spell in globs:
        out.append("pa glob %s %s" % (kind, ";".join(spell)))
    out.append("pa cfg end")
    return out


def gen_value(rng, a):
    if a.kind in ("int", "level"):
        lo, hi = max(a.lo, -1000), min(a.hi, 1000)
        if a.kind == "level":
            lo = max(lo, 0)
        v = rng.choice([lo, hi, rng.randint(lo, hi)])
        s = str(v)
        if v >= 0 and rng.random() < 0.1:
            s = "+" + s
        if rng.random() < 0.05 and not s.startswith("+"):
            s = ("-0" if s.startswith("-") else "0") + s.lstrip("-")
        return s, v
    if a.kind == "str":
        if a.allowed:
            s = rng.choice(a.allowed)
        elif a.pattern is not None:
            s = rng.choice(PATTERNS[a.pattern][1])
        else:
            cands = [w for w in WORDS if a.minlen <= len(w) <= a.maxlen] or ["x" * a.minlen]
            s = rng.choice(cands)
        return s, apply_fmt(a, s)        # (text as typed, what the destination holds)
    raise AssertionError


def gen_uses(rng, args, globs):
    """abstract command line obeying all rules: list of (arg index, payload); None when the drawn
    configuration admits none that this simple construction finds"""
    n = len(args)
    for _attempt in range(30):
        used = set(i for i, a in enumerate(args) if a.mandatory)
        for i in range(n):
            if rng.random() < 0.5:
                used.add(i)
        # handler constraints
        bad = False
        for kind, members, _ in globs:
            inter = [m for m in members if m in used]
            if kind == "allof":
                used.update(members)
            elif kind == "anyof":
                for m in inter[1:]:
                    if args[m].mandatory:
                        bad = True
                    used.discard(m)
            elif kind == "oneof":
                if not inter:
                    used.add(rng.choice(members))
                for m in inter[1:]:
                    if args[m].mandatory:
                        bad = True
                    used.discard(m)
        if bad:
            continue
        # requires closure
        changed = True
        while changed:
            changed = False
            for i in list(used):
                for typ, tgt, _ in args[i].cons:
                    if typ == "r":
                        for j in tgt:
                            if j not in used:
                                used.add(j)
                                changed = True
        # re-check any-of / one-of after the closure
        ok = True
        for kind, members, _ in globs:
            c = sum(1 for m in members if m in used)
            if kind in ("anyof", "oneof") and c > 1:
                ok = False
            if kind == "oneof" and c == 0:
                ok = False
        if not ok:
            continue
        # order: a requiring argument before the arguments it requires, an excluded argument never after its
        # excluder (before is fine: the exclusion takes effect from the excluder's use)
        order = list(used)
        rng.shuffle(order)
        before = []       # (x, y): x must come before y
        for i in used:
            for typ, tgt, _ in args[i].cons:
                for j in tgt:
                    if j in used:
                        before.append((i, j) if typ == "r" else (j, i))
        # topological sort honouring `before`
        res, pool = [], list(order)
        cyc = False
        while pool:
            free = [x for x in pool if not any(b == x and a in pool for a, b in before)]
            if not free:
                cyc = True
                break
            x = free[0]
            res.append(x)
            pool.remove(x)
        if cyc:
            continue
        uses = []
        single_use_globs = set(m for kind, members, _ in globs if kind in ("anyof", "oneof") for m in members)
        for i in res:
            a = args[i]
            if a.kind == "flag":
                uses.append((i, None))
            elif a.kind == "level":
                cap = min(a.hi if a.checks else 4, 4)
                if i in single_use_globs:
                    if rng.random() < 0.5 or cap < 1:
                        v = rng.randint(0, max(cap, 0))
                        uses.append((i, ("set", v)))
                    else:
                        uses.append((i, ("inc", 1)))
                elif rng.random() < 0.3:
                    uses.append((i, ("set", rng.randint(0, max(cap, 0)))))
                else:
                    if cap < 1:
                        uses.append((i, ("set", 0)))
                    else:
                        uses.append((i, ("inc", rng.randint(1, cap))))
            elif a.kind == "vec":
                lo, hi = a.minuses(), min(a.maxuses(), 6)
                cnt = rng.randint(lo, max(lo, hi))
                vals = [rng.randint(max(a.lo, 0), 40) for _ in range(cnt)]
                # any-of / one-of refuse a second key occurrence even of the same argument (the code's reading):
                # such an argument is spelled with one key occurrence only
                uses.append((i, ("vec", vals, i in single_use_globs)))
            else:
                k = 1
                if i not in single_use_globs and a.maxuses() > 1 and rng.random() < 0.4:
                    k = rng.randint(1, min(a.maxuses(), 3))
                for _ in range(k):
                    uses.append((i, gen_value(rng, a)))
        # a repeated scalar must not separate constraint order: keep repeats adjacent (they are)
        # exclusion check once more: no use of an excluded argument after its excluder
        pos = {}
        for p, (i, _) in enumerate(uses):
            pos.setdefault(i, []).append(p)
        viol = False
        for i in used:
            for typ, tgt, _ in args[i].cons:
                if typ == "x":
                    for j in tgt:
                        if j in pos and max(pos[j]) > min(pos[i]):
                            viol = True
        if viol:
            continue
        if not value_constraints_met(args, globs, uses):
            continue
        return uses
    return None


def final_values(args, uses):
    """destination of every argument after the uses: (used?, value) — int: converted value, str: text,
    vec: initial content + all elements"""
    fin = {}
    for i, a in enumerate(args):
        if a.kind == "vec":
            fin[i] = [False, [int(x) for x in a.init.split(",")] if a.init else []]
        else:
            fin[i] = [False, None]
    for i, p in uses:
        a = args[i]
        if a.kind == "vec":
            fin[i] = [True, fin[i][1] + list(p[1])]
        elif a.kind in ("int", "str"):
            fin[i] = [True, p[1]]
        else:
            fin[i][0] = True
    return fin


def value_constraints_met(args, globs, uses):
    fin = final_values(args, uses)
    for kind, members, _ in globs:
        if kind == "differ":
            vals = [fin[m][1] for m in members if fin[m][0]]
            if len(set(vals)) != len(vals):
                return False
        elif kind == "disjoint":
            a, b = members
            if set(fin[a][1]) & set(fin[b][1]):
                return False
    return True


def str_candidates(a):
    if a.allowed:
        return list(a.allowed)
    if a.pattern is not None:
        return list(PATTERNS[a.pattern][1])
    return [w for w in WORDS if a.minlen <= len(w) <= a.maxlen]


def expected(args, uses, extra_first=()):
    """destinations after evaluating `extra_first` (uses delivered by file/environment) then `uses`"""
    dest = []
    for a in args:
        if a.kind == "flag":
            dest.append(a.init == "1")
        elif a.kind == "int":
            dest.append(int(a.init) if a.init is not None else 0)
        elif a.kind == "str":
            dest.append(a.init or "")
        elif a.kind == "level":
            dest.append(int(a.init) if a.init is not None else 0)
        else:
            dest.append([int(x) for x in a.init.split(",")] if a.init else [])
    for i, p in list(extra_first) + list(uses):
        a = args[i]
        if a.kind == "flag":
            dest[i] = not (a.init == "1")
        elif a.kind == "int":
            dest[i] = p[1]
        elif a.kind == "str":
            dest[i] = p[1]
        elif a.kind == "level":
            dest[i] = p[1] if p[0] == "set" else dest[i] + p[1]
        else:
            dest[i] = dest[i] + p[1]
    out = []
    for i, a in enumerate(args):
        d = dest[i]
        if a.kind == "flag":
            out.append("%d:f=%d" % (i, 1 if d else 0))
        elif a.kind == "int":
            out.append("%d:i=%d" % (i, d))
        elif a.kind == "str":
            out.append("%d:s=%s" % (i, hx(d)))
        elif a.kind == "level":
            out.append("%d:l=%d" % (i, d))
        else:
            out.append("%d:v=[%s]" % (i, ",".join(map(str, d))))
    return "ok " + " ".join(out)


def unambiguous_prefixes(args, i, abbr):
    a = args[i]
    if not abbr or not a.long:
        return []
    longs = [b.long for b in args if b.long]
    res = []
    for k in range(2, len(a.long)):
        p = a.long[:k]
        if p[1] == "-" or p in longs:
            continue
        if sum(1 for l in longs if l.startswith(p)) == 1:
            res.append(p)
    return res


def key_forms(rng, args, i, abbr):
    """(kind, text) spellings of the key of argument i"""
    a = args[i]
    forms = []
    if a.short:
        forms.append(("short", a.short))
    if a.long:
        forms.append(("long", a.long))
        for p in unambiguous_prefixes(args, i, abbr):
            forms.append(("long", p))
    return forms


def next_word_ok(v):
    return v != "" and not v.startswith("-") and v not in ("(", ")", "!")


def spell(rng, args, uses, abbr):
    """one legal spelling (list of words) of the abstract command line"""
    words = []
    k = 0
    while k < len(uses):
        i, p = uses[k]
        a = args[i]
        forms = key_forms(rng, args, i, abbr)
        kind, key = rng.choice(forms)
        if a.kind == "flag":
            # flag group: following uses that are flags / level increments with short keys
            if kind == "short" and rng.random() < 0.5:
                grp = key
                j = k + 1
                while j < len(uses) and rng.random() < 0.7:
                    b = args[uses[j][0]]
                    if b.kind == "flag" and b.short:
                        grp += b.short
                        j += 1
                    else:
                        break
                # optionally close the group with a value-taking short key
                if j < len(uses):
                    b = args[uses[j][0]]
                    if b.kind in ("int", "str") and b.short and rng.random() < 0.5:
                        v = uses[j][1][0]
                        if rng.random() < 0.5:
                            words.append("-" + grp + b.short + v)
                            k = j + 1
                            continue
                        if next_word_ok(v):
                            words.append("-" + grp + b.short)
                            words.append(v)
                            k = j + 1
                            continue
                words.append("-" + grp)
                k = j
                continue
            words.append(("-" if kind == "short" else "--") + key)
        elif a.kind == "level":
            if p[0] == "inc":
                cnt = p[1]
                if kind == "short" and rng.random() < 0.6:
                    words.append("-" + key * cnt)
                else:
                    for _ in range(cnt):
                        kind2, key2 = rng.choice(forms)
                        words.append(("-" if kind2 == "short" else "--") + key2)
            else:
                v = str(p[1])
                if kind == "long" and rng.random() < 0.5:
                    words.append("--%s=%s" % (key, v))
                else:
                    words.append(("-" if kind == "short" else "--") + key)
                    words.append(v)
        elif a.kind == "vec":
            vals = [str(x) for x in p[1]]
            # cut the element list into uses / list values / free values
            cuts = []
            rest = list(vals)
            single = len(p) > 2 and p[2]
            while rest:
                take = rng.randint(1, len(rest))
                if single and not a.multi:
                    take = len(rest)
                cuts.append(rest[:take])
                rest = rest[take:]
            first = True
            for cidx, c in enumerate(cuts):
                v = a.sep.join(c)
                if rng.random() < 0.15:
                    v = v + a.sep                    # trailing separator: empty element dropped
                if not first and a.multi and (single or rng.random() < 0.6) and next_word_ok(v):
                    words.append(v)                  # free value
                    continue
                kind2, key2 = rng.choice(forms) if not first else (kind, key)
                if kind2 == "long" and rng.random() < 0.4:
                    words.append("--%s=%s" % (key2, v))
                elif kind2 == "short" and rng.random() < 0.3:
                    words.append("-%s%s" % (key2, v))
                else:
                    words.append(("-" if kind2 == "short" else "--") + key2)
                    words.append(v)
                first = False
            # a following bare word would be swallowed as a free value of a multi-value argument: fine, the
            # next use always starts with a key
        else:
            v = p[0]
            r = rng.random()
            if kind == "long":
                if r < 0.5 or not next_word_ok(v):
                    words.append("--%s=%s" % (key, v))
                else:
                    words.append("--" + key)
                    words.append(v)
            else:
                if (r < 0.4 and v != "") or not next_word_ok(v):
                    if v == "":
                        return None
                    words.append("-%s%s" % (key, v))
                else:
                    words.append("-" + key)
                    words.append(v)
        k += 1
    return words


def count_values(args, uses):
    c = {}
    for i, p in uses:
        a = args[i]
        c[i] = c.get(i, 0) + (len(p[1]) if a.kind == "vec" else 1)
    return c


def break_rule(rng, args, globs, uses, abbr):
    """a mutation of the abstract line that certainly breaks one declared rule; returns
    (label, words) or None"""
    n = len(args)
    choices = ["unknown_key", "bad_value", "missing_value"]
    if any(a.mandatory for a in args):
        choices.append("drop_mandatory")
    if any(a.maxuses() < 99 for a in args):
        choices.append("too_many")
    if any(typ == "x" for a in args for typ, _, _ in a.cons):
        choices.append("excluded")
    if any(typ == "r" for a in args for typ, _, _ in a.cons):
        choices.append("drop_required")
    if globs:
        choices.append("glob")
    if any(a.card and a.card.split(":")[0] in ("exact", "range") for a in args):
        choices.append("too_few")
    m = rng.choice(choices)
    u = list(uses)
    if m == "unknown_key":
        words = spell(rng, args, u, abbr)
        if words is None:
            return None
        used_s = set(a.short for a in args if a.short)
        cand = [c for c in "ehvxHQZ" if c not in used_s]
        bad = rng.choice(["-" + rng.choice(cand), "--nosucharg", "--zz=1"])
        # not behind a multi-value argument or a value-expecting key: put it first
        return m, [bad] + words
    if m == "drop_mandatory":
        i = rng.choice([i for i, a in enumerate(args) if a.mandatory])
        # drop i and everything that (transitively) needs it is irrelevant: the line stays broken
        u = [x for x in u if x[0] != i]
        words = spell(rng, args, u, abbr)
        return (m, words) if words is not None else None
    if m == "too_many":
        cand = [i for i, a in enumerate(args) if a.maxuses() < 99 and any(x[0] == i for x in u)]
        if not cand:
            return None
        i = rng.choice(cand)
        a = args[i]
        cnt = count_values(args, u)[i]
        extra = a.maxuses() - cnt + 1
        idx = max(p for p, x in enumerate(u) if x[0] == i)
        if a.kind == "vec":
            u[idx] = (i, ("vec", u[idx][1][1] + [7] * extra) + tuple(u[idx][1][2:]))
        elif a.kind == "flag":
            u = u[:idx + 1] + [(i, None)] * extra + u[idx + 1:]
        else:
            u = u[:idx + 1] + [u[idx]] * extra + u[idx + 1:]
        words = spell(rng, args, u, abbr)
        return (m, words) if words is not None else None
    if m == "too_few":
        cand = [i for i, a in enumerate(args) if a.card and a.card.split(":")[0] in ("exact", "range")
                and any(x[0] == i for x in u) and a.minuses() > 1]
        if not cand:
            return None
        i = rng.choice(cand)
        idx = [p for p, x in enumerate(u) if x[0] == i][0]
        u[idx] = (i, ("vec", u[idx][1][1][:args[i].minuses() - 1]) + tuple(u[idx][1][2:]))
        words = spell(rng, args, u, abbr)
        return (m, words) if words is not None else None
    if m == "bad_value":
        cand = [p for p, x in enumerate(u) if args[x[0]].kind in ("int", "str", "vec")]
        if not cand:
            return None
        p = rng.choice(cand)
        i = u[p][0]
        a = args[i]
        if a.kind == "int":
            opts = ["abc", "12x", "1.5", "99999999999", "5-", " 5", "0x10"]
            if a.lo > -1000:
                opts.append(str(a.lo - 1))
            if a.hi < 1000:
                opts.append(str(a.hi + 1))
            v = rng.choice(opts)
            u[p] = (i, (v, 0))
        elif a.kind == "str":
            if a.allowed:
                u[p] = (i, ("Nobody", ""))
            elif a.pattern is not None:
                u[p] = (i, (rng.choice(PATTERNS[a.pattern][2]), ""))
                m = "bad_value:pattern"
            elif a.minlen > 0 and a.checks:
                u[p] = (i, ("y" * (a.minlen - 1) if a.minlen > 1 and rng.random() < 0.5 or a.maxlen >= 99 else "y" * (a.maxlen + 1), ""))
                if u[p][1][0] == "" or (len(u[p][1][0]) >= a.minlen and len(u[p][1][0]) <= a.maxlen):
                    return None
            else:
                return None
        else:
            vals = list(u[p][1][1])
            words = spell(rng, args, u[:p] + u[p + 1:], abbr)
            if words is None:
                return None
            key = ("-" + a.short) if a.short else ("--" + a.long)
            badv = rng.choice(["x", "1" + a.sep + "y", str(a.lo - 1) if a.checks else "z"])
            return m, words + [key, badv]
        words = spell(rng, args, u, abbr)
        return (m, words) if words is not None else None
    if m == "missing_value":
        cand = [i for i, a in enumerate(args) if a.kind in ("int", "str", "vec")]
        if not cand:
            return None
        i = rng.choice(cand)
        a = args[i]
        words = spell(rng, args, [x for x in u if x[0] != i], abbr)
        if words is None:
            return None
        key = ("-" + a.short) if a.short else ("--" + a.long)
        # value missing at the end of the line, or followed by another key
        if rng.random() < 0.5 or not words:
            return m, words + [key]
        cut = rng.randint(0, len(words))
        # only in front of a word that starts with a dash (a key)
        while cut < len(words) and not words[cut].startswith("-"):
            cut += 1
        if cut < len(words) and (words[cut] == "--" or not words[cut].startswith("-")):
            return None
        # the previous word must not be a key waiting for its value / a multi-value context
        return m, words[:cut] + [key] + words[cut:] if (cut == 0 or True) else None
    if m == "excluded":
        cand = [(i, tgt) for i, a in enumerate(args) for typ, tgt, _ in a.cons if typ == "x"]
        i, tgt = rng.choice(cand)
        j = rng.choice(tgt)
        b = args[j]
        # use i (the excluder), then its excluded partner j through one of its keys
        if b.kind == "flag":
            pj = (j, None)
        elif b.kind == "level":
            pj = (j, ("inc", 1))
        elif b.kind == "vec":
            pj = (j, ("vec", [max(b.lo, 0) + 1] * b.minuses()))
        else:
            pj = (j, gen_value(rng, b))
        a = args[i]
        if a.kind == "flag":
            pi = (i, None)
        elif a.kind == "level":
            pi = (i, ("inc", 1))
        elif a.kind == "vec":
            pi = (i, ("vec", [max(a.lo, 0) + 1] * a.minuses()))
        else:
            pi = (i, gen_value(rng, a))
        base = [x for x in u if x[0] not in (i, j)]
        words = spell(rng, args, base + [pi, pj], abbr)
        return (m, words) if words is not None else None
    if m == "drop_required":
        cand = [(i, tgt) for i, a in enumerate(args) for typ, tgt, _ in a.cons if typ == "r"]
        i, tgt = rng.choice(cand)
        j = rng.choice(tgt)
        a = args[i]
        if a.kind == "flag":
            pi = (i, None)
        elif a.kind == "level":
            pi = (i, ("inc", 1))
        elif a.kind == "vec":
            pi = (i, ("vec", [max(a.lo, 0) + 1] * a.minuses()))
        else:
            pi = (i, gen_value(rng, a))
        base = [x for x in u if x[0] not in (i, j)]
        words = spell(rng, args, base + [pi], abbr)
        return (m, words) if words is not None else None
    if m == "glob":
        kind, members, _ = rng.choice(globs)

        def mk(i):
            a = args[i]
            if a.kind == "flag":
                return (i, None)
            if a.kind == "level":
                return (i, ("inc", 1))
            if a.kind == "vec":
                return (i, ("vec", [max(a.lo, 0) + 1] * a.minuses()))
            return (i, gen_value(rng, a))
        if kind == "differ":
            # two listed arguments end up with the same value (for int also: equal after conversion)
            a, b = rng.sample(members, 2)
            if args[a].kind == "int":
                lo, hi = max(args[a].lo, args[b].lo), min(args[a].hi, args[b].hi)
                if lo > hi:
                    return None
                v = rng.choice([lo, hi, rng.randint(lo, hi)])
                ta, tb = str(v), str(v)
                if v >= 0 and rng.random() < 0.3:
                    tb = "+" + tb
                pa, pb = (a, (ta, v)), (b, (tb, v))
            else:
                # equal AFTER formatting (the constraint compares the destinations): the same word where both
                # formatters agree on it, or two different words that a formatter maps onto each other
                pairs = [(wa, wb) for wa in str_candidates(args[a]) for wb in str_candidates(args[b])
                         if apply_fmt(args[a], wa) == apply_fmt(args[b], wb)]
                if not pairs:
                    return None
                diff = [p_ for p_ in pairs if p_[0] != p_[1]]
                wa, wb = rng.choice(diff) if diff and rng.random() < 0.5 else rng.choice(pairs)
                pa, pb = (a, (wa, apply_fmt(args[a], wa))), (b, (wb, apply_fmt(args[b], wb)))
            u = [x for x in u if x[0] not in (a, b)] + rng.sample([pa, pb], 2)
        elif kind == "disjoint":
            # the two lists share an element; the lists are built unsorted where the cardinality allows it
            a, b = members
            if rng.random() < 0.5:
                a, b = b, a
            c = max(args[a].lo, args[b].lo, 0) + rng.randint(0, 9)
            ina = [int(x) for x in args[a].init.split(",")] if args[a].init else []

            def listfor(i, other):
                k = max(args[i].minuses(), min(2, args[i].maxuses()))
                return [c + other] * (k - 1) + [c]
            va, vb = listfor(a, 3), listfor(b, 7)
            if rng.random() < 0.3 and ina:
                vb = [ina[-1] + 11] * (len(vb) - 1) + [ina[-1]]      # clash with the initial content of the other list
                if ina[-1] < max(args[b].lo, 0):
                    return None
            u = [x for x in u if x[0] not in (a, b)] + [(a, ("vec", va)), (b, ("vec", vb))]
        elif kind == "allof":
            j = rng.choice(members)
            u = [x for x in u if x[0] != j]
        elif kind == "anyof" or (kind == "oneof" and rng.random() < 0.6):
            a, b = rng.sample(members, 2)
            u = [x for x in u if x[0] not in (a, b)] + [mk(a), mk(b)]
        else:
            u = [x for x in u if x[0] not in members]
        words = spell(rng, args, u, abbr)
        return (m + ":" + kind, words) if words is not None else None
    return None


def quote_word(rng, w):
    """one way of quoting a word for a file line / the environment string"""
    if w == "":
        return None
    style = rng.random()
    if style < 0.5 and not any(c in w for c in " '\"\\"):
        return w
    if style < 0.75:
        return "".join("\\" + c if c in " '\"\\" else c for c in w)
    if "'" not in w and "\\" not in w:
        return "'" + w + "'"
    if '"' not in w and "\\" not in w:
        return '"' + w + '"'
    return "".join("\\" + c if c in " '\"\\" else c for c in w)


RAW_WORDS = ["-", "--", "---", "-=", "--=", "--=x", "-a=5", "(", ")", "!", "", "-!", "--a,b", "--a,alpha", "x-ray",
             "--x-ray", "-a-b", "--alpha=", "--alpha==", "=", "-(", "--(", "a b", "--in put", "-\x01", "\xff\xfe",
             "--" + "x" * 70, "-" + "v" * 40, "--,", "--a,", "--,a", "-,"]


def raw_argv(rng, args):
    n = rng.randint(0, 7)
    ws = []
    for _ in range(n):
        r = rng.random()
        if r < 0.45:
            ws.append(rng.choice(RAW_WORDS))
        elif r < 0.7 and args:
            a = rng.choice(args)
            if a.short and rng.random() < 0.5:
                ws.append("-" + a.short + rng.choice(["", "5", "=5", "x", "-"]))
            elif a.long:
                ws.append("--" + a.long[:rng.randint(1, len(a.long))] + rng.choice(["", "=", "=5", "=-", " "]))
            else:
                ws.append("5")
        elif r < 0.85:
            ws.append(str(rng.randint(-3, 12)))
        else:
            ws.append("".join(chr(rng.choice([45, 61, 40, 41, 33, 44, 32, 97, 0x31, 0x80, 1])) for _ in range(rng.randint(0, 5))))
    return ws


# ---- sub-group arguments (appended) ------------------------------------------------------------------------------
# A word-level reading of the documented behaviour of a handler with sub-group arguments, written from the
# documentation and the comments of Handler::processArg — NOT a call of the Lean model.  It covers exactly the
# well-formed words the sub-group generator produces: `-x`, `-xy` (bundles), `-nVALUE`, `--long`, `--long=VALUE`,
# bare values; kinds flag / int / str / vec (multi-value); no positional argument, no inversion, no brackets.
#
#   * a key designates one argument of a handler over BOTH containers: exact sub-group key, exact plain key, then an
#     abbreviation, which must be unique over both containers (abbreviations only when the handler allows them);
#   * after a sub-group key the following elements are offered to the sub handler as long as it takes them; the first
#     element it does not know goes back to the main handler (so `--sub -m` gives -m to the main handler, and after
#     `--sub`, `-c` means the sub handler's -c when it has one);
#   * the sub handler keeps its state between two visits; its own end checks never run (by the code's design:
#     only the main handler's containers, constraints and handler constraints are checked at the end);
#   * the sub-group ARGUMENT has the mandatory flag, an optional cardinality and requires/excludes constraints of the
#     main handler.

class SgThrow(Exception):
    pass


class SgArg:
    def __init__(self, short, long, kind, mandatory=False):
        self.short, self.long, self.kind, self.mandatory = short, long, kind, mandatory

    def keyspec(self):
        if self.short and self.long:
            return "%s,%s" % (self.short, self.long)
        return self.short or self.long

    def line(self):
        return "pa arg key=%s kind=%s%s%s" % (self.keyspec(), self.kind, " multi" if self.kind == "vec" else "",
                                              " mandatory" if self.mandatory else "")


class SgSub:
    """a sub-group argument: key, settings, and the sub handler (its arguments and abbreviation flag)"""
    def __init__(self, short, long, args, abbr=1, mandatory=False, card=None, req=None, excl=None):
        self.short, self.long, self.args, self.abbr = short, long, args, abbr
        self.mandatory, self.card = mandatory, card
        self.req, self.excl = req, excl          # (index of a plain main argument, spelling) or None

    keyspec = SgArg.keyspec

    def lines(self):
        t = "pa sub begin key=%s" % self.keyspec()
        if self.mandatory:
            t += " mandatory"
        if self.card:
            t += " card=" + self.card
        t += " abbr=%d" % self.abbr
        if self.req:
            t += " req=" + self.req[1]
        if self.excl:
            t += " excl=" + self.excl[1]
        return [t] + [a.line() for a in self.args] + ["pa sub end"]


class SgCursor:
    """position in the element stream: word index, and inside a word the character position (single-dash words) or
    0 = key / 1 = value (`--long=value`)"""
    def __init__(self, words, wi=0, ci=0):
        self.words, self.wi, self.ci = words, wi, ci
        if ci == 0:
            self._enter()

    def copy(self):
        c = SgCursor.__new__(SgCursor)
        c.words, c.wi, c.ci = self.words, self.wi, self.ci
        return c

    def assign(self, o):
        self.wi, self.ci = o.wi, o.ci

    def _enter(self):
        if self.wi < len(self.words):
            w = self.words[self.wi]
            self.ci = 1 if (w.startswith("-") and not w.startswith("--") and len(w) > 1) else 0

    def at_end(self):
        return self.wi >= len(self.words)

    def cur(self):
        w = self.words[self.wi]
        if w.startswith("--") and len(w) > 2:
            name, eq, val = w[2:].partition("=")
            return ("S", name) if self.ci == 0 else ("V", val)
        if w.startswith("-") and len(w) > 1:
            if self.ci < 0:
                return ("V", w[-self.ci:])
            return ("C", w[self.ci])
        return ("V", w)

    def step(self):
        w = self.words[self.wi]
        if w.startswith("--") and len(w) > 2:
            if self.ci == 0 and "=" in w:
                self.ci = 1
                return
        elif w.startswith("-") and len(w) > 1 and 0 < self.ci < len(w) - 1:
            self.ci += 1
            return
        self.wi += 1
        self.ci = 0
        self._enter()

    def rest_as_value(self):
        """`remArgStrAsVal`: the remaining characters of a single-dash word become the value element"""
        w = self.words[self.wi]
        if not w.startswith("--") and w.startswith("-") and 0 < self.ci < len(w) - 1:
            self.ci = -(self.ci + 1)
            return True
        return False


class SgHandler:
    def __init__(self, args, subs=(), abbr=1):
        self.args, self.subs, self.abbr = args, list(subs), abbr
        self.vals = [{"flag": 0, "int": 0, "str": "", "vec": []}[a.kind] for a in args]
        self.vals = [list(v) if isinstance(v, list) else v for v in self.vals]
        self.cnt = [0] * len(args)
        self.used = [False] * len(args)
        self.last = None
        self.pending = []            # (plain argument index, 'r'|'x')
        self.sub_called = [0] * len(self.subs)
        self.sub_cnt = [0] * len(self.subs)
        self.sub_h = [SgHandler(s.args, (), s.abbr) for s in self.subs]
        self.long_lookups = []       # long names looked up at this level that were not exact sub-handler business

    def find(self, el):
        """('sub', j) | ('arg', i) | None; SgThrow when an abbreviation is ambiguous"""
        typ, k = el
        if typ == "C":
            for j, s in enumerate(self.subs):
                if s.short == k:
                    return ("sub", j)
            for i, a in enumerate(self.args):
                if a.short == k:
                    return ("arg", i)
            return None
        self.long_lookups.append(k)
        for j, s in enumerate(self.subs):
            if s.long == k:
                return ("sub", j)
        for i, a in enumerate(self.args):
            if a.long == k:
                return ("arg", i)
        if not self.abbr:
            return None
        ms = [j for j, s in enumerate(self.subs) if s.long and s.long.startswith(k)]
        mp = [i for i, a in enumerate(self.args) if a.long and a.long.startswith(k)]
        if len(ms) + len(mp) > 1:
            raise SgThrow("ambiguous abbreviation " + k)
        if ms:
            return ("sub", ms[0])
        if mp:
            return ("arg", mp[0])
        return None

    def identified(self, i):
        """constraints of this handler when plain argument i was identified"""
        for p in list(self.pending):
            if p[0] == i:
                if p[1] == "x":
                    raise SgThrow("excluded")
                self.pending.remove(p)

    def store(self, i, value):
        a = self.args[i]
        self.identified(i)
        if a.kind in ("flag", "int", "str"):
            self.cnt[i] += 1
            if self.cnt[i] > 1:
                raise SgThrow("cardinality")
        self.used[i] = True
        if a.kind == "flag":
            self.vals[i] = 1
        elif a.kind == "int":
            if not (value.lstrip("+-").isdigit() and value.lstrip("+-") != ""):
                raise SgThrow("conversion")
            self.vals[i] = int(value)
        elif a.kind == "str":
            self.vals[i] = value
        else:
            for t in value.split(","):
                if t == "":
                    continue
                if not t.lstrip("+-").isdigit():
                    raise SgThrow("conversion")
                self.vals[i].append(int(t))

    def eval_single(self, cur):
        el = cur.cur()
        if el[0] == "V":
            if self.last is not None:
                self.store(self.last, el[1])
                return "consumed"
            return "unknown"
        r = self.find(el)
        if r is not None and r[0] == "sub":
            j = r[1]
            s = self.subs[j]
            # constraints of the main handler, cardinality of the sub-group argument
            for p in list(self.pending):
                if p[0] == ("sub", j):
                    if p[1] == "x":
                        raise SgThrow("excluded")
                    self.pending.remove(p)
            if s.card:
                c = s.card.split(":")
                hi = int(c[1]) if c[0] in ("max", "exact") else int(c[2])
                self.sub_cnt[j] += 1
                if self.sub_cnt[j] > hi:
                    raise SgThrow("cardinality")
            self.sub_called[j] = 1
            for typ, con in (("r", s.req), ("x", s.excl)):
                if con is not None and (con[0], typ) not in self.pending:
                    self.pending.append((con[0], typ))
            sc = cur.copy()
            sc.step()
            while not sc.at_end() and self.sub_h[j].eval_single(sc) == "consumed":
                cur.assign(sc)
                sc.step()
            self.last = None
            return "consumed"
        self.last = None
        if r is None:
            return "unknown"
        i = r[1]
        a = self.args[i]
        if a.kind == "vec":
            self.last = i
        if a.kind == "flag":
            self.store(i, None)
            return "consumed"
        c2 = cur.copy()
        if not c2.rest_as_value():
            c2.step()
        if c2.at_end() or c2.cur()[0] != "V":
            raise SgThrow("requires value")
        self.store(i, c2.cur()[1])
        cur.assign(c2)
        return "consumed"

    def evaluate(self, words):
        cur = SgCursor(words)
        while not cur.at_end():
            if self.eval_single(cur) == "unknown":
                raise SgThrow("unknown argument")
            cur.step()
        for i, a in enumerate(self.args):
            if a.mandatory and not self.used[i]:
                raise SgThrow("mandatory missing")
        for j, s in enumerate(self.subs):
            if s.mandatory and not self.sub_called[j]:
                raise SgThrow("mandatory sub-group argument missing")
            if s.card and self.sub_cnt[j] > 0:
                c = s.card.split(":")
                if (c[0] == "exact" and self.sub_cnt[j] != int(c[1])) or (c[0] == "range" and self.sub_cnt[j] < int(c[1])):
                    raise SgThrow("cardinality not met")
        if any(p[1] == "r" for p in self.pending):
            raise SgThrow("required argument missing")
        # by the code's design nothing of a sub handler is checked at the end (its mandatory arguments included)

    def show(self):
        out = []
        for i, a in enumerate(self.args):
            v = self.vals[i]
            if a.kind == "flag":
                out.append("%d:f=%d" % (i, v))
            elif a.kind == "int":
                out.append("%d:i=%d" % (i, v))
            elif a.kind == "str":
                out.append("%d:s=%s" % (i, hx(v)))
            else:
                out.append("%d:v=[%s]" % (i, ",".join(map(str, v))))
        return "".join(" " + x for x in out)


def sg_expect(plain, subs, abbr, words):
    """(expected result line or 'throw', long names looked up at the main level)"""
    h = SgHandler(plain, subs, abbr)
    try:
        h.evaluate(list(words))
    except SgThrow:
        return "throw", h.long_lookups
    out = "ok" + h.show()
    for j in range(len(subs)):
        out += " | s%d=%d%s" % (j, h.sub_called[j], h.sub_h[j].show())
    return out, h.long_lookups
