"""component plugin: argument keys and the argument table (C05)"""
import itertools
import random

import vlib
from vlib import Case, Problem

COMPONENT = "keys"
DRIVER = "model-keys"

PROPERTIES = {
    "C05": {
        "lean_module": "CelmaVerif.Props.C05",
        "obligation_modules": ["CelmaVerif.Props.C05s"],
        "kind": "functional",
        "trusted": [
            "hand-written model CelmaVerif/Model/Keys.lean of ArgumentKey (argument_key.cpp), Storage::addArgument "
            "(storage.hpp) and ArgumentContainer::findArg (argument_container.cpp), tied by the correspondence run "
            "(harness/keys.cpp drives the real ArgumentKey / ArgumentContainer with real TypedArgBase objects from "
            "destination(), ASan+UBSan) on every invocation",
            "hand-written model CelmaVerif/Model/KeysSub.lean of the handler's two argument containers "
            "(ArgumentContainer::addArgument( obj, key, also_check) / checkKeyUnused, head of Handler::processArg), tied by "
            "`keys addsub` / `keys word` (harness/keys.cpp: a real Handler with plain and sub-group arguments, "
            "hfNoAbbr on and off, through Handler::evalArguments)",
            "std::string::find/substr/compare/erase/operator[] semantics as modelled (s[size()] is the NUL)",
        ],
        "assumptions": [
            "ArgumentContainer is constructed without duplicates allowed (the only way the library constructs it)",
            "key characters are compared for equality only; operator< on bytes >= 0x80 (signedness of plain char) "
            "is not modelled and not part of the property",
        ],
    }
}

RULE = ("a case is one container pair (abbreviations on / off) filled by `keys add` lines and queried by `keys find` "
        "lines, and one handler whose plain arguments are the `keys add` lines and whose sub-group arguments (its second "
        "container) are the `keys addsub` lines, queried by `keys word` lines through Handler::evalArguments; one evaluation = one line run on the real classes and on the Lean model; distinct_nontrivial = distinct "
        "(operation, abbreviation flag, table-size class, kind of lookup key, expected match kind "
        "exact/unique-prefix/ambiguous/unknown/refused/accepted, result class) tuples")

SRC = None


def lib_sources():
    import os
    res = []
    for d in ("src/library/prog_args", "src/library/prog_args/detail"):
        full = os.path.join(vlib.REPO, d)
        for f in sorted(os.listdir(full)):
            if f.endswith(".cpp"):
                res.append(d + "/" + f)
    res += ["src/library/appl/arg_string_2_array.cpp", "src/library/format/text_block.cpp"]
    return res


def build_harness(work, prop):
    return vlib.build_harness(work, "harness/keys.cpp", lib_sources(), extra_flags=["-w"])


def hexs(s):
    if isinstance(s, str):
        s = s.encode("latin-1")
    return "".join("%02x" % b for b in s) or "-"


def unhex(h):
    return b"" if h == "-" else bytes(int(h[i:i + 2], 16) for i in range(0, len(h), 2))


# ---------------------------------------------------------------------------------------------
# the property's own oracle, written from the documented key syntax and the property text,
# independent of the C++ and of the Lean model; it works on the *set* of accepted keys

OKCH = set(b"abcdefghijklmnopqrstuvwxyz0123456789-_")


def strip_dashes(p):
    n = 0
    while n < 2 and p[n:n + 1] == b"-":
        n += 1
    return p[n:], n


def ref_parse(spec):
    """(short, long) for the documented simple forms, None when the oracle has no opinion"""
    if not spec or any(c not in OKCH | {0x2c} for c in spec):
        return None
    parts = spec.split(b",")
    if len(parts) == 1:
        w, nd = strip_dashes(parts[0])
        if w.startswith(b"-"):
            return None
        if w == b"":
            return (b"", b"")                      # "-" / "--": the positional key
        if len(w) == 1 and nd < 2:
            return (w, b"")
        return (b"", w)
    if len(parts) == 2:
        a, _ = strip_dashes(parts[0])
        b, _ = strip_dashes(parts[1])
        if a.startswith(b"-") or b.startswith(b"-") or not a or not b:
            return None
        if len(a) == 1 and len(b) >= 2:
            return (a, b)
        if len(b) == 1 and len(a) >= 2:
            return (b, a)
    return None


def shares(e, k):
    if e == (b"", b"") and k == (b"", b""):
        return True
    return (e[0] != b"" and e[0] == k[0]) or (e[1] != b"" and e[1] == k[1])


def oracle(case_lines, impl):
    """yields (index into case_lines, expected line or None, classification)
    The property speaks about the keys of one handler as ONE set: `table` is the union of the plain and the
    sub-group arguments in definition order (index = global definition index), `is_sub[j]` says in which of the
    two containers entry j lives (only the container-level probes `keys find` / `keys findc` care)."""
    table = []      # accepted (short, long)
    is_sub = []
    valid = True    # every add so far was understood by the oracle
    for i, op in enumerate(case_lines):
        t = op.split(" ")
        exp, kind = None, ""
        if not valid:
            yield i, None, ""
            continue
        if t[:2] in (["keys", "add"], ["keys", "addsub"]) and len(t) == 3:
            sub = t[1] == "addsub"
            k = ref_parse(unhex(t[2]))
            if k is None:
                # a specification the oracle has no opinion on: if the implementation refused it the table is
                # unchanged and judging goes on, otherwise the rest of the case is left to the model comparison
                valid = (impl[i] or "").startswith("throw")
            else:
                if any(shares(e, k) for e in table):
                    clash_other = any(shares(e, k) and is_sub[j] != sub for j, e in enumerate(table))
                    exp, kind = "throw invalid_argument", ("refused-other" if clash_other else "refused")
                else:
                    exp, kind = "ok idx=%d" % len(table), "accepted"
                    table.append(k)
                    is_sub.append(sub)
        elif t[:2] == ["keys", "find"] and len(t) == 4 and valid:
            k = ref_parse(unhex(t[3]))
            if k is not None and not (k[0] and k[1]):
                abbr = t[2] == "1"
                exact = [j for j, e in enumerate(table) if shares(e, k) and not is_sub[j]]
                if exact:
                    exp, kind = "ok %d" % exact[0], "exact"
                elif k[1] and abbr:
                    c = [j for j, e in enumerate(table) if e[1].startswith(k[1]) and not is_sub[j]]
                    if len(c) == 1:
                        exp, kind = "ok %d" % c[0], "unique-prefix"
                    elif not c:
                        exp, kind = "ok none", "unknown"
                    else:
                        exp, kind = "throw runtime_error", "ambiguous"
                else:
                    exp, kind = "ok none", "unknown"
        elif t[:2] == ["keys", "findc"] and len(t) == 4 and valid:
            c = unhex(t[3])
            if c and c[0] in OKCH and c != b"-":
                exact = [j for j, e in enumerate(table) if e[0] == c and not is_sub[j]]
                exp, kind = ("ok %d" % exact[0], "exact") if exact else ("ok none", "unknown")
        elif t[:2] == ["keys", "word"] and len(t) == 4 and valid:
            exp, kind = word_oracle(table, t[2] == "1", unhex(t[3]))
        yield i, exp, kind


def word_oracle(table, abbr, w):
    """what the property text demands of a key word of the command line, over the *set* of defined keys of the
    handler (plain and sub-group arguments together, `table` is the union): `-c`
    selects the argument with the short key c, `--name` the argument with the long key name (of ANY length >= 1:
    `--v` is the long key v, never the short key), else with abbreviations the only argument whose long key starts
    with name (also for a name of one character), else none"""
    if len(w) == 2 and w[:1] == b"-" and w[1] in OKCH and w[1:] != b"-":
        exact = [j for j, e in enumerate(table) if e[0] == w[1:]]
        return ("ok %d" % exact[0], "w-exact-short") if exact else ("ok none", "w-unknown")
    if len(w) >= 3 and w[:2] == b"--" and all(c in OKCH for c in w[2:]) and w[2:3] != b"-":
        name = w[2:]
        exact = [j for j, e in enumerate(table) if e[1] == name]
        if exact:
            return "ok %d" % exact[0], "w-exact-long%d" % min(len(name), 2)
        c = [j for j, e in enumerate(table) if e[1].startswith(name)] if abbr else []
        if len(c) == 1:
            return "ok %d" % c[0], "w-unique-prefix%d" % min(len(name), 2)
        return ("throw runtime_error", "w-ambiguous") if c else ("ok none", "w-unknown")
    return None, ""


def judge(prop, case, impl, model):
    probs = []
    ops = ["case " + case.cid] + case.lines
    exp = {i + 1: (e, k) for i, e, k in oracle(case.lines, impl[1:] + [None] * len(case.lines))}
    for i, op in enumerate(ops):
        a = impl[i] if i < len(impl) else None
        b = model[i] if i < len(model) else None
        if a is not None and a.startswith("!!"):
            probs.append(Problem("oracle", case, i, op, a, b))
            break
        if (a is not None and a.startswith("bad-op")) or (b is not None and b.startswith("bad-op")):
            probs.append(Problem("badop", case, i, op, a, b))
            break
        e = exp.get(i, (None, ""))[0]
        if isinstance(e, str):
            e = (e,)
        if a is not None and e is not None and a not in e:
            probs.append(Problem("oracle", case, i, op, a, b, detail="the property demands: " + " or ".join(e)))
            if op.startswith("keys word ") and a == b and len(probs) < 4:
                continue            # the table is not changed by a lookup: the rest of the case is still judged
            break
        if a != b:
            probs.append(Problem("diff", case, i, op, a, b))
            break
    return probs


def diff_is_failure(prop, p):
    """A difference on a line the oracle understands was already reported as an oracle failure; what is left
    are garbage specifications (parse rejections the property does not talk about) and the `parse`/`cmp`
    probes: tie only."""
    return False


def nontrivial_key(op, result):
    t = op.split(" ")
    r = (result or "").split(" ")
    rc = " ".join(r[:2]) if r and r[0] == "throw" else ("ok none" if r[:2] == ["ok", "none"] else r[0])
    if t[1] == "word":
        w = unhex(t[3])
        return (t[1], t[2], "short" if w[:2] != b"--" else "long%d" % min(len(w) - 2, 3), rc)
    if t[1] in ("find", "findc"):
        k = ref_parse(unhex(t[3])) if t[1] == "find" else (unhex(t[3]), b"")
        kk = "garbage" if k is None else ("pos" if k == (b"", b"") else "short" if not k[1] else "long%d" % min(len(k[1]), 4))
        return (t[1], t[2], kk, rc)
    if t[1] in ("add", "addsub"):
        k = ref_parse(unhex(t[2]))
        kk = "garbage" if k is None else ("pos" if k == (b"", b"") else "short" if not k[1] else "long" if not k[0] else "both")
        return (t[1], kk, rc, unhex(t[2])[:2].count(b"-"[0]))
    return (t[1], rc) + tuple(r[1:5] if t[1] == "cmp" else ())


def shrink_keep(line):
    return False


# ---------------------------------------------------------------------------------------------
# generators

POOL_WORDS = ["in", "inp", "inpa", "inpb", "iq"]          # prefix-closed from length 2 on
POOL_SPECS = ["x", "y"] + [w for w in POOL_WORDS] + ["x," + w for w in POOL_WORDS] + ["y," + w for w in POOL_WORDS]
POOL_LOOKUPS = ["x", "y", "i"] + POOL_WORDS + ["inpab", "z"]


def lookup_lines(keys):
    out = []
    for k in keys:
        for abbr in ("1", "0"):
            out.append("keys find %s %s" % (abbr, hexs(k)))
    return out


def word_lines(words):
    """key words through the real Handler::evalArguments"""
    return ["keys word %s %s" % (abbr, hexs(w)) for w in words for abbr in ("1", "0")]


POOL_CMDWORDS = ["-x", "-y", "-i", "--x", "--i", "--in", "--inp", "--inpa", "--inpb", "--iq", "--inpab", "--z", "--zz"]


def exhaustive_cases(max_keys):
    """all sets of <= max_keys specs over the pool x all definition orders x every exact key and every prefix
    x abbreviations on and off"""
    cases = []
    look = lookup_lines(POOL_LOOKUPS) + word_lines(POOL_CMDWORDS)
    n = 0
    for size in range(0, max_keys + 1):
        for combo in itertools.combinations(POOL_SPECS, size):
            for perm in itertools.permutations(combo):
                n += 1
                cases.append(Case("x%d" % n, ["keys add " + hexs(s) for s in perm] + look))
    return cases


# the handler's two containers: plain arguments + sub-group arguments over a small prefix-closed pool
SUB_POOL_SPECS = ["x", "in", "inp", "inpa", "inpb", "iq", "x,inp", "y,in"]


def exhaustive_subgroup_cases(all_plain_orders):
    """2 plain specifications + 1-2 sub-group specifications of the pool (clashing ones included: the definition must
    be refused) x all definition orders of the sub-group arguments (quick: the plain ones in pool order only, their
    order is the business of `exhaustive_cases`; thorough: 0-2 plain ones in every order) x every key word of
    POOL_CMDWORDS x abbreviations on and off"""
    cases = []
    look = word_lines(POOL_CMDWORDS)
    if all_plain_orders:
        plains = [p for size in (0, 1, 2) for p in itertools.permutations(SUB_POOL_SPECS, size)]
    else:
        plains = list(itertools.combinations(SUB_POOL_SPECS, 2))
    n = 0
    for plain in plains:
        for size in (1, 2):
            for sub in itertools.permutations(SUB_POOL_SPECS, size):
                n += 1
                cases.append(Case("xs%d" % n, ["keys add " + hexs(s) for s in plain]
                                  + ["keys addsub " + hexs(s) for s in sub] + look))
    return cases


def all_key_words(specs):
    """every exact key word (short and long) and every proper prefix of every long key of the specifications the
    oracle understands"""
    words = []
    for sp in specs:
        k = ref_parse(sp.encode("latin-1"))
        if k is None:
            continue
        if k[0]:
            words.append("-" + k[0].decode())
        if k[1]:
            words += ["--" + p for p in prefixes(k[1].decode())]
    seen, out = set(), []
    for w in words:
        if w not in seen:
            seen.add(w)
            out.append(w)
    return out


WORDS = ["input", "input-file", "input-dir", "in", "i-o", "x-ray", "a-", "ab", "abc", "abcd", "verbose", "version",
         "ver", "v2", "no-color", "n-", "out", "output", "o_1"]
SHORTS = list("abiovxn12")
GARBAGE = ["", ",", "a,", ",a", "a,b", "ab,cd", "a,a", "ab,ab", "a b", " ", "---a", "a,---b", "--ab,---c", "a,b,c",
           ",,", "-", "--", "---", "-,-", "-,--", "a,-", "--,a", "-a-", "a--", "--a-b", "=", "a=b", "\x00", "-\x00",
           "a\x00", "\x00,ab", "ab,\x00", "a,b c", "-a,-b", "--aa,--bb", "a,bb,", "A", "Ab", "a,Ab"]


def dashed(rng, part, is_short):
    r = rng.random()
    if r < 0.5:
        return part
    if is_short:
        return "-" + part
    return rng.choice(["-", "--", "--"]) + part


def rand_spec(rng, words, shorts):
    r = rng.random()
    if r < 0.08:
        return rng.choice(GARBAGE)
    if r < 0.30:
        return dashed(rng, rng.choice(shorts), True)
    if r < 0.60:
        return dashed(rng, rng.choice(words), False)
    if r < 0.64:
        return "--" + rng.choice(shorts)                   # a long key of one character
    s, w = dashed(rng, rng.choice(shorts), True), dashed(rng, rng.choice(words), False)
    return s + "," + w if rng.random() < 0.6 else w + "," + s


def prefixes(w):
    return [w[:i] for i in range(1, len(w) + 1)]


def random_case(rng, cid):
    # families of words sharing prefixes, so that ambiguity and "exact key that is also a prefix" are frequent
    base = rng.choice(WORDS)
    words = list({base, base + rng.choice("abc-"), base + rng.choice("xyz") + "q", base[:max(2, len(base) - 1)],
                  rng.choice(WORDS), rng.choice(WORDS)})
    rng.shuffle(words)
    shorts = rng.sample(SHORTS, 4)
    specs = [rand_spec(rng, words, shorts) for _ in range(rng.choice([1, 2, 3, 3, 4, 5, 6, 8]))]
    # about 40 % of the cases: the last 1-3 specifications are sub-group arguments of the same handler
    nsub = min(rng.choice([1, 1, 2, 3]), len(specs)) if rng.random() < 0.4 else 0
    nplain = len(specs) - nsub
    lines = ["keys add " + hexs(s) for s in specs[:nplain]] + ["keys addsub " + hexs(s) for s in specs[nplain:]]
    if nsub:
        # every exact key and every proper prefix of every long key, plain and sub-group, through the real handler
        lines += word_lines(all_key_words(specs))
    look = set()
    for w in words:
        for p in prefixes(w):
            if rng.random() < 0.5 or p == w:
                look.add(p)
    look.update(rng.sample(SHORTS, 3))
    look = sorted(look)
    rng.shuffle(look)
    for k in look[:14]:
        form = rng.random()
        key = k if form < 0.7 else ("--" + k if form < 0.85 else "-" + k)
        lines.append("keys find %s %s" % (rng.choice("01"), hexs(key)))
        if len(k) == 1 and rng.random() < 0.5:
            lines.append("keys findc %s %s" % (rng.choice("01"), hexs(k)))
    # the command-line path (real Handler): exact key words, abbreviations, one-character names
    for k in look[:10]:
        if rng.random() < 0.6:
            w = ("-" + k) if (len(k) == 1 and rng.random() < 0.6) else ("--" + k)
            if rng.random() < 0.12:
                w = rng.choice(["--", "---", "----", "--x,"]) + k      # extra dashes, a two-part name: model comparison
            lines.append("keys word %s %s" % (rng.choice("01"), hexs(w)))
    if rng.random() < 0.3:
        # the same key set once more in another order must give the same answers: interleave late additions
        extra = rand_spec(rng, words, shorts)
        lines.append("keys add " + hexs(extra))
        lines += ["keys find 1 " + hexs(k) for k in look[:6]]
        lines += ["keys word 1 " + hexs(("-" if len(k) == 1 else "--") + k) for k in look[:4]]
    if rng.random() < 0.2:
        lines.append("keys find %s %s" % (rng.choice("01"), hexs(rng.choice(GARBAGE))))
    return Case(cid, lines)


def probe_case(rng, cid):
    lines = []
    words = rng.sample(WORDS, 4)
    shorts = rng.sample(SHORTS, 3)
    for _ in range(6):
        lines.append("keys parse " + hexs(rand_spec(rng, words, shorts)))
    for _ in range(6):
        a, b = rand_spec(rng, words, shorts), rand_spec(rng, words, shorts)
        if rng.random() < 0.3:
            b = a[: rng.randint(1, max(1, len(a)))] or a
        lines.append("keys cmp %s %s" % (hexs(a), hexs(b)))
    return Case(cid, lines)


def permutation_cases(rng, n):
    """one generated key set in every definition order (<= 5 keys), full lookup list"""
    cases = []
    for i in range(n):
        base = rng.choice(WORDS)
        words = list({base, base + "a", base + "b", base[:max(2, len(base) - 2)], rng.choice(WORDS)})
        shorts = rng.sample(SHORTS, 3)
        specs = list({rand_spec(rng, words, shorts) for _ in range(rng.choice([2, 3, 3, 4]))})
        look = sorted({p for w in words for p in prefixes(w)} | set(shorts))
        ll = lookup_lines(look) + word_lines([("-" if len(k) == 1 else "--") + k for k in look]
                                             + ["--" + k for k in shorts])
        for j, perm in enumerate(itertools.permutations(specs)):
            cases.append(Case("p%d.%d" % (i, j), ["keys add " + hexs(s) for s in perm] + ll))
    return cases


def generate(prop, tier, seed, scale=1):
    # witnesses of the repaired defects first
    yield "regression", [
        Case("r1", ["keys add " + hexs(s) for s in ("input-file", "input-dir", "input")]
             + lookup_lines(["input", "input-", "input-f", "inp"])),
        Case("r2", ["keys add " + hexs("--x-ray"), "keys add " + hexs("a-"), "keys add " + hexs("n-b")]
             + lookup_lines(["x-ray", "x-", "a-", "n-", "n-b"]) + word_lines(["--x-ray", "--x-", "--a-", "--n-b"])),
        # key words: every defined key through the real handler, both definition orders
        Case("r3", ["keys add " + hexs(s) for s in ("v,verbose", "--version", "-x", "input")]
             + word_lines(["-v", "--verbose", "--version", "-x", "--input", "--ver", "--vers", "--verb", "--inp", "-q", "--q"])),
        Case("r4", ["keys add " + hexs(s) for s in ("input", "-x", "--version", "verbose,v")]
             + word_lines(["-v", "--verbose", "--version", "-x", "--input", "--ver", "--vers", "--verb", "--inp", "-q", "--q"])),
        # long keys of one character next to the short key of the same character (fix for the former finding
        # one-char-long-key): `--v` selects the long key, `-v` the short key, `--w` abbreviates `--wide`
        Case("r5", ["keys add " + hexs(s) for s in ("--v", "-v", "wide", "x,--y")]
             + word_lines(["--v", "-v", "--w", "-w", "--x", "-x", "--y", "-y", "--wide"])),
        Case("r6", ["keys add " + hexs(s) for s in ("-v", "wide", "--v", "--w")]
             + word_lines(["--v", "-v", "--w", "-w", "--wi", "--wide"])),
        Case("r7", ["keys add " + hexs("--v")] + word_lines(["--v", "-v"])),
        Case("r8", ["keys add " + hexs("-v")] + word_lines(["--v", "-v"])),
        # sub-group arguments (the handler's second container): an exact key wins over an abbreviation in the other
        # container (fix 7375dcf), an abbreviation must be unique over both containers, hfNoAbbr holds for both
        Case("r9", ["keys add " + hexs("out"), "keys addsub " + hexs("o,output")]
             + word_lines(["--out", "--outp", "--ou", "--output", "-o"])),
        Case("r10", ["keys add " + hexs("output"), "keys addsub " + hexs("out")]
             + word_lines(["--out", "--outp", "--ou", "--output", "-o"])),
        Case("r11", ["keys addsub " + hexs("archive"), "keys addsub " + hexs("arch-x")]
             + word_lines(["--arch", "--archive", "--arch-x", "--archi", "--arch-", "--a"])),
        Case("r12", ["keys add " + hexs("o,out"), "keys addsub " + hexs("out"), "keys addsub " + hexs("o,other"),
                     "keys addsub " + hexs("other")]
             + word_lines(["--out", "-o", "--other", "--ot", "--o"])),
        Case("r13", ["keys addsub " + hexs("o,output"), "keys add " + hexs("output"), "keys add " + hexs("o"),
                     "keys add " + hexs("o,other"), "keys add " + hexs("out")]
             + word_lines(["--out", "--outp", "--ou", "--output", "-o", "--o"])),
    ]
    if tier == "quick":
        yield "exhaustive key sets <=3 of 17 specs over a prefix-closed pool x all orders x all lookups x abbr", exhaustive_cases(3)
        yield ("exhaustive handlers with 2 plain + 1-2 sub-group arguments of 8 specs over a prefix-closed pool x all "
               "sub-group orders x all key words x abbr"), exhaustive_subgroup_cases(False)
    else:
        yield "exhaustive key sets <=4 of 17 specs over a prefix-closed pool x all orders x all lookups x abbr", exhaustive_cases(4)
        yield ("exhaustive handlers with 0-2 plain + 1-2 sub-group arguments of 8 specs over a prefix-closed pool x all "
               "orders x all key words x abbr"), exhaustive_subgroup_cases(True)
    rng = random.Random("%s-%s" % (prop, seed))
    n = (1500 if tier == "quick" else 40000) * scale
    cases = []
    for i in range(n):
        cases.append(probe_case(rng, "q%d" % i) if i % 10 == 9 else random_case(rng, "g%d" % i))
    yield "generated", cases
    yield "generated key sets in every definition order", permutation_cases(rng, (40 if tier == "quick" else 1500) * scale)
