"""component plugin: celma::common::FixedString<L> (C10 memory safety / well-formedness, C11 equals std::string)

One harness (harness/fixed_string.cpp, compiled once per capacity and linked), one model driver
(model-fixedstring).  Result line of both sides:

    ok|throw <class>  r=<result> len=<n> buf=<content> sl=<strlen> all=<hash of the L+1 buffer bytes>
                      [t.len= t.buf=]  e.r=<result> e.len= e.buf=     (what std::string / Model.StdString gives, cut at L)
    model only:       dom=0|1   (arguments inside C11's documented domain, CelmaVerif.FixedString.inDomain)
    harness only:     a leading `!! guard ...` / `!! wf ...` when the C10 oracle fails on the implementation

judge():  tie        impl(r,len,buf,sl,all,t.*) == model(...)
          spec       impl(e.*) == model(e.*)            (validates Model/StdString against libstdc++)
          C10 oracle `!!` lines
          C11 oracle impl(r,len,buf) == impl(e.r,e.len,e.buf) whenever the model says dom=1
"""
import concurrent.futures as cf
import itertools
import os
import random
import re
import subprocess

import vlib
from vlib import Case, Problem

COMPONENT = "fixedstring"
DRIVER = "model-fixedstring"
CAPS = [1, 2, 3, 4, 5, 7, 8, 15, 16, 254, 255, 256, 257, 65534, 65535, 65536]
SU = 9          # capacity of the `u` source object (template< size_t S> overloads)

_TRUSTED = [
    "hand-written model CelmaVerif/Model/FixedString.lean of fixed_string.hpp and the two iterator headers, tied by the "
    "correspondence run (harness/fixed_string.cpp, in-process, ASan+UBSan, guard arenas) on every invocation",
    "libc memcpy/memmove/memset/memcmp/strlen/strchr as modelled by the checked primitives (Mem.read/write/move, fill, "
    "cstrlen); vsnprintf modelled as 'writes min(n, size-1) bytes and a NUL, returns n'",
    "Model/StdString.lean (textbook definitions over List Byte) as the meaning of 'what std::string does'; compared with "
    "libstdc++'s std::string on every generated operation",
]

PROPERTIES = {
    "C10": {
        "lean_module": "CelmaVerif.Props.C10",
        "kind": "relational",
        "trusted": _TRUSTED,
        "assumptions": [
            "L + 1 < W (size_t modulus) and L < M (modulus of LengthType<L>); all size_t arguments < W",
            "pointer+count overloads that std::string also has (insert(i,p,n), find(p,pos,n), replace(it,it,p,n)): [p, p+n) readable",
            "operator[]: idx <= L (documented: undefined beyond the buffer); C strings are NUL-terminated inside their allocation",
            "source arguments do not alias the object itself; iterator pairs denote ranges of one object",
        ],
    },
    "C11": {
        "lean_module": "CelmaVerif.Props.C11",
        "kind": "functional",
        "trusted": _TRUSTED,
        "assumptions": [
            "documented domain: positions <= size(), no NUL characters stored or searched through the strchr based overloads, "
            "non-empty search strings (find/rfind/contains with an empty string are pinned to npos/false by test_fixed_string), "
            "iterator positions other than end() (documented: end() is an invalid position), at(length()) excluded (documented)",
        ],
    },
}

RULE = ("cases are independent histories on three fresh objects (s: capacity L, t: capacity L, u: capacity 9); one "
        "evaluation = one operation line run on the real class, on a real std::string twin, on the Lean model and on "
        "Model/StdString; distinct_nontrivial = distinct (operation, capacity class, result class, length class before, "
        "length class after, in-domain flag) tuples")


# --------------------------------------------------------------------------------------------------
# harness build (one translation unit per capacity, in parallel)


def build_harness(work, prop):
    os.makedirs(work, exist_ok=True)
    src = os.path.join(vlib.VERIF, "harness", "fixed_string.cpp")
    base = ["g++", "-std=c++17", "-O1", "-g1", "-w", "-D" + vlib.GUARD, "-I" + os.path.join(vlib.REPO, "src"),
            "-I" + os.path.join(vlib.VERIF, "harness"), "-pthread"] + vlib.SAN_FLAGS["asan"]
    objs = [os.path.join(work, "fs_part%d.o" % k) for k in range(len(CAPS))]

    def cc(k):
        p = subprocess.run(base + ["-DFS_PART=%d" % k, "-c", src, "-o", objs[k]], stdout=subprocess.PIPE,
                           stderr=subprocess.STDOUT, text=True)
        return p.returncode, p.stdout

    logs = []
    with cf.ThreadPoolExecutor(vlib.NCPU) as ex:
        for rc, out in ex.map(cc, range(len(CAPS))):
            if rc != 0:
                logs.append(out[-4000:])
    if logs:
        return None, "\n".join(logs[:2])
    binary = os.path.join(work, "fixed_string")
    p = subprocess.run(base + objs + ["-o", binary], stdout=subprocess.PIPE, stderr=subprocess.STDOUT, text=True)
    if p.returncode != 0:
        return None, p.stdout[-4000:]
    return binary, ""


# --------------------------------------------------------------------------------------------------
# judge


def fields(line):
    d = {}
    for tok in (line or "").split(" "):
        if "=" in tok:
            k, v = tok.split("=", 1)
            d[k] = v
    return d


TIE_KEYS = ("r", "len", "buf", "sl", "all", "t.len", "t.buf")


def judge(prop, case, impl, model):
    probs = []
    ops = ["case " + case.cid] + case.lines
    for i, op in enumerate(ops):
        a = impl[i] if i < len(impl) else None
        b = model[i] if i < len(model) else None
        if a is None or b is None:
            probs.append(Problem("diff", case, i, op, a, b, "missing line"))
            break
        if a.startswith("bad-op") or b.startswith("bad-op"):
            probs.append(Problem("badop", case, i, op, a, b))
            break
        if a.startswith("!!"):
            probs.append(Problem("oracle", case, i, op, a, b, "C10 oracle (guard bytes / well-formedness) on the implementation"))
            break
        fa, fb = fields(a), fields(b)
        if "r" not in fa and "r" not in fb:      # set-up lines (`ok`, tset/uset)
            if a != b:
                probs.append(Problem("diff", case, i, op, a, b, "tie"))
                break
            continue
        if b.startswith("oob"):
            probs.append(Problem("diff", case, i, op, a, b, "model-oob"))
            break
        if prop == "C11" and fb.get("dom") == "1":
            if ((fa.get("r") if fa.get("e.r") != "*" else "*"), fa.get("len"), fa.get("buf")) != (
                    fa.get("e.r"), fa.get("e.len"), fa.get("e.buf")):
                probs.append(Problem("oracle", case, i, op, a, b,
                                     "C11 oracle: implementation differs from std::string cut at the capacity"))
                break
        if a.split(" ")[0] != b.split(" ")[0] or any(fa.get(k) != fb.get(k) for k in TIE_KEYS):
            probs.append(Problem("diff", case, i, op, a, b, "tie"))
            break
        if any(fa.get(k) != fb.get(k) for k in ("e.r", "e.len", "e.buf")):
            probs.append(Problem("diff", case, i, op, a, b, "spec: Model/StdString differs from libstdc++"))
            break
    return probs


def diff_is_failure(prop, p):
    """C10 is relational: the property's oracle is the `!!` line (kind 'oracle') or a model that reports an
    out-of-bounds access for this input; any other difference is a broken tie.  C11 is functional: the model is
    proved equal to the std::string specification on the domain, so an in-domain difference of result/content
    is a failing input; differences in internal bytes (`all=`), out of the domain, or in the specification
    validation are a broken tie."""
    if p.detail == "model-oob":
        return True
    if p.detail.startswith("spec") or p.detail == "missing line":
        return False
    fa, fb = fields(p.impl), fields(p.model)
    if prop == "C10":
        # a different length / terminator position is visible in len/sl: not well-formed w.r.t. the proved model
        return False
    if fb.get("dom") != "1":
        return False
    return any(fa.get(k) != fb.get(k) for k in ("r", "len", "buf")) or (p.impl or "").split(" ")[0] != (p.model or "").split(" ")[0]


def lenclass(n, cap):
    n = int(n)
    if n == 0:
        return "0"
    if n == cap:
        return "cap"
    if n == cap - 1:
        return "cap-1"
    return "mid"


_capstate = {}


def nontrivial_key(op, result):
    w = op.split(" ")
    if w[0] == "new":
        _capstate["cap"] = int(w[1])
        _capstate["len"] = "0"
        return None
    f = fields(result)
    if "len" not in f:
        return None
    cap = _capstate.get("cap", 0)
    before = _capstate.get("len", "0")
    after = lenclass(f["len"], cap) if f["len"].isdigit() else "?"
    _capstate["len"] = after
    capc = "tiny" if cap <= 3 else "small" if cap < 254 else "u8" if cap <= 255 else "u16" if cap <= 65535 else "u32"
    rcls = (result or "").split(" ")[0:2] if (result or "").startswith("throw") else ["ok"]
    r = f.get("r", "")
    rk = "npos" if r == "npos" else "end" if r == "end" else "-" if r == "-" else "v"
    return (w[0], capc, " ".join(rcls), before, after, rk, f.get("r") == f.get("e.r") and f.get("buf") == f.get("e.buf"))


def shrink_keep(line):
    return line.startswith("new ")


def finding_matches(finding, problem):
    return False


# --------------------------------------------------------------------------------------------------
# generators

ALPHA = b"abcdefghijklmnopqrstuvwxyzABCDEFGHIJKLMNOPQRSTUVWXYZ0123456789 _-.,"


def hx(bs):
    return "".join("%02x" % b for b in bs) or "-"


def rnd_bytes(rng, n, alpha=ALPHA):
    return bytes(rng.choice(alpha) for _ in range(n))


def src_len(rng, L):
    pool = [0, 1, 1, 2, 3, 4, 5, 8, L - 1, L, L + 1, L // 2, rng.randint(0, 12), rng.randint(0, min(L + 3, 40))]
    if L <= 300:
        pool += [2 * L + 1, L + 2]
    n = max(0, rng.choice(pool))
    if n > 600 and rng.random() < 0.9:       # long tokens only now and then
        n = rng.randint(0, 20)
    return n


def content(rng, L, n=None, hostile=False):
    n = src_len(rng, L) if n is None else n
    if hostile and rng.random() < 0.5:
        bs = bytearray(rnd_bytes(rng, n))
        for _ in range(rng.randint(1, 2)):
            if bs:
                bs[rng.randrange(len(bs))] = rng.choice([0, 0, 0xff, 0x80])
        return bytes(bs)
    if rng.random() < 0.35:
        return rnd_bytes(rng, n, b"ab")
    return rnd_bytes(rng, n)


POS_POOL = ["0", "0", "1", "1", "2", "3", "@len", "@len", "@len-1", "@len-1", "@len-2", "@len+1", "@cap", "@cap-1", "@cap+1",
            "@rem", "@rem+1", "@rem-1", "npos", "npos", "npos-1"]
HUGE = ["4294967295", "4294967296", "9223372036854775807", "9223372036854775808", "18446744073709551614",
        "18446744073709551360", "npos-255", "npos-65535", "65536", "65535", "256", "255"]


def pos(rng, L, hostile=True):
    x = rng.random()
    if x < 0.70:
        return rng.choice(POS_POOL)
    if x < 0.85:
        return str(rng.randint(0, min(L + 2, 20)))
    if x < 0.92:
        return str(rng.randint(0, L + 2))
    if hostile:
        return rng.choice(HUGE)
    return str(rng.randint(0, 3))


def ch(rng, hostile=False):
    if hostile and rng.random() < 0.3:
        return "%02x" % rng.choice([0, 0xff, 0x80])
    return "%02x" % rng.choice(b"abxyz_")


def itpos(rng, L):
    return rng.choice(["0", "0", "1", "2", "@len-1", "@len-1", "@len-2", "end", "end", "@len", str(rng.randint(0, min(L, 12)))])


def fsrc(rng):
    return rng.choice(["t", "u"])


IL = ["il:0", "il:1", "il:2", "il:3", "il:5", "il:9"]
FIND_FAMILIES = ["find", "rfind", "ffo", "ffno", "flo", "flno"]


def ppc(rng, L, hostile):
    """(c:<hex>, count) for the pointer+count overloads: count <= bytes + 1 (the NUL is readable)"""
    b = content(rng, L, None, hostile)
    if len(b) > 40:
        b = b[:rng.randint(0, 40)]
    c = rng.choice([0, 1, len(b), len(b), max(0, len(b) - 1), len(b) + 1, rng.randint(0, len(b) + 1)])
    return "c:" + hx(b), str(min(c, len(b) + 1))


SCANNING = ("find", "rfind", "ffo", "ffno", "flo", "flno", "ct_", "iter_", "stream", "c_str", "data", "str", "sw_", "ew_")


def gen_op(rng, L, hostile, noscan=False):
    """one random operation line; `noscan`: no operation whose *model* walks the whole content index by index
    (the list-based model is quadratic there; contents of 64 k characters are exercised by the mutators)"""
    for _ in range(50):
        line = gen_op1(rng, L, hostile)
        if not (noscan and line.startswith(SCANNING)):
            return line
    return "length"


def gen_op1(rng, L, hostile):
    P = lambda: pos(rng, L, hostile)
    S = lambda: "s:" + hx(content(rng, L, None, hostile))
    Cs = lambda: "c:" + hx(content(rng, L, None, hostile))
    CH = lambda: ch(rng, hostile)
    I = lambda: itpos(rng, L)
    F = lambda: fsrc(rng)
    k = rng.random()
    if k < 0.30:      # mutators with the most branches
        return rng.choice([
            lambda: "insert_icc %s %s %s" % (P(), P(), CH()),
            lambda: "insert_ipc %s %s %s" % ((P(),) + ppc(rng, L, hostile)),
            lambda: "insert_ip %s %s" % (P(), Cs()),
            lambda: "insert_is %s %s" % (P(), S()),
            lambda: "insert_isic %s %s %s %s" % (P(), S(), P(), P()),
            lambda: "insert_if %s %s" % (P(), F()),
            lambda: "insert_ific %s %s %s %s" % (P(), F(), P(), P()),
            lambda: "insert_itc %s %s" % (I(), CH()),
            lambda: "insert_itcc %s %s %s" % (I(), P(), CH()),
            lambda: "insert_itil %s %s" % (I(), rng.choice(IL)),
            lambda: "rep_ccf %s %s %s" % (P(), P(), F()),
            lambda: "rep_ccs %s %s %s" % (P(), P(), S()),
            lambda: "rep_ccfcc %s %s %s %s %s" % (P(), P(), F(), P(), P()),
            lambda: "rep_ccfc %s %s %s %s" % (P(), P(), F(), P()),
            lambda: "rep_ccscc %s %s %s %s %s" % (P(), P(), S(), P(), P()),
            lambda: "rep_ccsc %s %s %s %s" % (P(), P(), S(), P()),
            lambda: "rep_ccp %s %s %s" % (P(), P(), Cs()),
            lambda: "rep_ccpc %s %s %s %s" % (P(), P(), Cs(), P()),
            lambda: "rep_cccc %s %s %s %s" % (P(), P(), P(), CH()),
            lambda: "rep_itit_itit %s %s %s %s" % ((I(), I()) + trange(rng)),
            lambda: "rep_itit_sit %s %s %s" % (I(), I(), sit(rng, L)),
            lambda: "rep_itit_pc %s %s %s %s" % ((I(), I()) + ppc(rng, L, hostile)),
            lambda: "rep_itit_p %s %s %s" % (I(), I(), Cs()),
            lambda: "rep_itit_cc %s %s %s %s" % (I(), I(), P(), CH()),
            lambda: "rep_itit_il %s %s %s" % (I(), I(), rng.choice(IL)),
        ])()
    if k < 0.50:
        return rng.choice([
            lambda: "erase %s %s" % (P(), P()),
            lambda: "erase_i %s" % P(),
            lambda: "erase_0",
            lambda: "erase_it %s" % I(),
            lambda: "erase_itit %s %s" % (I(), I()),
            lambda: "push_back %s" % CH(),
            lambda: "pop_back",
            lambda: "append_cc %s %s" % (P(), CH()),
            lambda: "append_s %s" % S(),
            lambda: "append_f %s" % F(),
            lambda: "append_spc %s %s %s" % (S(), P(), P()),
            lambda: "append_sp %s %s" % (S(), P()),
            lambda: "append_fpc %s %s %s" % (F(), P(), P()),
            lambda: "append_fp %s %s" % (F(), P()),
            lambda: "append_pc %s %s" % (Cs(), P()),
            lambda: "append_p %s" % Cs(),
            lambda: "append_itit %s %s" % trange(rng),
            lambda: "add_f %s" % F(),
            lambda: "add_s %s" % S(),
            lambda: "add_p %s" % Cs(),
            lambda: "add_c %s" % CH(),
            lambda: "sprintf %s" % Cs(),
            lambda: "sprintf2 %s %d" % (Cs(), rng.choice([0, 7, 12345, 4294967295])),
            lambda: "swap t",
            lambda: "assign_p %s" % Cs(),
            lambda: "assign_s %s" % S(),
            lambda: "assign_f %s" % F(),
            lambda: "set_p %s" % Cs(),
            lambda: "set_s %s" % S(),
            lambda: "set_f %s" % F(),
            lambda: "clear",
            lambda: "ctor_p %s" % Cs(),
            lambda: "ctor_s %s" % S(),
            lambda: "ctor_f %s" % F(),
            lambda: "ctor_move t",
            lambda: "ctor_def",
            lambda: "tset %s" % S(),
            lambda: "uset %s" % S(),
        ])()
    if k < 0.72:
        fam = rng.choice(FIND_FAMILIES)
        return rng.choice([
            lambda: "%s_f t %s" % (fam, P()),
            lambda: "%s_f0 t" % fam,
            lambda: "%s_s %s %s" % (fam, shortsrc(rng, "s", hostile), P()),
            lambda: "%s_s0 %s" % (fam, shortsrc(rng, "s", hostile)),
            lambda: "%s_ppc %s %s %s" % ((fam,) + (lambda pc: (pc[0], P(), pc[1]))(ppc(rng, min(L, 4), hostile))),
            lambda: "%s_pp %s %s" % (fam, shortsrc(rng, "c", hostile), P()),
            lambda: "%s_p0 %s" % (fam, shortsrc(rng, "c", hostile)),
            lambda: "%s_c %s %s" % (fam, CH(), P()),
            lambda: "%s_c0 %s" % (fam, CH()),
        ])()
    return rng.choice([
        lambda: "str", lambda: "c_str", lambda: "data", lambda: "length", lambda: "empty", lambda: "front", lambda: "back",
        lambda: "stream", lambda: "iter_fwd", lambda: "iter_cfwd", lambda: "iter_rev", lambda: "iter_crev", lambda: "it_dist",
        lambda: "at %s" % P(), lambda: "cat %s" % P(), lambda: "it_deref %s" % P(),
        lambda: "idx %s" % rng.choice(["0", "1", "@len", "@len-1", "@cap", "@cap-1"]),
        lambda: "cmp_f %s" % F(), lambda: "cmp_s %s" % S(), lambda: "cmp_p %s" % Cs(),
        lambda: "cmp_ccf %s %s %s" % (P(), P(), F()),
        lambda: "cmp_ccs %s %s %s" % (P(), P(), S()),
        lambda: "cmp_ccp %s %s %s" % (P(), P(), Cs()),
        lambda: "cmp_ccfcc %s %s %s %s %s" % (P(), P(), F(), P(), P()),
        lambda: "cmp_ccscc %s %s %s %s %s" % (P(), P(), S(), P(), P()),
        lambda: "cmp_ccpc %s %s %s %s" % (P(), P(), Cs(), P()),
        lambda: "sw_f %s" % F(), lambda: "sw_s %s" % shortsrc(rng, "s", hostile), lambda: "sw_p %s" % shortsrc(rng, "c", hostile),
        lambda: "sw_c %s" % CH(),
        lambda: "ew_f %s" % F(), lambda: "ew_s %s" % shortsrc(rng, "s", hostile), lambda: "ew_p %s" % shortsrc(rng, "c", hostile),
        lambda: "ew_c %s" % CH(),
        lambda: "ct_f %s" % F(), lambda: "ct_s %s" % shortsrc(rng, "s", hostile), lambda: "ct_p %s" % shortsrc(rng, "c", hostile),
        lambda: "ct_c %s" % CH(),
        lambda: "substr %s %s" % (P(), P()), lambda: "substr_p %s" % P(),
        lambda: "copy %s %s" % (copycount(rng, L), P()), lambda: "copy_c %s" % copycount(rng, L),
        lambda: "eq %s" % F(), lambda: "ne %s" % F(),
    ])()


def copycount(rng, L):
    return rng.choice(["0", "1", "2", "@len", "@len-1", "@len+1", "@cap", "@cap+1", "npos", "4294967296", str(rng.randint(0, min(L + 2, 30)))])


def shortsrc(rng, kind, hostile):
    n = rng.choice([0, 1, 1, 1, 2, 2, 3, 4])
    alpha = b"ab" if rng.random() < 0.7 else b"abxyz_"
    b = rnd_bytes(rng, n, alpha)
    if hostile and rng.random() < 0.1 and n:
        b = b[:-1] + b"\x00"
    return "%s:%s" % (kind, hx(b))


def trange(rng):
    a, b = sorted([rng.randint(0, 6), rng.randint(0, 6)])
    x = rng.choice([str(a), "0", "end"])
    y = rng.choice([str(b), "end", "end"])
    if x == "end":
        y = "end"
    if x != "end" and y != "end" and int(x) > int(y):
        x, y = y, x
    return x, y


def sit(rng, L):
    b = rnd_bytes(rng, rng.choice([0, 1, 2, 3, 5, 9, min(L + 2, 30)]))
    i, j = sorted([rng.randint(0, len(b)), rng.randint(0, len(b))])
    return "s:%s %d %d" % (hx(b), i, j)


def fill_lines(rng, L, hostile):
    """bring s, t and u into an interesting state: empty, short, nearly full, full"""
    lines = []
    mode = rng.random()
    if mode < 0.15:
        pass
    elif mode < 0.45:
        lines.append("assign_s s:" + hx(content(rng, L, rng.randint(0, min(L, 12)), hostile)))
    elif L <= 300:
        n = max(0, rng.choice([L, L, L - 1, L - 2, L - 3, L // 2]))
        lines.append("assign_s s:" + hx(content(rng, L, n, hostile)))
    else:
        lines.append("assign_s s:" + hx(content(rng, L, rng.randint(1, 9), False)))
        lines.append("append_cc %s %s" % (rng.choice(["@rem", "@rem-1", "@rem-2", "@rem-3", "@rem-5"]), ch(rng)))
    tl = rng.choice([0, 1, 2, 3, 5, min(L, 7), min(L, 12), L if L <= 300 else 9])
    lines.append("tset s:" + hx(content(rng, L, tl, hostile)))
    lines.append("uset s:" + hx(content(rng, SU, rng.choice([0, 1, 2, 3, 5, 8, 9, 12]), hostile)))
    return lines


def random_case(rng, cid, hostile):
    x = rng.random()
    L = rng.choice([1, 2, 3, 4, 5, 7, 8, 15, 16] if x < 0.55 else [254, 255, 256, 257] if x < 0.90 else [65534, 65535, 65536])
    lines = ["new %d" % L] + fill_lines(rng, L, hostile)
    noscan = L > 300 and any(l.startswith("append_cc @rem") for l in lines)
    for _ in range(rng.randint(3, 14)):
        lines.append(gen_op(rng, L, hostile, noscan))
    return Case(cid, lines)


# ---- exhaustive spaces -----------------------------------------------------------------------------


def all_strings(n, alpha=b"ab"):
    out = []
    for k in range(n + 1):
        for t in itertools.product(alpha, repeat=k):
            out.append(bytes(t))
    return out


def exhaustive_cases(maxL, depth):
    """capacities 1..maxL x every content over {a,b} x every operation x arguments in 0..L+2 u {npos};
    depth 0: sources from a fixed small family, two-position overloads with the second pair from {0,1,npos}"""
    cases = []
    srcs = [b"", b"a", b"ab", b"ba"] if depth == 0 else [b"", b"a", b"b", b"ab", b"ba", b"aab", b"abab"]
    for L in range(1, maxL + 1):
        nums = [str(i) for i in range(0, L + 3)] + ["npos"]
        few = ["0", "1", "npos"] if depth == 0 else nums
        its = [str(i) for i in range(0, L + 1)] + ["end"]
        for st in all_strings(L):
            lines = ["new %d" % L]
            reset = "assign_s s:" + hx(st)

            def mut(op):
                lines.append(reset)
                lines.append(op)

            lines.append(reset)
            # observers (state unchanged)
            for o in ["str", "c_str", "length", "empty", "front", "back", "stream", "iter_fwd", "iter_cfwd", "iter_rev",
                      "iter_crev", "it_dist", "data"]:
                lines.append(o)
            for n in nums:
                lines += ["at " + n, "cat " + n, "it_deref " + n, "substr_p " + n, "copy_c " + n]
                if n != "npos" and int(n) <= L:
                    lines.append("idx " + n)
                for m in nums:
                    lines += ["substr %s %s" % (n, m), "copy %s %s" % (n, m)]
            for c in ("61", "62", "00"):
                lines += ["sw_c " + c, "ew_c " + c, "ct_c " + c]
                for fam in FIND_FAMILIES:
                    lines.append("%s_c0 %s" % (fam, c))
                    for n in nums:
                        lines.append("%s_c %s %s" % (fam, c, n))
            for src in srcs:
                h = hx(src)
                lines.append("tset s:" + h)
                lines.append("uset s:" + h)
                for f in ("t", "u"):
                    lines += ["cmp_f " + f, "sw_f " + f, "ew_f " + f, "ct_f " + f, "eq " + f, "ne " + f]
                lines += ["cmp_s s:" + h, "cmp_p c:" + h, "sw_s s:" + h, "sw_p c:" + h, "ew_s s:" + h, "ew_p c:" + h,
                          "ct_s s:" + h, "ct_p c:" + h]
                for fam in FIND_FAMILIES:
                    lines += ["%s_f0 t" % fam, "%s_s0 s:%s" % (fam, h), "%s_p0 c:%s" % (fam, h)]
                    for n in nums:
                        lines += ["%s_f t %s" % (fam, n), "%s_s s:%s %s" % (fam, h, n), "%s_pp c:%s %s" % (fam, h, n)]
                        for c in range(0, len(src) + 2):
                            lines.append("%s_ppc c:%s %s %d" % (fam, h, n, c))
                for n in nums:
                    for m in nums:
                        lines += ["cmp_ccf %s %s t" % (n, m), "cmp_ccs %s %s s:%s" % (n, m, h), "cmp_ccp %s %s c:%s" % (n, m, h)]
                        for p2 in few:
                            lines.append("cmp_ccpc %s %s c:%s %s" % (n, m, h, p2))
                            for c2 in few:
                                lines += ["cmp_ccfcc %s %s u %s %s" % (n, m, p2, c2),
                                          "cmp_ccscc %s %s s:%s %s %s" % (n, m, h, p2, c2)]
                # mutators with this source
                mut("assign_s s:" + h); mut("assign_p c:" + h); mut("assign_f t"); mut("assign_f u")
                mut("set_s s:" + h); mut("set_p c:" + h); mut("set_f t"); mut("set_f u")
                mut("ctor_s s:" + h); mut("ctor_p c:" + h); mut("ctor_f t"); mut("ctor_f u"); mut("ctor_move t")
                mut("append_s s:" + h); mut("append_p c:" + h); mut("append_f t"); mut("append_f u")
                mut("add_s s:" + h); mut("add_p c:" + h); mut("add_f t"); mut("add_f u")
                mut("sprintf c:" + h); mut("sprintf2 c:%s 7" % h)
                lines.append(reset); lines.append("tset s:" + h); lines.append("swap t")
                for a, b in itertools.product(["0", "1", "2", "end"], repeat=2):
                    if b == "end" or (a != "end" and int(a) <= int(b)):
                        mut("append_itit %s %s" % (a, b))
                for n in nums:
                    mut("insert_ip %s c:%s" % (n, h)); mut("insert_is %s s:%s" % (n, h))
                    mut("insert_if %s t" % n); mut("insert_if %s u" % n)
                    mut("append_pc c:%s %s" % (h, n)); mut("append_sp s:%s %s" % (h, n)); mut("append_fp t %s" % n)
                    for c in range(0, len(src) + 2):
                        mut("insert_ipc %s c:%s %d" % (n, h, c))
                    for m in nums:
                        mut("append_spc s:%s %s %s" % (h, n, m)); mut("append_fpc u %s %s" % (n, m))
                        mut("rep_ccf %s %s t" % (n, m)); mut("rep_ccs %s %s s:%s" % (n, m, h)); mut("rep_ccp %s %s c:%s" % (n, m, h))
                        for p2 in few:
                            mut("rep_ccpc %s %s c:%s %s" % (n, m, h, p2))
                            mut("rep_ccfc %s %s u %s" % (n, m, p2)); mut("rep_ccsc %s %s s:%s %s" % (n, m, h, p2))
                            mut("insert_isic %s s:%s %s %s" % (n, h, m, p2)); mut("insert_ific %s t %s %s" % (n, m, p2))
                            for c2 in few:
                                mut("rep_ccfcc %s %s t %s %s" % (n, m, p2, c2))
                                mut("rep_ccscc %s %s s:%s %s %s" % (n, m, h, p2, c2))
                for a in its:
                    for b in its:
                        mut("rep_itit_p %s %s c:%s" % (a, b, h))
                        for c in range(0, len(src) + 2):
                            mut("rep_itit_pc %s %s c:%s %d" % (a, b, h, c))
                        for x, y in (("0", "end"), ("1", "end"), ("0", "1"), ("1", "2"), ("end", "end"), ("0", "0")):
                            mut("rep_itit_itit %s %s %s %s" % (a, b, x, y))
                        for i in range(0, len(src) + 1):
                            for j in range(i, len(src) + 1):
                                mut("rep_itit_sit %s %s s:%s %d %d" % (a, b, h, i, j))
            # mutators without a string source
            for o in ["clear", "pop_back", "erase_0", "ctor_def"]:
                mut(o)
            for c in ("78", "00"):
                mut("push_back " + c); mut("add_c " + c)
                for n in nums:
                    mut("append_cc %s %s" % (n, c))
                    for m in nums:
                        mut("insert_icc %s %s %s" % (n, m, c))
                        for k in few:
                            mut("rep_cccc %s %s %s %s" % (n, m, k, c))
                for a in its:
                    mut("insert_itc %s %s" % (a, c))
                    for n in nums:
                        mut("insert_itcc %s %s %s" % (a, n, c))
                    for b in its:
                        for n in few:
                            mut("rep_itit_cc %s %s %s %s" % (a, b, n, c))
            for n in nums:
                mut("erase_i " + n)
                for m in nums:
                    mut("erase %s %s" % (n, m))
            for a in its:
                mut("erase_it " + a)
                for il in ("il:0", "il:1", "il:3"):
                    mut("insert_itil %s %s" % (a, il))
                for b in its:
                    mut("erase_itit %s %s" % (a, b))
                    for il in ("il:0", "il:1", "il:3"):
                        mut("rep_itit_il %s %s %s" % (a, b, il))
            # split into cases of bounded size
            body = lines[1:]
            for k in range(0, len(body), 400):
                chunk = body[k:k + 400]
                if not chunk[0].startswith("assign_s"):
                    chunk = [reset] + chunk
                # tset/uset state must be re-established at the chunk start
                cases.append(Case("x%d.%s.%d" % (L, hx(st), k // 400), ["new %d" % L] + _with_sources(body, k) + chunk))
    return cases


def _with_sources(body, k):
    """the last tset/uset lines before position k (so that a chunk is self-contained)"""
    t = u = None
    for l in body[:k]:
        if l.startswith("tset "):
            t = l
        elif l.startswith("uset "):
            u = l
    return [x for x in (t, u) if x]


def generate(prop, tier, seed, scale=1):
    rng = random.Random("%s-%s" % (prop, seed))
    n = (700 if tier == "quick" else 20000) * scale
    cases = []
    for i in range(n):
        # C11 wants mostly in-domain arguments, C10 wants the hostile ones too
        hostile = (rng.random() < (0.6 if prop == "C10" else 0.25))
        cases.append(random_case(rng, "g%d" % i, hostile))
    yield "generated", cases
    if tier == "quick":
        yield "exhaustive L<=2 over {a,b}, args 0..L+2 u {npos}", exhaustive_cases(2, 0)
    else:
        yield "exhaustive L<=3 over {a,b}, args 0..L+2 u {npos}", exhaustive_cases(3, 1)
