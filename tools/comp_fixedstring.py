"""component plugin: celma::common::FixedString<L> (C10 memory safety / well-formedness, C11 equals std::string)

One harness (harness/fixed_string.cpp, compiled once per capacity and linked), one model driver
(model-fixedstring).  Result line of both sides:

    ok|throw <class>  r=<result> len=<n> buf=<content> sl=<strlen> all=<hash of the L+1 buffer bytes>
                      [t.len= t.buf=]  e.r=<result> e.len= e.buf=     (what std::string / Model.StdString gives, cut at L)
    model only:       dom=0|1   (arguments inside C11's documented domain, CelmaVerif.FixedString.inDomain)
    harness only:     a leading `!! guard ...` / `!! wf ...` / `!! mirror ...` when the C10 oracle fails on the implementation

The harness runs every line twice: on objects between guard bytes (writes next to the object) and on mirror objects
that are alone in heap blocks of exactly sizeof( FixedString< N>) bytes (ASan sees every read or write outside the object;
argument buffers are exact-size blocks too); both must give the same line, an access outside aborts the run (= crash).

Input lines: `new <L> [<S>]` (capacity of s/t, capacity of u; default 9), then one operation per line.  Source tokens
`s:`/`c:` are hex, or segments `<hex>+<hex pattern>x<count>` (pattern repeated cyclically to <count> bytes) so that
arguments beyond the width of the length type (256, 65536, ... characters) stay short; see width_cases().

judge():  tie        impl(r,len,buf,sl,all,t.*) == model(...)
          spec       impl(e.*) == model(e.*)            (validates Model/StdString against libstdc++)
          C10 oracle `!!` lines
          C11 oracle impl(r,len,buf) == impl(e.r,e.len,e.buf) whenever the model says dom=1
"""
import concurrent.futures as cf
import itertools
import os
import random
import re
import subprocess

import vlib
from vlib import Case, Problem

COMPONENT = "fixedstring"
DRIVER = "model-fixedstring"
CAPS = [1, 2, 3, 4, 5, 7, 8, 15, 16, 254, 255, 256, 257, 65534, 65535, 65536]
SU = 9          # capacity of the `u` source object (template< size_t S> overloads) after `new <L>`
# `new <L> <S>`: the same with a `u` of capacity S, so that arguments of type FixedString<S> can be longer than the
# length type of `s` can count (harness parts 16..18, see the MAKE2 lines at the end of harness/fixed_string.cpp)
CAPS_U = [(15, 300), (255, 600), (256, 70000)]
NPARTS = len(CAPS) + len(CAPS_U)

_TRUSTED = [
    "hand-written model CelmaVerif/Model/FixedString.lean of fixed_string.hpp and the two iterator headers, tied by the "
    "correspondence run (harness/fixed_string.cpp, in-process, ASan+UBSan; every operation on an object between guard bytes "
    "and, in lock-step, on a mirror object in a heap block of exactly sizeof( FixedString< L>) bytes with exact-size argument "
    "buffers, so that reads outside the object or an argument are reported too; an over-read that stays inside the object "
    "(from mString into the mLength member / the padding before it) is visible only to UBSan's array-bounds check of "
    "mString[ idx], not inside memcmp/memcpy) on every invocation",
    "libc memcpy/memmove/memset/memcmp/strlen/strchr as modelled by the checked primitives (Mem.read/write/move, fill, "
    "cstrlen); vsnprintf modelled as 'writes min(n, size-1) bytes and a NUL, returns n', and for a failing conversion (%ls / "
    "%lc with a wide character above 0x7f in the C locale) as glibc 2.36 does it: 'writes the output of the directives before the failing one, "
    "cut at size-1, and a NUL, returns -1' (the theorem C10_sprintf_any_result does not depend on this: any bytes, any result)",
    "Model/StdString.lean (textbook definitions over List Byte) as the meaning of 'what std::string does'; compared with "
    "libstdc++'s std::string on every generated operation",
]

PROPERTIES = {
    "C10": {
        "lean_module": "CelmaVerif.Props.C10",
        "kind": "relational",
        "trusted": _TRUSTED,
        "assumptions": [
            "L + 1 < W (size_t modulus) and L < M (modulus of LengthType<L>); all size_t arguments < W",
            "pointer+count overloads that std::string also has (insert(i,p,n), find(p,pos,n), replace(it,it,p,n)): [p, p+n) readable",
            "operator[]: idx <= L (documented: undefined beyond the buffer); C strings are NUL-terminated inside their allocation",
            "iterator pairs denote ranges of one object; a source that aliases the object itself (the object as FixedString argument, "
            "c_str() + k, iterator pairs of the own object, sprintf of the own c_str()) is read as std::string specifies it, as a copy "
            "of the pre-state (Model/FixedStringAlias.lean; tied by the `alias` / `self:` lines of the correspondence run); a "
            "pointer into the own buffer that reaches BEHIND the terminator is not covered",
        ],
    },
    "C11": {
        "lean_module": "CelmaVerif.Props.C11",
        "kind": "functional",
        "trusted": _TRUSTED,
        "assumptions": [
            "documented domain: positions <= size(), no NUL characters stored or searched through the strchr based overloads, "
            "non-empty search strings (find/rfind/contains with an empty string are pinned to npos/false by test_fixed_string), "
            "iterator positions other than end() (documented: end() is an invalid position), at(length()) excluded (documented)",
        ],
    },
}

RULE = ("cases are independent histories on three fresh objects (s: capacity L, t: capacity L, u: capacity 9, or the capacity named by `new L S`); one "
        "evaluation = one operation line run on the real class (twice: guard-byte arena and exact-size heap mirror), on a real std::string twin, on the Lean model and on "
        "Model/StdString; distinct_nontrivial = distinct (operation, capacity class, result class, length class before, "
        "length class after, in-domain flag) tuples")


# --------------------------------------------------------------------------------------------------
# harness build (one translation unit per capacity, in parallel)


def build_harness(work, prop):
    os.makedirs(work, exist_ok=True)
    src = os.path.join(vlib.VERIF, "harness", "fixed_string.cpp")
    base = ["g++", "-std=c++17", "-O1", "-g1", "-w", "-D" + vlib.GUARD, "-I" + os.path.join(vlib.REPO, "src"),
            "-I" + os.path.join(vlib.VERIF, "harness"), "-pthread"] + vlib.SAN_FLAGS["asan"]
    objs = [os.path.join(work, "fs_part%d.o" % k) for k in range(NPARTS)]

    def cc(k):
        p = subprocess.run(base + ["-DFS_PART=%d" % k, "-c", src, "-o", objs[k]], stdout=subprocess.PIPE,
                           stderr=subprocess.STDOUT, text=True)
        return p.returncode, p.stdout

    logs = []
    with cf.ThreadPoolExecutor(vlib.NCPU) as ex:
        for rc, out in ex.map(cc, range(NPARTS)):
            if rc != 0:
                logs.append(out[-4000:])
    if logs:
        return None, "\n".join(logs[:2])
    binary = os.path.join(work, "fixed_string")
    p = subprocess.run(base + objs + ["-o", binary], stdout=subprocess.PIPE, stderr=subprocess.STDOUT, text=True)
    if p.returncode != 0:
        return None, p.stdout[-4000:]
    return binary, ""


# --------------------------------------------------------------------------------------------------
# judge


def fields(line):
    d = {}
    for tok in (line or "").split(" "):
        if "=" in tok:
            k, v = tok.split("=", 1)
            d[k] = v
    return d


TIE_KEYS = ("r", "len", "buf", "sl", "all", "t.len", "t.buf")


def judge(prop, case, impl, model):
    probs = []
    ops = ["case " + case.cid] + case.lines
    for i, op in enumerate(ops):
        a = impl[i] if i < len(impl) else None
        b = model[i] if i < len(model) else None
        if a is None or b is None:
            probs.append(Problem("diff", case, i, op, a, b, "missing line"))
            break
        if a.startswith("bad-op") or b.startswith("bad-op"):
            probs.append(Problem("badop", case, i, op, a, b))
            break
        if a.startswith("!!"):
            probs.append(Problem("oracle", case, i, op, a, b, "C10 oracle (guard bytes / well-formedness) on the implementation"))
            break
        fa, fb = fields(a), fields(b)
        if "r" not in fa and "r" not in fb:      # set-up lines (`ok`, tset/uset)
            if a != b:
                probs.append(Problem("diff", case, i, op, a, b, "tie"))
                break
            continue
        if b.startswith("oob"):
            probs.append(Problem("diff", case, i, op, a, b, "model-oob"))
            break
        if prop == "C11" and fb.get("dom") == "1":
            if ((fa.get("r") if fa.get("e.r") != "*" else "*"), fa.get("len"), fa.get("buf")) != (
                    fa.get("e.r"), fa.get("e.len"), fa.get("e.buf")):
                probs.append(Problem("oracle", case, i, op, a, b,
                                     "C11 oracle: implementation differs from std::string cut at the capacity"))
                break
        if a.split(" ")[0] != b.split(" ")[0] or any(fa.get(k) != fb.get(k) for k in TIE_KEYS):
            probs.append(Problem("diff", case, i, op, a, b, "tie"))
            break
        if any(fa.get(k) != fb.get(k) for k in ("e.r", "e.len", "e.buf")):
            probs.append(Problem("diff", case, i, op, a, b, "spec: Model/StdString differs from libstdc++"))
            break
    return probs


def diff_is_failure(prop, p):
    """C10 is relational: the property's oracle is the `!!` line (kind 'oracle') or a model that reports an
    out-of-bounds access for this input; any other difference is a broken tie.  C11 is functional: the model is
    proved equal to the std::string specification on the domain, so an in-domain difference of result/content
    is a failing input; differences in internal bytes (`all=`), out of the domain, or in the specification
    validation are a broken tie."""
    if p.detail == "model-oob":
        return True
    if p.detail.startswith("spec") or p.detail == "missing line":
        return False
    fa, fb = fields(p.impl), fields(p.model)
    if prop == "C10":
        # a different length / terminator position is visible in len/sl: not well-formed w.r.t. the proved model
        return False
    if fb.get("dom") != "1":
        return False
    return any(fa.get(k) != fb.get(k) for k in ("r", "len", "buf")) or (p.impl or "").split(" ")[0] != (p.model or "").split(" ")[0]


def lenclass(n, cap):
    n = int(n)
    if n == 0:
        return "0"
    if n == cap:
        return "cap"
    if n == cap - 1:
        return "cap-1"
    return "mid"


_capstate = {}


def nontrivial_key(op, result):
    w = op.split(" ")
    if w[0] == "new":
        _capstate["cap"] = int(w[1])
        _capstate["len"] = "0"
        return None
    f = fields(result)
    if "len" not in f:
        return None
    cap = _capstate.get("cap", 0)
    before = _capstate.get("len", "0")
    after = lenclass(f["len"], cap) if f["len"].isdigit() else "?"
    _capstate["len"] = after
    capc = "tiny" if cap <= 3 else "small" if cap < 254 else "u8" if cap <= 255 else "u16" if cap <= 65535 else "u32"
    rcls = (result or "").split(" ")[0:2] if (result or "").startswith("throw") else ["ok"]
    r = f.get("r", "")
    rk = "npos" if r == "npos" else "end" if r == "end" else "-" if r == "-" else "v"
    return (w[0], capc, " ".join(rcls), before, after, rk, f.get("r") == f.get("e.r") and f.get("buf") == f.get("e.buf"))


def shrink_keep(line):
    return line.startswith("new ")


def finding_matches(finding, problem):
    return False


# --------------------------------------------------------------------------------------------------
# generators

ALPHA = b"abcdefghijklmnopqrstuvwxyzABCDEFGHIJKLMNOPQRSTUVWXYZ0123456789 _-.,"


def hx(bs):
    return "".join("%02x" % b for b in bs) or "-"


def rnd_bytes(rng, n, alpha=ALPHA):
    return bytes(rng.choice(alpha) for _ in range(n))


def src_len(rng, L):
    pool = [0, 1, 1, 2, 3, 4, 5, 8, L - 1, L, L + 1, L // 2, rng.randint(0, 12), rng.randint(0, min(L + 3, 40))]
    if L <= 300:
        pool += [2 * L + 1, L + 2]
    n = max(0, rng.choice(pool))
    if n > 600 and rng.random() < 0.9:       # long tokens only now and then
        n = rng.randint(0, 20)
    return n


def content(rng, L, n=None, hostile=False):
    n = src_len(rng, L) if n is None else n
    if hostile and rng.random() < 0.5:
        bs = bytearray(rnd_bytes(rng, n))
        for _ in range(rng.randint(1, 2)):
            if bs:
                bs[rng.randrange(len(bs))] = rng.choice([0, 0, 0xff, 0x80])
        return bytes(bs)
    if rng.random() < 0.35:
        return rnd_bytes(rng, n, b"ab")
    return rnd_bytes(rng, n)


POS_POOL = ["0", "0", "1", "1", "2", "3", "@len", "@len", "@len-1", "@len-1", "@len-2", "@len+1", "@cap", "@cap-1", "@cap+1",
            "@rem", "@rem+1", "@rem-1", "npos", "npos", "npos-1"]
HUGE = ["4294967295", "4294967296", "9223372036854775807", "9223372036854775808", "18446744073709551614",
        "18446744073709551360", "npos-255", "npos-65535", "65536", "65535", "256", "255",
        # the same value modulo 2^8 / 2^16 as a small in-range one (a clamp computed in the narrow length type)
        "257", "511", "512", "65537", "@len+255", "@len+256", "@len+65536", "@rem+256", "@rem+65536", "@cap+256", "npos-254",
        "npos-256", "npos-65536"]


def pos(rng, L, hostile=True):
    x = rng.random()
    if x < 0.70:
        return rng.choice(POS_POOL)
    if x < 0.85:
        return str(rng.randint(0, min(L + 2, 20)))
    if x < 0.92:
        return str(rng.randint(0, L + 2))
    if hostile or rng.random() < 0.5:
        return rng.choice(HUGE)
    return str(rng.randint(0, 3))


def ch(rng, hostile=False):
    if hostile and rng.random() < 0.3:
        return "%02x" % rng.choice([0, 0xff, 0x80])
    return "%02x" % rng.choice(b"abxyz_")


def itpos(rng, L):
    return rng.choice(["0", "0", "1", "2", "@len-1", "@len-1", "@len-2", "end", "end", "@len", str(rng.randint(0, min(L, 12)))])


def fsrc(rng):
    return rng.choice(["t", "u"])


IL = ["il:0", "il:1", "il:2", "il:3", "il:5", "il:9"]
FIND_FAMILIES = ["find", "rfind", "ffo", "ffno", "flo", "flno"]


def ppc(rng, L, hostile):
    """(c:<hex>, count) for the pointer+count overloads: count <= bytes + 1 (the NUL is readable)"""
    b = content(rng, L, None, hostile)
    if len(b) > 40:
        b = b[:rng.randint(0, 40)]
    c = rng.choice([0, 1, len(b), len(b), max(0, len(b) - 1), len(b) + 1, rng.randint(0, len(b) + 1)])
    return "c:" + hx(b), str(min(c, len(b) + 1))


SCANNING = ("find", "rfind", "ffo", "ffno", "flo", "flno", "ct_", "iter_", "stream", "c_str", "data", "str", "sw_", "ew_")


IT_END = 2 ** 64 - 1
IT_MOVES = ["i", "d", "a0", "a1", "a2", "a3", "a@len", "a@len-1", "a@cap", "anpos", "anpos-1", "a9223372036854775808",
            "s0", "s1", "s2", "s@len", "s@len-1", "snpos", "s256", "a256", "a65536"]


def it_moves(rng):
    return ",".join(rng.choice(IT_MOVES) for _ in range(rng.choice([1, 1, 2, 2, 3, 5]))) if rng.random() < 0.93 else "-"


def it_sim(n, rev, start, moves):
    """index of a FixedString iterator (repaired code) built at `start` on a string of length n after `moves`
    (literal numbers only); used to ask `it[ k]` only inside the buffer"""
    i = IT_END if start == "end" or int(start) >= n else int(start)
    last = (n - 1) % 2 ** 64
    for m in ([] if moves == "-" else moves.split(",")):
        fwd_step = (m == "i") != rev if m in ("i", "d") else None
        if m in ("i", "d"):
            if fwd_step:
                i = i + 1 if i < last else IT_END
            elif i != IT_END:
                i = i - 1 if i > 0 else IT_END
        else:
            v = IT_END if m[1:] == "npos" else int(m[1:])
            add = (m[0] == "a") != rev
            if i != IT_END:
                if add:
                    j = (i + v) % 2 ** 64
                    i = j if j < n else IT_END
                else:
                    i = i - v if i >= v else IT_END
    return i


# ---- sprintf with a formatter that can fail (added after seeded defect C10-4) ---------------------------
# `sprintf_w <a> <kind> <wide> <v> <b>`: kind ls = "%s%ls%lu%s", lsp<prec> = "<%s>%.*ls=%lu;%s", lc = "%s%lc%lu%s"; <wide> = `-`
# or code points in hex joined by `.`.  The harness runs in the "C" locale: every wide character above 0x7f makes the
# conversion - and with it vsnprintf() - fail (result -1) after the output of the directives before it.
WIDE_OK = [0x41, 0x62, 0x78, 0x7a, 0x20, 0x7e, 0x7f, 0x01]
WIDE_BAD = [0x80, 0xe9, 0xff, 0x100, 0x20ac, 0xd800, 0xffff, 0x10000, 0x10ffff, 0x110000, 0x7fffffff]
SPRINTF_V = ["0", "7", "12345", "4294967295", "18446744073709551615"]


def ctok(rng, n, alpha=b"abcdefgh"):
    """C string argument of n characters (compact notation beyond 40)"""
    if n <= 0:
        return "c:-"
    if n <= 40:
        return "c:" + hx(rnd_bytes(rng, n, alpha))
    head = rnd_bytes(rng, rng.randint(1, 5), alpha)
    return "c:%s+%sx%d" % (hx(head), hx(rnd_bytes(rng, rng.choice([1, 2, 3, 7]), alpha)), n - len(head))


def wtok(ws):
    return ".".join("%x" % w for w in ws) or "-"


def sprintf_w(rng, L, fail, kind=None, plen=None):
    """one `sprintf_w` line whose formatter fails (fail = True) or succeeds (False).  The length of the text in front
    of the wide conversion (`plen`) decides where the formatter's own NUL lands: 0, inside, at or behind the capacity."""
    kind = kind or rng.choice(["ls", "ls", "lc", "lsp"])
    if plen is None:
        plen = max(0, rng.choice([0, 0, 1, 2, 3, L - 2, L - 1, L, L + 1, L // 2, rng.randint(0, min(L + 2, 24))] +
                                 ([L + 300, 2 * L + 1] if L <= 300 else [])))
    if kind == "lsp":
        plen = max(0, plen - 1)          # the format starts with `<`
    a = ctok(rng, plen)
    b = ctok(rng, rng.choice([0, 1, 2, 3, 5, 9]), b"uvwxyz")
    v = rng.choice(SPRINTF_V)
    ok = lambda n: [rng.choice(WIDE_OK) for _ in range(n)]
    if kind == "lc":
        return "sprintf_w %s lc %x %s %s" % (a, rng.choice(WIDE_BAD if fail else WIDE_OK), v, b)
    j = rng.choice([0, 0, 1, 2, 3, 7])           # characters in front of the unconvertible one
    tail = ok(rng.choice([0, 0, 1, 2, 5]))
    if kind == "ls":
        ws = ok(j) + ([rng.choice(WIDE_BAD)] if fail else []) + tail
        return "sprintf_w %s ls %s %s %s" % (a, wtok(ws), v, b)
    # %.*ls: at most `prec` bytes are converted; an unconvertible character at index j fails iff prec > j
    bad = fail or rng.random() < 0.7             # a successful call may have a bad character behind the precision
    ws = ok(j) + ([rng.choice(WIDE_BAD)] if bad else []) + tail
    if fail:
        prec = rng.choice([j + 1, j + 1, j + 2, len(ws), len(ws) + 1, 255, 256, 65536, 70000])
    elif bad:
        prec = rng.choice([0, j, j, max(0, j - 1)])
    else:
        prec = rng.choice([0, 1, len(ws), len(ws) + 1, 300])
    return "sprintf_w %s lsp%d %s %s %s" % (a, prec, wtok(ws), v, b)


def sprintf_cases(rng, full):
    """directed batch: every capacity x {fresh, short content, full} x {%ls, %.*ls, %lc} x failing / succeeding formatter x
    text in front of the conversion of length 0, 1, L-1, L, L+1, (L+300), each failing call followed by operations that
    show what later calls make of the state (append / push_back are ignored when the string believes it is full)."""
    cases = []
    caps = [1, 2, 3, 4, 5, 7, 8, 15, 16, 254, 255, 256, 257, 65535, 65536] + ([65534] if full else [])
    for L in caps:
        big = L > 300
        plens = [0, L, L + 1] if big and not full else [0, 1, L - 1, L, L + 1] + ([L + 300] if not big else [])
        plens = sorted(set(max(0, x) for x in plens))
        for state in ("fresh", "short", "full"):
            lines = ["new %d" % L]
            if state == "short":
                fill = ["assign_s s:" + hx(rnd_bytes(rng, min(L, rng.choice([1, 2, 3])), b"mnopq"))]
            elif state == "full":
                fill = ["assign_s s:6d"] + (["append_cc @rem 6e"] if L > 1 else [])
            else:
                fill = ["clear"]
            for kind in ("ls", "lsp", "lc"):
                for plen in plens:
                    for fail in (True, False):
                        if big and not full and not fail and rng.random() < 0.5:
                            continue
                        lines += fill
                        lines.append(sprintf_w(rng, L, fail, kind, plen))
                        if fail:
                            lines += rng.sample(["length", "empty", "append_p c:7171", "push_back 21", "add_c 3f",
                                                 "insert_icc 0 1 2a", "sprintf c:7a7a", "append_cc @rem 2b", "swap t"] +
                                                ([] if big else ["c_str", "str", "iter_fwd", "cmp_s s:-"]), 3)
            cases.append(Case("f%d.%s" % (L, state), lines))
    return cases


def gen_op(rng, L, hostile, noscan=False):
    """one random operation line; `noscan`: no operation whose *model* walks the whole content index by index
    (the list-based model is quadratic there; contents of 64 k characters are exercised by the mutators)"""
    for _ in range(50):
        line = gen_op1(rng, L, hostile)
        if not (noscan and line.startswith(SCANNING)):
            return line
    return "length"


def gen_op1(rng, L, hostile):
    P = lambda: pos(rng, L, hostile)
    S = lambda: "s:" + (long_src(rng, L) if rng.random() < 0.04 else hx(content(rng, L, None, hostile)))
    Cs = lambda: "c:" + (long_src(rng, L) if rng.random() < 0.04 else hx(content(rng, L, None, hostile)))
    CH = lambda: ch(rng, hostile)
    I = lambda: itpos(rng, L)
    F = lambda: fsrc(rng)
    k = rng.random()
    if k < 0.30:      # mutators with the most branches
        return rng.choice([
            lambda: "insert_icc %s %s %s" % (P(), P(), CH()),
            lambda: "insert_ipc %s %s %s" % ((P(),) + ppc(rng, L, hostile)),
            lambda: "insert_ip %s %s" % (P(), Cs()),
            lambda: "insert_is %s %s" % (P(), S()),
            lambda: "insert_isic %s %s %s %s" % (P(), S(), P(), P()),
            lambda: "insert_if %s %s" % (P(), F()),
            lambda: "insert_ific %s %s %s %s" % (P(), F(), P(), P()),
            lambda: "insert_itc %s %s" % (I(), CH()),
            lambda: "insert_itcc %s %s %s" % (I(), P(), CH()),
            lambda: "insert_itil %s %s" % (I(), rng.choice(IL)),
            lambda: "rep_ccf %s %s %s" % (P(), P(), F()),
            lambda: "rep_ccs %s %s %s" % (P(), P(), S()),
            lambda: "rep_ccfcc %s %s %s %s %s" % (P(), P(), F(), P(), P()),
            lambda: "rep_ccfc %s %s %s %s" % (P(), P(), F(), P()),
            lambda: "rep_ccscc %s %s %s %s %s" % (P(), P(), S(), P(), P()),
            lambda: "rep_ccsc %s %s %s %s" % (P(), P(), S(), P()),
            lambda: "rep_ccp %s %s %s" % (P(), P(), Cs()),
            lambda: "rep_ccpc %s %s %s %s" % (P(), P(), Cs(), P()),
            lambda: "rep_cccc %s %s %s %s" % (P(), P(), P(), CH()),
            lambda: "rep_itit_itit %s %s %s %s" % ((I(), I()) + trange(rng)),
            lambda: "rep_itit_sit %s %s %s" % (I(), I(), sit(rng, L)),
            lambda: "rep_itit_pc %s %s %s %s" % ((I(), I()) + ppc(rng, L, hostile)),
            lambda: "rep_itit_p %s %s %s" % (I(), I(), Cs()),
            lambda: "rep_itit_cc %s %s %s %s" % (I(), I(), P(), CH()),
            lambda: "rep_itit_il %s %s %s" % (I(), I(), rng.choice(IL)),
        ])()
    if k < 0.50:
        return rng.choice([
            lambda: "erase %s %s" % (P(), P()),
            lambda: "erase_i %s" % P(),
            lambda: "erase_0",
            lambda: "erase_it %s" % I(),
            lambda: "erase_itit %s %s" % (I(), I()),
            lambda: "push_back %s" % CH(),
            lambda: "pop_back",
            lambda: "append_cc %s %s" % (P(), CH()),
            lambda: "append_s %s" % S(),
            lambda: "append_f %s" % F(),
            lambda: "append_spc %s %s %s" % (S(), P(), P()),
            lambda: "append_sp %s %s" % (S(), P()),
            lambda: "append_fpc %s %s %s" % (F(), P(), P()),
            lambda: "append_fp %s %s" % (F(), P()),
            lambda: "append_pc %s %s" % (Cs(), P()),
            lambda: "append_p %s" % Cs(),
            lambda: "append_itit %s %s" % trange(rng),
            lambda: "add_f %s" % F(),
            lambda: "add_s %s" % S(),
            lambda: "add_p %s" % Cs(),
            lambda: "add_c %s" % CH(),
            lambda: "sprintf %s" % Cs(),
            lambda: "sprintf2 %s %d" % (Cs(), rng.choice([0, 7, 12345, 4294967295])),
            lambda: sprintf_w(rng, L, True),
            lambda: sprintf_w(rng, L, True),
            lambda: sprintf_w(rng, L, False),
            lambda: "swap t",
            lambda: "assign_p %s" % Cs(),
            lambda: "assign_s %s" % S(),
            lambda: "assign_f %s" % F(),
            lambda: "set_p %s" % Cs(),
            lambda: "set_s %s" % S(),
            lambda: "set_f %s" % F(),
            lambda: "clear",
            lambda: "ctor_p %s" % Cs(),
            lambda: "ctor_s %s" % S(),
            lambda: "ctor_f %s" % F(),
            lambda: "ctor_move t",
            lambda: "ctor_def",
            lambda: "tset %s" % S(),
            lambda: "uset %s" % S(),
        ])()
    if k < 0.72:
        fam = rng.choice(FIND_FAMILIES)
        return rng.choice([
            lambda: "%s_f t %s" % (fam, P()),
            lambda: "%s_f0 t" % fam,
            lambda: "%s_s %s %s" % (fam, shortsrc(rng, "s", hostile), P()),
            lambda: "%s_s0 %s" % (fam, shortsrc(rng, "s", hostile)),
            lambda: "%s_ppc %s %s %s" % ((fam,) + (lambda pc: (pc[0], P(), pc[1]))(ppc(rng, min(L, 4), hostile))),
            lambda: "%s_pp %s %s" % (fam, shortsrc(rng, "c", hostile), P()),
            lambda: "%s_p0 %s" % (fam, shortsrc(rng, "c", hostile)),
            lambda: "%s_c %s %s" % (fam, CH(), P()),
            lambda: "%s_c0 %s" % (fam, CH()),
        ])()
    return rng.choice([
        lambda: "str", lambda: "c_str", lambda: "data", lambda: "length", lambda: "empty", lambda: "front", lambda: "back",
        lambda: "stream", lambda: "iter_fwd", lambda: "iter_cfwd", lambda: "iter_rev", lambda: "iter_crev", lambda: "it_dist",
        lambda: "at %s" % P(), lambda: "cat %s" % P(), lambda: "it_deref %s" % P(),
        lambda: "it_walk %s %s %s" % (rng.choice("fr"), itpos(rng, L), it_moves(rng)),
        lambda: "it_walkd %s %s %s" % (rng.choice("fr"), itpos(rng, L), it_moves(rng)),
        lambda: "it_walkd %s %s %s" % (rng.choice("fr"), itpos(rng, L), it_moves(rng)),
        lambda: "it_rel %s %d %s %s" % (rng.choice("fr"), rng.randrange(6), itpos(rng, L), itpos(rng, L)),
        lambda: "idx %s" % rng.choice(["0", "1", "@len", "@len-1", "@cap", "@cap-1"]),
        lambda: "cmp_f %s" % F(), lambda: "cmp_s %s" % S(), lambda: "cmp_p %s" % Cs(),
        lambda: "cmp_ccf %s %s %s" % (P(), P(), F()),
        lambda: "cmp_ccs %s %s %s" % (P(), P(), S()),
        lambda: "cmp_ccp %s %s %s" % (P(), P(), Cs()),
        lambda: "cmp_ccfcc %s %s %s %s %s" % (P(), P(), F(), P(), P()),
        lambda: "cmp_ccscc %s %s %s %s %s" % (P(), P(), S(), P(), P()),
        lambda: "cmp_ccpc %s %s %s %s" % (P(), P(), Cs(), P()),
        lambda: "sw_f %s" % F(), lambda: "sw_s %s" % shortsrc(rng, "s", hostile), lambda: "sw_p %s" % shortsrc(rng, "c", hostile),
        lambda: "sw_c %s" % CH(),
        lambda: "ew_f %s" % F(), lambda: "ew_s %s" % shortsrc(rng, "s", hostile), lambda: "ew_p %s" % shortsrc(rng, "c", hostile),
        lambda: "ew_c %s" % CH(),
        lambda: "ct_f %s" % F(), lambda: "ct_s %s" % shortsrc(rng, "s", hostile), lambda: "ct_p %s" % shortsrc(rng, "c", hostile),
        lambda: "ct_c %s" % CH(),
        lambda: "substr %s %s" % (P(), P()), lambda: "substr_p %s" % P(),
        lambda: "copy %s %s" % (copycount(rng, L), P()), lambda: "copy_c %s" % copycount(rng, L),
        lambda: "eq %s" % F(), lambda: "ne %s" % F(),
    ])()


def long_src(rng, L):
    """an argument longer than the length type of a small capacity can count, in the compact notation
    `<hex head>+<hex pattern>x<count>` (random histories; the systematic ones are in width_cases)"""
    W = 256 if L <= 255 or rng.random() < 0.5 else 65536
    m = rng.choice([W - 1, W, W + 1, W + rng.randint(2, 12), W + max(1, L - 1), W + L, 2 * W - 1, 2 * W, 2 * W + 1])
    head = rnd_bytes(rng, rng.randint(0, 6), b"ab")
    return "+".join(x for x in [hx(head) if head else "", "%sx%d" % (hx(rnd_bytes(rng, rng.choice([1, 2, 5, 7]), b"abxy")), m - len(head))] if x)


def copycount(rng, L):
    return rng.choice(["0", "1", "2", "@len", "@len-1", "@len+1", "@cap", "@cap+1", "npos", "4294967296", str(rng.randint(0, min(L + 2, 30)))])


def shortsrc(rng, kind, hostile):
    n = rng.choice([0, 1, 1, 1, 2, 2, 3, 4])
    alpha = b"ab" if rng.random() < 0.7 else b"abxyz_"
    b = rnd_bytes(rng, n, alpha)
    if hostile and rng.random() < 0.1 and n:
        b = b[:-1] + b"\x00"
    return "%s:%s" % (kind, hx(b))


def trange(rng):
    a, b = sorted([rng.randint(0, 6), rng.randint(0, 6)])
    x = rng.choice([str(a), "0", "end"])
    y = rng.choice([str(b), "end", "end"])
    if x == "end":
        y = "end"
    if x != "end" and y != "end" and int(x) > int(y):
        x, y = y, x
    return x, y


def sit(rng, L):
    b = rnd_bytes(rng, rng.choice([0, 1, 2, 3, 5, 9, min(L + 2, 30)]))
    i, j = sorted([rng.randint(0, len(b)), rng.randint(0, len(b))])
    return "s:%s %d %d" % (hx(b), i, j)


def fill_lines(rng, L, hostile):
    """bring s, t and u into an interesting state: empty, short, nearly full, full.
    Returns (lines, content of s as a Src)"""
    lines = []
    mode = rng.random()
    X = Src()
    if mode < 0.15:
        pass
    elif mode < 0.45:
        b = content(rng, L, rng.randint(0, min(L, 12)), hostile)
        X = lit(b)
        lines.append("assign_s s:" + hx(b))
    elif L <= 300:
        n = max(0, rng.choice([L, L, L - 1, L - 2, L - 3, L // 2]))
        b = content(rng, L, n, hostile)
        X = lit(b)
        lines.append("assign_s s:" + hx(b))
    else:
        b = content(rng, L, rng.randint(1, 9), False)
        lines.append("assign_s s:" + hx(b))
        less, c = rng.choice([0, 1, 2, 3, 5]), ch(rng)
        lines.append("append_cc %s %s" % ("@rem-%d" % less if less else "@rem", c))
        X = Src([(b, None), (bytes.fromhex(c), L - len(b) - less)])
    tl = rng.choice([0, 1, 2, 3, 5, min(L, 7), min(L, 12), L if L <= 300 else 9])
    lines.append("tset s:" + hx(content(rng, L, tl, hostile)))
    lines.append("uset s:" + hx(content(rng, SU, rng.choice([0, 1, 2, 3, 5, 8, 9, 12]), hostile)))
    return lines, X


def random_case(rng, cid, hostile):
    x = rng.random()
    L = rng.choice([1, 2, 3, 4, 5, 7, 8, 15, 16] if x < 0.55 else [254, 255, 256, 257] if x < 0.90 else [65534, 65535, 65536])
    fl, X = fill_lines(rng, L, hostile)
    lines = ["new %d" % L] + fl
    noscan = L > 300 and any(l.startswith("append_cc @rem") for l in lines)
    # the content is known here: search / compare arguments that stick out behind its end (see overhang_needles)
    if len(X) >= 1 and 0 not in X.slice(0, 16).bytes() and rng.random() < 0.6:
        lines += overhang_probe(rng, L, X)
    nops = rng.randint(3, 14)
    failing = rng.randrange(nops) if rng.random() < 0.12 else -1      # a formatter that fails, somewhere in the history
    for k in range(nops):
        lines.append(sprintf_w(rng, L, True) if k == failing else gen_op(rng, L, hostile, noscan))
    return Case(cid, lines)


# ---- exhaustive spaces -----------------------------------------------------------------------------


def all_strings(n, alpha=b"ab"):
    out = []
    for k in range(n + 1):
        for t in itertools.product(alpha, repeat=k):
            out.append(bytes(t))
    return out


def exhaustive_cases(maxL, depth):
    """capacities 1..maxL x every content over {a,b} x every operation x arguments in 0..L+2 u {npos};
    depth 0: sources from a fixed small family, two-position overloads with the second pair from {0,1,npos}"""
    cases = []
    srcs = [b"", b"a", b"ab", b"ba"] if depth == 0 else [b"", b"a", b"b", b"ab", b"ba", b"aab", b"abab"]
    for L in range(1, maxL + 1):
        nums = [str(i) for i in range(0, L + 3)] + ["npos"]
        few = ["0", "1", "npos"] if depth == 0 else nums
        its = [str(i) for i in range(0, L + 1)] + ["end"]
        for st in all_strings(L):
            lines = ["new %d" % L]
            reset = "assign_s s:" + hx(st)

            def mut(op):
                lines.append(reset)
                lines.append(op)

            lines.append(reset)
            # observers (state unchanged)
            for o in ["str", "c_str", "length", "empty", "front", "back", "stream", "iter_fwd", "iter_cfwd", "iter_rev",
                      "iter_crev", "it_dist", "data"]:
                lines.append(o)
            for n in nums:
                lines += ["at " + n, "cat " + n, "it_deref " + n, "substr_p " + n, "copy_c " + n]
                if n != "npos" and int(n) <= L:
                    lines.append("idx " + n)
                for m in nums:
                    lines += ["substr %s %s" % (n, m), "copy %s %s" % (n, m)]
            # iterator arithmetic: every start, every sequence of up to two moves (+ a few longer ones), both directions
            mv1 = ["i", "d", "a0", "a1", "a2", "a%d" % L, "anpos", "s0", "s1", "s2", "snpos"]
            mvs = ["-"] + mv1 + [x + "," + y for x in mv1 for y in ("i", "d", "a1", "s1", "anpos")] + ["d,d,i", "i,i,d,d", "s1,a1,d"]
            for d in "fr":
                for a in its:
                    for m in mvs:
                        lines += ["it_walk %s %s %s" % (d, a, m), "it_walkd %s %s %s" % (d, a, m)]
                        mi = it_sim(len(st), d == "r", a, m)
                        for k in (0, 1, 2, IT_END):
                            ok = ((mi + k) % 2 ** 64 <= L) if d == "f" else (k > mi or mi - k <= L)
                            if ok:
                                lines.append("it_walki %s %s %s %s" % (d, a, m, "npos" if k == IT_END else str(k)))
                    for b in its:
                        for r in range(6):
                            lines.append("it_rel %s %d %s %s" % (d, r, a, b))
            for c in ("61", "62", "00"):
                lines += ["sw_c " + c, "ew_c " + c, "ct_c " + c]
                for fam in FIND_FAMILIES:
                    lines.append("%s_c0 %s" % (fam, c))
                    for n in nums:
                        lines.append("%s_c %s %s" % (fam, c, n))
            for src in srcs:
                h = hx(src)
                lines.append("tset s:" + h)
                lines.append("uset s:" + h)
                for f in ("t", "u"):
                    lines += ["cmp_f " + f, "sw_f " + f, "ew_f " + f, "ct_f " + f, "eq " + f, "ne " + f]
                lines += ["cmp_s s:" + h, "cmp_p c:" + h, "sw_s s:" + h, "sw_p c:" + h, "ew_s s:" + h, "ew_p c:" + h,
                          "ct_s s:" + h, "ct_p c:" + h]
                for fam in FIND_FAMILIES:
                    lines += ["%s_f0 t" % fam, "%s_s0 s:%s" % (fam, h), "%s_p0 c:%s" % (fam, h)]
                    for n in nums:
                        lines += ["%s_f t %s" % (fam, n), "%s_s s:%s %s" % (fam, h, n), "%s_pp c:%s %s" % (fam, h, n)]
                        for c in range(0, len(src) + 2):
                            lines.append("%s_ppc c:%s %s %d" % (fam, h, n, c))
                for n in nums:
                    for m in nums:
                        lines += ["cmp_ccf %s %s t" % (n, m), "cmp_ccs %s %s s:%s" % (n, m, h), "cmp_ccp %s %s c:%s" % (n, m, h)]
                        for p2 in few:
                            lines.append("cmp_ccpc %s %s c:%s %s" % (n, m, h, p2))
                            for c2 in few:
                                lines += ["cmp_ccfcc %s %s u %s %s" % (n, m, p2, c2),
                                          "cmp_ccscc %s %s s:%s %s %s" % (n, m, h, p2, c2)]
                # mutators with this source
                mut("assign_s s:" + h); mut("assign_p c:" + h); mut("assign_f t"); mut("assign_f u")
                mut("set_s s:" + h); mut("set_p c:" + h); mut("set_f t"); mut("set_f u")
                mut("ctor_s s:" + h); mut("ctor_p c:" + h); mut("ctor_f t"); mut("ctor_f u"); mut("ctor_move t")
                mut("append_s s:" + h); mut("append_p c:" + h); mut("append_f t"); mut("append_f u")
                mut("add_s s:" + h); mut("add_p c:" + h); mut("add_f t"); mut("add_f u")
                mut("sprintf c:" + h); mut("sprintf2 c:%s 7" % h)
                for wk in ("ls 78.20ac", "ls 20ac", "ls 78", "ls -", "lc e9", "lc 79", "lsp1 78.20ac", "lsp2 78.20ac", "lsp0 100"):
                    mut("sprintf_w c:%s %s 7 c:%s" % (h, wk, h)); lines += ["append_p c:71", "push_back 72"]
                lines.append(reset); lines.append("tset s:" + h); lines.append("swap t")
                for a, b in itertools.product(["0", "1", "2", "end"], repeat=2):
                    if b == "end" or (a != "end" and int(a) <= int(b)):
                        mut("append_itit %s %s" % (a, b))
                for n in nums:
                    mut("insert_ip %s c:%s" % (n, h)); mut("insert_is %s s:%s" % (n, h))
                    mut("insert_if %s t" % n); mut("insert_if %s u" % n)
                    mut("append_pc c:%s %s" % (h, n)); mut("append_sp s:%s %s" % (h, n)); mut("append_fp t %s" % n)
                    for c in range(0, len(src) + 2):
                        mut("insert_ipc %s c:%s %d" % (n, h, c))
                    for m in nums:
                        mut("append_spc s:%s %s %s" % (h, n, m)); mut("append_fpc u %s %s" % (n, m))
                        mut("rep_ccf %s %s t" % (n, m)); mut("rep_ccs %s %s s:%s" % (n, m, h)); mut("rep_ccp %s %s c:%s" % (n, m, h))
                        for p2 in few:
                            mut("rep_ccpc %s %s c:%s %s" % (n, m, h, p2))
                            mut("rep_ccfc %s %s u %s" % (n, m, p2)); mut("rep_ccsc %s %s s:%s %s" % (n, m, h, p2))
                            mut("insert_isic %s s:%s %s %s" % (n, h, m, p2)); mut("insert_ific %s t %s %s" % (n, m, p2))
                            for c2 in few:
                                mut("rep_ccfcc %s %s t %s %s" % (n, m, p2, c2))
                                mut("rep_ccscc %s %s s:%s %s %s" % (n, m, h, p2, c2))
                for a in its:
                    for b in its:
                        mut("rep_itit_p %s %s c:%s" % (a, b, h))
                        for c in range(0, len(src) + 2):
                            mut("rep_itit_pc %s %s c:%s %d" % (a, b, h, c))
                        for x, y in (("0", "end"), ("1", "end"), ("0", "1"), ("1", "2"), ("end", "end"), ("0", "0")):
                            mut("rep_itit_itit %s %s %s %s" % (a, b, x, y))
                        for i in range(0, len(src) + 1):
                            for j in range(i, len(src) + 1):
                                mut("rep_itit_sit %s %s s:%s %d %d" % (a, b, h, i, j))
            # mutators without a string source
            for o in ["clear", "pop_back", "erase_0", "ctor_def"]:
                mut(o)
            for c in ("78", "00"):
                mut("push_back " + c); mut("add_c " + c)
                for n in nums:
                    mut("append_cc %s %s" % (n, c))
                    for m in nums:
                        mut("insert_icc %s %s %s" % (n, m, c))
                        for k in few:
                            mut("rep_cccc %s %s %s %s" % (n, m, k, c))
                for a in its:
                    mut("insert_itc %s %s" % (a, c))
                    for n in nums:
                        mut("insert_itcc %s %s %s" % (a, n, c))
                    for b in its:
                        for n in few:
                            mut("rep_itit_cc %s %s %s %s" % (a, b, n, c))
            for n in nums:
                mut("erase_i " + n)
                for m in nums:
                    mut("erase %s %s" % (n, m))
            for a in its:
                mut("erase_it " + a)
                for il in ("il:0", "il:1", "il:3"):
                    mut("insert_itil %s %s" % (a, il))
                for b in its:
                    mut("erase_itit %s %s" % (a, b))
                    for il in ("il:0", "il:1", "il:3"):
                        mut("rep_itit_il %s %s %s" % (a, b, il))
            # split into cases of bounded size
            body = lines[1:]
            for k in range(0, len(body), 400):
                chunk = body[k:k + 400]
                if not chunk[0].startswith("assign_s"):
                    chunk = [reset] + chunk
                # tset/uset state must be re-established at the chunk start
                cases.append(Case("x%d.%s.%d" % (L, hx(st), k // 400), ["new %d" % L] + _with_sources(body, k) + chunk))
    return cases


def _with_sources(body, k):
    """the last tset/uset lines before position k (so that a chunk is self-contained)"""
    t = u = None
    for l in body[:k]:
        if l.startswith("tset "):
            t = l
        elif l.startswith("uset "):
            u = l
    return [x for x in (t, u) if x]



# ---- arguments around the integer-width boundaries of the length type ------------------------------------
#
# LengthType<L> is uint8_t up to capacity 255, uint16_t up to 65535.  A clamp such as `min( mLength, len)` written in
# that type (or a `static_cast< size_type>( count)` before a comparison) is right for every argument shorter than
# 2^w and wrong from there on, so every operation with a source or count argument is run with argument lengths
# W-2 .. W+1, W+k (k below the current length / below the free room), 2W-1, 2W, 2W+1 (W = 256 for capacities <= 255,
# 65536 for 256..65535) whose content makes the result depend on the characters on both sides of position
# (len mod W), and with counts/positions at the same values and just below SIZE_MAX.
# Long arguments are written `s:<hex>+<hex pattern>x<count>` (decodeSrc in the harness, srcDecode in the driver).

# (capacity, capacity of u, modulus of the length type, model fast enough for index-by-index scans)
WIDTH_TARGETS = [(7, 9, 256, True), (15, 300, 256, True), (254, 9, 256, True), (255, 600, 256, True),
                 (256, 70000, 65536, True), (257, 9, 65536, True), (65535, 9, 65536, False)]


def cyc(pat, n, phase=0):
    return bytes(pat[(phase + i) % len(pat)] for i in range(n))


class Src:
    """an argument as segments (bytes, None) = literal, (pattern, n) = pattern repeated cyclically to n bytes"""

    def __init__(self, segs=()):
        self.segs = [(bytes(b), n) for b, n in segs if b and (n is None or n > 0)]

    def __len__(self):
        return sum(len(b) if n is None else n for b, n in self.segs)

    def __add__(self, other):
        return Src(self.segs + other.segs)

    def bytes(self):
        return b"".join(b if n is None else cyc(b, n) for b, n in self.segs)

    def tok(self):
        return "+".join(hx(b) if n is None else "%sx%d" % (hx(b), n) for b, n in self.segs) or "-"

    def slice(self, i, j):
        out, at = [], 0
        for b, n in self.segs:
            ln = len(b) if n is None else n
            a, e = max(i, at), min(j, at + ln)
            if a < e:
                if n is None:
                    out.append((b[a - at:e - at], None))
                else:
                    ph = (a - at) % len(b)
                    out.append((b[ph:] + b[:ph], e - a))
            at += ln
        return Src(out)


def lit(b):
    return Src([(b, None)])


def width_content(rng, n):
    """content over {b,c}: a short random head, then a cyclic pattern (so that 64 k contents stay short on the line)"""
    head = rnd_bytes(rng, min(n, rng.randint(3, 12)), b"bc")
    pat = rng.choice([b"bcbbc", b"cbbcbcc", b"bbc", b"cbc", b"bccbcbb"])
    return Src([(head, None), (pat, n - len(head))])


def width_lengths(rng, W, n, room, su=None):
    """argument lengths around the modulus W of the length type"""
    ks = {1, 2, max(1, n - 1), n, n + 1, rng.randint(1, max(1, n - 1)), rng.randint(1, max(1, n - 1))}
    if room > 1:
        ks |= {room - 1, room, rng.randint(1, room - 1)}
    ms = {W - 2, W - 1, W, W + 1, 2 * W - 1, 2 * W, 2 * W + 1, 2 * W + rng.randint(1, max(1, n - 1))} | {W + k for k in ks}
    if W == 256:
        ms |= {65535, 65536, 65536 + rng.randint(1, max(1, n - 1))}
    else:
        ms |= {254, 255, 256, 257, 511, 512}
    return sorted(m for m in ms if m >= 1 and (su is None or m <= su))


def width_arg(rng, X, m, W, variant):
    """argument of length m related to the content X so that the result depends on both sides of position m mod W"""
    n, k = len(X), m % W
    lo = min(n, m)
    fill = bytes(rng.choice(b"abcd") for _ in range(7))
    F = lambda cnt: Src([(fill, cnt)])
    if variant in ("gt-after", "lt-after", "gt-before", "lt-before") and lo > 0:
        if variant.endswith("after"):      # the first difference lies behind the prefix a narrowed length would look at
            js = [j for j in (k, k + 1, (k + lo) // 2, lo - 1) if k <= j < lo] or [rng.randrange(lo)]
        else:
            js = [j for j in (0, k // 2, k - 1) if 0 <= j < min(k, lo)] or [rng.randrange(lo)]
        j = rng.choice(js)
        d = b"a" if variant.startswith("gt") else b"d"       # X is over {b,c}: 'a' makes the content the greater one
        return X.slice(0, j) + lit(d) + F(m - j - 1)
    if variant == "prefix":       # X (or its first m characters) is a prefix of the argument
        return X.slice(0, lo) + F(m - lo)
    if variant == "tail":         # the last k characters of X, then filler: ends_with / rfind under a narrowed length
        kk = min(k, n, m) if k else min(n, m, 2)
        return X.slice(n - kk, n) + F(m - kk)
    if variant == "inner":        # k characters from the middle of X, then filler: find / contains
        kk = max(1, min(k if k else 2, n - 1, m))
        i = rng.randint(0, max(0, n - kk))
        return X.slice(i, i + kk) + F(m - kk)
    if variant == "late":         # a character set whose only members of X's alphabet sit right behind position k: a count
        kk = min(k, max(0, m - 2))    # narrowed to k does not see them (find_*_of with a count; the model's inner loop is
        return Src([(b"ad", kk)]) + lit(b"bc"[:min(2, m)]) + Src([(b"da", m - kk - 2)])    # quadratic, so not at the end)
    # "distinct": position-dependent text for the mutators
    head = rnd_bytes(rng, min(m, 24))
    return lit(head) + Src([(bytes(rng.sample(list(b"ABCDEFGHJKLMNPQRSTUVWXYZ"), 11)), m - len(head))])


WIDTH_NUMS = ["255", "256", "257", "258", "511", "512", "65535", "65536", "65537", "65538", "131071", "131072",
              "4294967295", "4294967296", "4294967297", "9223372036854775808", "18446744069414584320",
              "@len+255", "@len+256", "@len+257", "@len+65535", "@len+65536", "@len+65537", "@cap+256", "@cap+65536",
              "@rem+255", "@rem+256", "@rem+65535", "@rem+65536",
              "npos", "npos-1", "npos-254", "npos-255", "npos-256", "npos-65534", "npos-65535", "npos-65536"]

# operations with counts/positions only.  {V}: the boundary value, {P}: a position inside the content, {c}: a small
# count, {h}: a character, {S}/{C}: a short std::string / C string, {F}: t or u, {I} {J}: an iterator range of s
WIDTH_NUM_OBS = [
    "at {V}", "cat {V}", "it_deref {V}", "substr {P} {V}", "substr {V} {c}", "substr_p {V}", "copy {V} {P}", "copy {c} {V}",
    "copy_c {V}", "cmp_ccs {P} {V} {S}", "cmp_ccs {V} {c} {S}", "cmp_ccp {P} {V} {C}", "cmp_ccf {P} {V} {F}",
    "cmp_ccscc {P} {V} {S} 0 {c}", "cmp_ccscc {P} {c} {S} 0 {V}", "cmp_ccscc {P} {c} {S} {V} {c}",
    "cmp_ccfcc {P} {V} {F} 1 {c}", "cmp_ccfcc {P} {c} {F} 0 {V}", "cmp_ccfcc {P} {c} {F} {V} {c}",
    "cmp_ccpc {P} {V} {C} {c}", "cmp_ccpc {P} {c} {C} {V}",
    "{fam}_c {h} {V}", "{fam}_s {S} {V}", "{fam}_pp {C} {V}", "{fam}_f t {V}", "{fam}_ppc {C} {V} 2",
]
WIDTH_NUM_MUT = [
    "insert_icc {P} {V} {h}", "insert_icc {V} {c} {h}", "insert_itcc {I} {V} {h}", "erase {P} {V}", "erase {V} {c}",
    "erase_i {V}", "append_cc {V} {h}", "rep_cccc {P} {c} {V} {h}", "rep_cccc {P} {V} {c} {h}", "rep_cccc {V} {c} {c} {h}",
    "rep_itit_cc {I} {J} {V} {h}", "rep_ccs {P} {V} {S}", "rep_ccs {V} {c} {S}", "rep_ccp {P} {V} {C}", "rep_ccf {P} {V} {F}",
    "rep_ccscc {P} {V} {S} 0 {c}", "rep_ccscc {P} {c} {S} 0 {V}", "rep_ccscc {P} {c} {S} {V} {c}", "rep_ccsc {P} {V} {S} 1",
    "rep_ccsc {P} {c} {S} {V}", "rep_ccfcc {P} {V} {F} 0 {c}", "rep_ccfcc {P} {c} {F} 0 {V}", "rep_ccfcc {P} {c} {F} {V} {c}",
    "rep_ccfc {P} {V} {F} 1", "rep_ccfc {P} {c} {F} {V}", "rep_ccpc {P} {V} {C} {c}", "rep_ccpc {P} {c} {C} {V}",
    "insert_isic {P} {S} 0 {V}", "insert_isic {P} {S} {V} {c}", "insert_isic {V} {S} 0 {c}", "insert_ific {P} {F} 0 {V}",
    "insert_ific {P} {F} {V} {c}", "insert_is {V} {S}", "insert_ip {V} {C}", "insert_if {V} {F}",
    "append_spc {S} 0 {V}", "append_spc {S} 1 {V}", "append_spc {S} {V} {c}", "append_sp {S} {V}",
    "append_fpc {F} 0 {V}", "append_fpc {F} {V} {c}", "append_fp {F} {V}", "append_pc {C} {V}",
]

# operations with a long source.  {A}: `s:`/`c:` + the argument (the prefix is chosen from the operation), {U}: u holds
# the argument, {p2}: a position inside the argument, {n2}: a count around its length, {k2}: a count <= its length + 1
WIDTH_SRC_MUT = [
    "ctor_s {A}", "assign_s {A}", "set_s {A}", "append_s {A}", "add_s {A}", "ctor_p {A}", "assign_p {A}", "set_p {A}",
    "append_p {A}", "add_p {A}", "sprintf {A}", "sprintf2 {A} 7", "insert_is {P} {A}", "insert_ip {P} {A}",
    "insert_ipc {P} {A} {k2}", "insert_isic {P} {A} {p2} {n2}", "append_spc {A} {p2} {n2}", "append_sp {A} {p2}",
    "append_pc {A} {n2}", "rep_ccs {P} {c} {A}", "rep_ccp {P} {c} {A}", "rep_ccpc {P} {c} {A} {n2}",
    "rep_ccscc {P} {c} {A} {p2} {n2}", "rep_ccsc {P} {c} {A} {p2}", "rep_itit_sit {I} {J} {A} {ij}",
    "rep_itit_pc {I} {J} {A} {k2}", "rep_itit_p {I} {J} {A}",
    "ctor_f {U}", "assign_f {U}", "set_f {U}", "append_f {U}", "add_f {U}", "insert_if {P} {U}", "insert_ific {P} {U} {p2} {n2}",
    "append_fpc {U} {p2} {n2}", "append_fp {U} {p2}", "rep_ccf {P} {c} {U}", "rep_ccfcc {P} {c} {U} {p2} {n2}",
    "rep_ccfc {P} {c} {U} {p2}",
]
# (template, variants that make a narrowed length visible, every length in the quick tier as well)
WIDTH_SRC_OBS = [
    ("cmp_s {A}", ("gt-after", "lt-after", "gt-before", "prefix"), True),
    ("cmp_p {A}", ("gt-after", "lt-after", "gt-before", "prefix"), True),
    ("cmp_f {U}", ("gt-after", "lt-after", "gt-before", "prefix"), True),
    ("cmp_ccs 0 npos {A}", ("gt-after", "lt-after", "prefix"), True),
    ("cmp_ccp 0 npos {A}", ("gt-after", "lt-after", "prefix"), True),
    ("cmp_ccf 0 npos {U}", ("gt-after", "lt-after", "prefix"), True),
    ("cmp_ccs {P} {c} {A}", ("gt-after", "lt-after", "inner"), False),
    ("cmp_ccscc {P} {n2} {A} {p2} {n2}", ("gt-after", "prefix", "distinct"), False),
    ("cmp_ccscc 0 npos {A} 0 {n2}", ("gt-after", "lt-after", "prefix"), False),
    ("cmp_ccfcc 0 npos {U} 0 {n2}", ("gt-after", "lt-after", "prefix"), False),
    ("cmp_ccfcc {P} {n2} {U} {p2} {n2}", ("gt-after", "prefix", "distinct"), False),
    ("cmp_ccpc 0 npos {A} {n2}", ("gt-after", "lt-after", "prefix"), False),
    ("eq {U}", ("prefix", "gt-after"), False), ("ne {U}", ("prefix", "gt-after"), False),
    ("sw_s {A}", ("prefix", "gt-after"), True), ("sw_p {A}", ("prefix", "gt-after"), True), ("sw_f {U}", ("prefix", "gt-after"), True),
    ("ew_s {A}", ("tail",), True), ("ew_p {A}", ("tail",), True), ("ew_f {U}", ("tail",), True),
    ("ct_s {A}", ("inner", "prefix", "tail"), True), ("ct_p {A}", ("inner", "prefix", "tail"), True),
    ("ct_f {U}", ("inner", "prefix", "tail"), True),
    ("{fam}_s {A} {fp}", ("inner", "prefix", "tail", "late"), False),
    ("{fam}_s0 {A}", ("inner", "prefix", "tail", "late"), False),
    ("{fam}_pp {A} {fp}", ("inner", "prefix", "tail", "late"), False),
    ("{fam}_p0 {A}", ("inner", "prefix", "tail", "late"), False),
    ("{fam}_ppc {A} {fp} {k2}", ("inner", "prefix", "tail", "late"), False),
]
C_STRING_OPS = ("ctor_p", "assign_p", "set_p", "append_p", "add_p", "sprintf", "insert_ip", "append_pc", "rep_ccp", "rep_itit_p",
                "cmp_p", "cmp_ccp", "sw_p", "ew_p", "ct_p", "_pp", "_p0")


def width_units(rng, L, su, W, scans, X, full):
    """(set-up lines, operation line, changes s) for one content X of the capacity L"""
    n = len(X)
    room = L - n
    units = []
    P = lambda: rng.choice(["0", "0", "1", "@len", "@len-1", str(n // 2)])
    c = lambda: rng.choice(["0", "1", "2", "3", "@len", "npos"])
    h = lambda: rng.choice(["78", "79", "62"])
    S = lambda: "s:" + hx(rng.choice([b"xyz", b"bc", b"x", b"bcbxy", b"cb"]))
    C = lambda: "c:" + hx(rng.choice([b"xyz", b"bc", b"x", b"bcbxy", b"cb"]))
    F = lambda: rng.choice(["t", "u"])

    def itrange():
        a = rng.choice(["0", "0", "1"]) if n > 1 else "0"
        b = rng.choice(["end", "@len-1", str(int(a) + 1), str(int(a) + 2)])
        return a, b

    def ok(op):
        return scans or not op.startswith(SCANNING)

    # ---- counts and positions
    for mut, templates in ((False, WIDTH_NUM_OBS), (True, WIDTH_NUM_MUT)):
        for tpl in templates:
            fams = FIND_FAMILIES if "{fam}" in tpl else [None]
            vals = rng.sample(WIDTH_NUMS, (16 if len(fams) == 1 else 6) if full else (5 if len(fams) == 1 else 2))
            for fam in fams:
                for v in vals:
                    i, j = itrange()
                    op = tpl.format(V=v, P=P(), c=c(), h=h(), S=S(), C=C(), F=F(), I=i, J=j, fam=fam)
                    if ok(op):
                        units.append(([], op, mut))

    # ---- long sources
    def src_units(tpl, variants, every, mut):
        ms_all = width_lengths(rng, W, n, room)
        fams = FIND_FAMILIES if "{fam}" in tpl else [None]
        for fam in fams:
            use_u = "{U}" in tpl
            ms = [m for m in ms_all if not use_u or m <= su]
            if not ms:
                continue
            if not scans:
                ms = [m for m in ms if m < 1000 or m in (W - 1, W, W + 1) or rng.random() < 0.3]
            combos = [(m, v) for m in ms for v in variants]
            if not every:
                combos = rng.sample(combos, min(len(combos), (12 if fam is None else 4) if full else (3 if fam is None else 1)))
            for m, v in combos:
                if fam in ("ffo", "ffno", "flo", "flno") and "_ppc" in tpl and m > 1100:
                    if m % W > 600:
                        continue
                    v = "late"       # memN walks the set index by index: both characters of X must be found early
                A = width_arg(rng, X, m, W, v)
                k = m % W
                p2 = rng.choice([0, 0, 1, k, min(m, 255), min(m, 256), min(m, 257), m - 1, m, min(m, W), min(m, W + 1)])
                n2 = rng.choice(["npos", str(m), str(m - 1), str(m - p2), "256", "257", "255", str(k), "@rem", "@rem+256", "@len",
                                 "@len+256", "1", "65536", "65537"])
                k2 = rng.choice([m, m, m + 1, m - 1, k, min(m, 256), min(m, 257), min(m, W), min(m, W + 1)])
                a, b = sorted([rng.choice([0, 1, k, min(m, 256), min(m, W)]), rng.choice([k, min(m, 256), min(m, 257), m, m - 1, min(m, W)])])
                if a == b:
                    a, b = 0, m
                i, j = itrange()
                pre = []
                if use_u:
                    pre = ["uset s:" + A.tok()]
                word = tpl.split(" ")[0].replace("{fam}", fam or "")
                kind = "c:" if word.startswith(C_STRING_OPS) or word.endswith(C_STRING_OPS) or word in (
                    "insert_ipc", "rep_ccpc", "rep_itit_pc", "cmp_ccpc") or word.endswith("_ppc") else "s:"
                fp = rng.choice(["0", "0", "1", "npos", "@len-1", "@len"]) if fam in (None, "find", "ffo", "ffno") else rng.choice(
                    ["npos", "npos", "@len-1", "@len-2", "0"])
                op = tpl.format(A=kind + A.tok(), U="u", P=P(), c=c(), p2=p2, n2=n2, k2=k2, ij="%d %d" % (a, b), I=i, J=j,
                                fam=fam, fp=fp)
                if ok(op):
                    units.append((pre, op, mut))

    for tpl in WIDTH_SRC_MUT:
        src_units(tpl, ("distinct", "prefix"), False, True)
    for tpl, variants, every in WIDTH_SRC_OBS:
        src_units(tpl, variants, every, False)
    return units


def width_cases(rng, full):
    cases = []
    for L, su, W, scans in WIDTH_TARGETS:
        lens = [L, max(1, L - rng.randint(3, max(3, min(L - 1, 40))))]
        if full:
            lens.append(max(1, L // 2))
        for xi, n in enumerate(lens):
            X = width_content(rng, n)
            units = width_units(rng, L, su, W, scans, X, full)
            rng.shuffle(units)
            if not scans:       # 64 k contents: every line costs ~10 ms in the list-based model
                units = units[:len(units) // 2]
            header = ["new %d" % L if su == SU else "new %d %d" % (L, su), "tset s:" + hx(rnd_bytes(rng, min(L, 5), b"bcx"))]
            reset = "assign_s s:" + X.tok()
            short_u = "uset s:" + hx(rnd_bytes(rng, min(su, 6), b"bcy"))
            lines, count, dirty, ulong = None, 0, True, True
            for pre, op, mut in units:
                if lines is None or count >= 150:
                    if lines:
                        cases.append(Case("w%d.%d.%d" % (L, xi, len(cases)), lines))
                    lines, count, dirty, ulong = list(header), 0, True, True
                if pre:
                    ulong = True
                elif ulong and (" u" in op):      # the count/position templates want a short u again
                    lines.append(short_u)
                    ulong = False
                lines += pre
                if dirty:
                    lines.append(reset)
                    dirty = False
                lines.append(op)
                count += 1
                dirty = mut
            if lines:
                cases.append(Case("w%d.%d.%d" % (L, xi, len(cases)), lines))
    return cases



# ---- search strings that stick out behind the end of a (nearly) full content -------------------------------------
#
# Added after seeded defect C10-3 (containsImpl: start positions up to mLength-1 instead of mLength-str_len): a search
# or comparison that tries a start position too close to the end calls memcmp on [idx, idx+m) and reads over the
# terminator, over mLength and out of the object.  The answer is never wrong (the terminator differs), nothing is
# written: only the sanitizer on the mirror object (exact-size heap block, harness/fixed_string.cpp) can see it, and
# only when (1) the content is full or nearly full, (2) the first character of the search string occurs in the last
# m-1 characters (the code tests `mString[ idx] == str[ 0]` before memcmp), (3) the search string is not found earlier
# and (4) the last compared index n+o-1 (n = length, o = number of characters sticking out) is >= sizeof( FixedString< L>).
# `overhang_needles` builds exactly these arguments from the known content, for every search / compare / copy operation.


def fs_sizeof(L):
    """sizeof( FixedString< L>): char[ L + 1], then LengthType< L>::type at its alignment (no tail padding)"""
    w = 1 if L <= 255 else 2 if L <= 65535 else 4
    return (L + 1 + w - 1) // w * w + w


# (capacity, model fast enough for index-by-index scans)
OVERHANG_TARGETS = [(4, True), (5, True), (7, True), (8, True), (15, True), (16, True), (254, True), (255, True), (256, True),
                    (257, True), (65535, False), (65536, False)]

# {S} {C}: the needle as std::string / C string, {T} {U}: t / u hold it (cut at their capacity), {i}: a position at or
# next to the start of the overhang, {c1}: a count around the needle length, {p2} {c2}: position / count inside the needle,
# {k2}: a count <= its length + 1, {fp}: a search start position, {h}: its first character
OVERHANG_OPS = [
    "ct_s {S}", "ct_p {C}", "ct_f {T}", "ct_f {U}", "ct_c {h}",
    "sw_s {S}", "sw_p {C}", "sw_f {T}", "sw_f {U}", "ew_s {S}", "ew_p {C}", "ew_f {T}", "ew_f {U}", "ew_c {h}",
    "cmp_s {S}", "cmp_p {C}", "cmp_f {T}", "cmp_f {U}", "eq {T}", "eq {U}", "ne {T}", "ne {U}",
    "cmp_ccs {i} {c1} {S}", "cmp_ccp {i} {c1} {C}", "cmp_ccf {i} {c1} {T}", "cmp_ccf {i} {c1} {U}",
    "cmp_ccscc {i} {c1} {S} {p2} {c2}", "cmp_ccfcc {i} {c1} {T} {p2} {c2}", "cmp_ccfcc {i} {c1} {U} {p2} {c2}",
    "cmp_ccpc {i} {c1} {C} {k2}",
    "{fam}_s {S} {fp}", "{fam}_s0 {S}", "{fam}_pp {C} {fp}", "{fam}_p0 {C}", "{fam}_ppc {C} {fp} {k2}", "{fam}_f {T} {fp}",
    "{fam}_f0 {T}", "{fam}_c {h} {fp}",
    "substr {i} {c1}", "substr_p {i}", "copy {c1} {i}", "copy_c {c1}", "at {i}", "it_deref {i}", "back", "c_str", "str",
]


def overhang_needles(rng, L, X):
    """[(needle, i, critical, inside)] for the content X (a Src): i = the position of X where the needle starts to
    match, critical = a memcmp of the whole needle at i ends outside the object, inside = not longer than X"""
    n = len(X)
    out_o = fs_sizeof(L) - n + 1          # from this overhang on the last compared index is outside the object
    fill = lambda k: Src([(bytes(rng.sample(list(b"xyzw#~"), 3)), k)])      # X is over other characters: never found
    res = []
    for i in sorted({n - 1, n - 2, n - 3, n - 4, n - 6, n - 9, n - rng.randint(1, min(n, 12))}):
        if i < 0:
            continue
        for o in sorted({1, 2, out_o - 1, out_o, out_o + 1, out_o + 3, out_o + 8}):
            if o < 1:
                continue
            m = n - i + o
            res.append((X.slice(i, n) + fill(o), i, o >= out_o, m <= n))
    for k in sorted({1, 2, out_o, out_o + 5}):         # the content and more: starts_with / compare / == with a longer string
        if k >= 1:
            res.append((X + fill(k), 0, k >= out_o, False))
    for k in (1, 2, 17):                               # ends_with a longer string: the start would lie before the object
        res.append((fill(k) + X, 0, True, False))
    for i in sorted({0, n // 2, n - 2, n - 1}):        # really contained: suffixes, a prefix, the content itself
        if 0 <= i < n:
            res.append((X.slice(i, n), i, False, True))
    if n > 1:
        res.append((X.slice(0, n - 1), 0, False, True))
    return res


def overhang_ops(rng, L, X, needle, i, templates, per_template=1):
    """operation lines (preceded by tset / uset when the needle is passed as a FixedString) for one needle"""
    n, m = len(X), len(needle)
    first = "%02x" % needle.bytes()[:1][0] if m <= 64 else "%02x" % needle.slice(0, 1).bytes()[0]
    tok = needle.tok()
    lines, loaded = [], set()
    for tpl in templates:
        for _ in range(per_template):
            fam = rng.choice(FIND_FAMILIES[:2] * 3 + FIND_FAMILIES) if "{fam}" in tpl else None
            pi = rng.choice([i, i, max(0, i - 1), "@len-1", "@len"])
            c1 = rng.choice([m, m, "npos", n - i, n - i + 1, max(0, m - 1), m + 1])
            p2 = rng.choice([0, 0, 1, max(0, m - 1)])
            c2 = rng.choice([m, "npos", max(0, m - p2), m + 1])
            k2 = rng.choice([m, m, max(0, m - 1), m + 1, min(m, n - i)])
            fp = rng.choice([0, 0, i, i, max(0, i - 1), i + 1, max(0, n - m), max(0, n - m) + 1, "@len-1", "@len-2", "@len", "npos", "npos"])
            op = tpl.format(S="s:" + tok, C="c:" + tok, T="t", U="u", i=pi, c1=c1, p2=p2, c2=c2, k2=k2, fp=fp, h=first, fam=fam)
            for obj, word in (("t", "tset"), ("u", "uset")):
                if op.split(" ")[1:].count(obj) and obj not in loaded:
                    lines.append("%s s:%s" % (word, tok))
                    loaded.add(obj)
            lines.append(op)
    return lines


def overhang_probe(rng, L, X):
    """a few overhang operations for a random history whose content X is known at this point"""
    cands = overhang_needles(rng, L, X)
    crit = [c for c in cands if c[2]] or cands
    needle, i, _, _ = rng.choice(crit if rng.random() < 0.7 else cands)
    tpls = [t for t in OVERHANG_OPS if L <= 300 or not t.replace("{fam}", "find").startswith(SCANNING)]
    return overhang_ops(rng, L, X, needle, i, rng.sample(tpls, rng.choice([1, 2, 3])))


def overhang_cases(rng, full):
    cases = []
    for L, scans in OVERHANG_TARGETS:
        lens = [L, rng.choice([L - 1, L - 2])] if not full else [L, L - 1, L - 2, max(1, L - 5)]
        for xi, n in enumerate(lens):
            X = width_content(rng, n)
            cands = overhang_needles(rng, L, X)
            by_needle = {}
            for tpl in OVERHANG_OPS:
                if not scans and tpl.replace("{fam}", "find").startswith(SCANNING):
                    continue
                fams = 6 if "{fam}" in tpl else 1
                pools = [[k for k, c in enumerate(cands) if c[2] and c[3]], [k for k, c in enumerate(cands) if c[2]],
                         list(range(len(cands)))]
                for _ in range(fams):
                    picks = set()
                    for pool in pools * (3 if full else 1):
                        if pool:
                            picks.add(rng.choice(pool))
                    for k in picks:
                        by_needle.setdefault(k, []).append(tpl)
            header = ["new %d" % L, "assign_s s:" + X.tok()]
            lines = list(header)
            for k in sorted(by_needle):
                needle, i, _, _ = cands[k]
                lines += overhang_ops(rng, L, X, needle, i, by_needle[k])
                if len(lines) > 160:
                    cases.append(Case("o%d.%d.%d" % (L, xi, len(cases)), lines))
                    lines = list(header)
            if len(lines) > len(header):
                cases.append(Case("o%d.%d.%d" % (L, xi, len(cases)), lines))
    return cases


# ---- self-aliasing sources ----------------------------------------------------------------------------
# `alias <op>`: the FixedString / iterator-pair argument `t` of <op> is the object `s` itself; `self:<k>`: a const char*
# argument is `s.c_str() + k`.  std::string specifies such a source as a copy of the pre-state; the model treats every
# source as a value (World.aliased / selfPtr in Model/FixedStringAlias.lean), the harness hands the real object itself.

ALIAS_CAPS = [4, 5, 8, 15, 16, 255, 256]


def alias_ops(rng, L, n):
    """aliasing operations for a content of length n in a string of capacity L: positions 0/1/middle/len, sources
    starting before, at and behind the position, counts that end before, at and behind the capacity"""
    P = sorted({0, min(1, n), n // 2, n})
    ops = []

    def starts(p):
        return sorted({j for j in (0, 1, p - 1, p, p + 1, p + 2, n - 1, n) if 0 <= j <= n})

    def counts(j):
        room = L - n
        return sorted({c for c in (0, 1, 2, n - j, room - 1, room, room + 1) if 0 <= c}) + ["npos"]

    def itr(a, b):
        a, b = min(a, n), min(b, n)
        if a > b:
            a, b = b, a
        if a >= n:
            return "end", "end"
        return str(a), ("end" if b >= n and rng.random() < 0.5 else str(b))

    for p in P:
        ops.append("alias insert_if %d t" % p)
        for j in starts(p):
            ops.append("insert_ip %d self:%d" % (p, j))
            for c in counts(j):
                ops.append("alias insert_ific %d t %d %s" % (p, j, c))
                if c != "npos" and c <= n - j + 1:
                    ops.append("insert_ipc %d self:%d %d" % (p, j, c))
        for c1 in sorted({0, 1, 2, n - p, n}) + ["npos"]:
            ops.append("alias rep_ccf %d %s t" % (p, c1))
            for j in starts(p):
                ops.append("alias rep_ccfc %d %s t %d" % (p, c1, j))
                ops.append("rep_ccp %d %s self:%d" % (p, c1, j))
                for c in counts(j):
                    ops.append("alias rep_ccfcc %d %s t %d %s" % (p, c1, j, c))
                    ops.append("rep_ccpc %d %s self:%d %s" % (p, c1, j, c))
        if p < n:
            for q in sorted({p + 1, (p + n + 1) // 2, n}):
                f, l = str(p), ("end" if q >= n else str(q))
                for j in starts(p):
                    for y in sorted({j, j + 1, j + 2, n}):
                        x2, y2 = itr(j, y)
                        ops.append("alias rep_itit_itit %s %s %s %s" % (f, l, x2, y2))
                    ops.append("rep_itit_p %s %s self:%d" % (f, l, j))
                    for c in (0, 1, 2, n - j, n - j + 1):
                        if 0 <= c <= n - j + 1:
                            ops.append("rep_itit_pc %s %s self:%d %d" % (f, l, j, c))
    for j in sorted({0, 1, n // 2, max(0, n - 1), n}):
        ops += ["assign_p self:%d" % j, "set_p self:%d" % j, "append_p self:%d" % j, "add_p self:%d" % j,
                "sprintf self:%d" % j, "sprintf2 self:%d %d" % (j, rng.choice([0, 7, 42, 123456789])),
                "alias append_fp t %d" % j]
        for c in counts(j):
            ops.append("alias append_fpc t %d %s" % (j, c))
            ops.append("append_pc self:%d %s" % (j, c))
        for y in sorted({j, j + 1, n}):
            ops.append("alias append_itit %s %s" % itr(j, y))
    ops += ["alias assign_f t", "alias set_f t", "alias append_f t", "alias add_f t"]
    return sorted(set(ops))


def alias_cases(rng, full):
    """a few hundred (quick) / a few thousand (thorough) aliasing operations, each on a freshly assigned content;
    sampled with the run's PRNG from the systematic list of alias_ops()"""
    cases = []
    for L in ALIAS_CAPS:
        lens = sorted({1, 3, L // 2, L - 2, L - 1, L} if L <= 16 else {3, L - 2, L})
        for n in lens:
            if n < 0 or n > L:
                continue
            # distinct neighbouring characters, so that a source read after the tail was moved shows in the content
            X = lit(bytes(b"abcdefghijklmnopqrstuvwxyz"[(k + rng.randrange(3)) % 26] for k in range(n)))
            ops = alias_ops(rng, L, n)
            if L > 16:
                ops = [o for o in ops if rng.random() < 0.5]
            take = min(len(ops), 250) if full else min(len(ops), 9 if L <= 16 else 6)
            picked = rng.sample(ops, take)
            # the two documented witnesses stay in every run
            if L == 8 and n == 3:
                picked += ["alias insert_ific 1 t 2 1", "alias rep_ccfcc 0 2 t 1 1", "assign_p self:1", "sprintf self:0"]
            header = ["new %d" % L]
            lines = list(header)
            for o in picked:
                lines += ["assign_s s:" + X.tok(), o]
                if len(lines) > 120:
                    cases.append(Case("a%d.%d.%d" % (L, n, len(cases)), lines))
                    lines = list(header)
            if len(lines) > len(header):
                cases.append(Case("a%d.%d.%d" % (L, n, len(cases)), lines))
    return cases


def generate(prop, tier, seed, scale=1):
    rng = random.Random("%s-%s" % (prop, seed))
    n = (700 if tier == "quick" else 20000) * scale
    cases = []
    for i in range(n):
        # C11 wants mostly in-domain arguments, C10 wants the hostile ones too
        hostile = (rng.random() < (0.6 if prop == "C10" else 0.25))
        cases.append(random_case(rng, "g%d" % i, hostile))
    yield "generated", cases
    wrng = random.Random("%s-%s-width" % (prop, seed))
    yield "width boundaries of the length type (argument lengths, counts and positions around 2^8 / 2^16 / 2^64)", \
        width_cases(wrng, tier != "quick")
    frng = random.Random("%s-%s-sprintf" % (prop, seed))
    yield "sprintf with %ls / %.*ls / %lc arguments that are (not) representable in the C locale: failing formatter on fresh, filled and full strings", \
        sprintf_cases(frng, tier != "quick")
    orng = random.Random("%s-%s-overhang" % (prop, seed))
    yield "search strings sticking out behind the end of a full or nearly full content (over-reads of the object)", \
        overhang_cases(orng, tier != "quick")
    arng = random.Random("%s-%s-alias" % (prop, seed))
    yield "self-aliasing sources: the object itself as FixedString argument, const char* into the own buffer, iterator pairs of the own object, sprintf of the own c_str()", \
        alias_cases(arng, tier != "quick")
    if tier == "quick":
        yield "exhaustive L<=2 over {a,b}, args 0..L+2 u {npos}", exhaustive_cases(2, 0)
    else:
        yield "exhaustive L<=3 over {a,b}, args 0..L+2 u {npos}", exhaustive_cases(3, 1)
