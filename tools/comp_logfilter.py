"""component plugin: log routing and filters (C14)

Three legs on every run:
  * translate/logdefs.py regenerates Generated/LogDefs.lean (enumerations, text tables, bitset size,
    comparison operators, duplicate policies, constructor / checkSetFilter shape) from the current source,
    so the theorems of Props/C14.lean are re-checked against what the code says now;
  * harness/log_filters.cpp (real Logging/Log/Filters/ILogDest, ASan+UBSan) against the model driver on
    generated and exhaustively enumerated histories (diff);
  * `judge` evaluates the property itself on the implementation's output with an independent reference
    written from the property statement (no generated operator / size / loop bound is used), so that a
    mutation the translator follows into the model still yields a concrete failing input.
"""
import itertools
import os
import random
import re
import sys

import vlib
from vlib import Case, Problem

sys.path.insert(0, os.path.join(vlib.VERIF, "translate"))
import logdefs  # noqa: E402

COMPONENT = "logfilter"
DRIVER = "model-logfilter"

REPO_SOURCES = [
    "src/library/log/logging.cpp",
    "src/library/log/log_attributes.cpp",
    "src/library/log/detail/log.cpp",
    "src/library/log/detail/i_log_dest.cpp",
    "src/library/log/detail/log_msg.cpp",
    "src/library/log/detail/stream_log.cpp",
    "src/library/log/detail/log_attributes_container.cpp",
    "src/library/log/detail/log_data.cpp",
    "src/library/log/detail/log_dest_data.cpp",
    "src/library/log/filter/filters.cpp",
    "src/library/log/filter/detail/log_filter_classes.cpp",
    "src/library/log/filter/detail/duplicate_policy_factory.cpp",
    "src/library/common/exception_base.cpp",
    "src/library/common/extract_funcname.cpp",
]


def translate(repo_root, lean_root):
    """regenerate Generated/LogDefs.lean; when the source cannot be followed the error is passed on (broken tie),
    but a generated file left behind by a run on *another* tree is first replaced by the committed one (the model
    of the unchanged code), so that the search for a failing input compares against a defined model"""
    try:
        return logdefs.translate(repo_root, lean_root)
    except logdefs.TranslateError:
        _restore_committed(lean_root)
        raise


def _restore_committed(lean_root):
    import subprocess
    rel = "lean/CelmaVerif/Generated/LogDefs.lean"
    out = os.path.join(lean_root, "CelmaVerif", "Generated", "LogDefs.lean")
    try:
        text = subprocess.run(["git", "-C", vlib.VERIF, "show", "HEAD:" + rel], capture_output=True, timeout=30,
                              check=True).stdout.decode("utf-8")
        if not text.strip():
            return
        try:
            old = open(out, encoding="utf-8").read()
        except OSError:
            old = None
        if old != text:
            tmp = out + ".tmp%d" % os.getpid()
            with open(tmp, "w", encoding="utf-8") as f:
                f.write(text)
            os.replace(tmp, out)
    except Exception:        # no git, no committed copy: leave the file as it is
        pass


PROPERTIES = {
    "C14": {
        "lean_module": "CelmaVerif.Props.C14",
        "kind": "functional",
        "translators": [translate],
        "trusted": [
            "translate/logdefs.py with its C++ front end logdefs_cxx.py / logdefs_norm.py (regenerates Generated/LogDefs.lean "
            "from the normal form of the anchored functions: enumerators, text tables, bitset size "
            "expression, comparison operators, duplicate policies, Filters() / checkSetFilter shape; raises when a "
            "construct is not understood)",
            "hand-written model CelmaVerif/Model/Log.lean of logging.cpp, log.cpp, i_log_dest.cpp, filters.cpp, "
            "log_filter_classes.cpp, helper_function.hpp, LOG_LEVEL; tied by the correspondence run "
            "(harness/log_filters.cpp, in-process, ASan+UBSan) on every invocation",
            "independent reference of the property statement in tools/comp_logfilter.py (judge)",
            "strcasecmp in the \"C\" locale = ASCII case folding; boost::char_separator drops separators and "
            "empty tokens; std::bitset::set range-checks, operator[] does not",
        ],
        "assumptions": [
            "messages carry enumerated levels and classes (what StreamLog's range checks and the macros produce)",
            "a destination object is added to one log only (LogDestData takes ownership of the raw pointer)",
            "log ids passed to the routing are those returned by findCreateLog, or-ed together, plus unused bits",
            "single-threaded use (Logging is not synchronised; C20 covers the singleton)",
        ],
    }
}

RULE = ("cases are independent histories on a re-created Logging singleton; one evaluation = one operation line run "
        "on both the real classes and the Lean model (a `sweep` line sends all 49 (level, class) messages); "
        "distinct_nontrivial = distinct (operation, sub-kind, result class, delivery signature) tuples where the "
        "delivery signature says whether none / some / all destinations received something")


def build_harness(work, prop):
    return vlib.build_harness(work, "harness/log_filters.cpp", REPO_SOURCES, extra_flags=["-w", "-D_GLIBCXX_ASSERTIONS"])


def diff_is_failure(prop, p):
    """Functional property: the model is proved to deliver exactly what the statement demands, to keep the
    first / last filter according to the policy and to pre-check soundly; every output line of the protocol
    is determined by the statement except the internal `state` dump."""
    return not p.line.startswith("state")


def nontrivial_key(op, result):
    w = op.split(" ")
    r = (result or "").split(" ")
    sub = ""
    if w[0] == "filter" and len(w) > 2:
        sub = w[2] + ("/dest" if "/" in w[1] else "/log")
    elif w[0] in ("dest", "log", "policy") and len(w) > 1:
        sub = w[1]
    sig = ""
    if w[0] in ("send", "sendname", "macro", "macroname", "sweep") and r and r[0] == "ok":
        vals = [x.split("=", 1)[1] for x in r[1:] if "=" in x]
        got = [any(ch != "0" for ch in v) for v in vals]
        sig = "nodest" if not vals else "none" if not any(got) else "all" if all(got) else "some"
    elif w[0] in ("precheck", "precheckname", "presweep") and len(r) > 1:
        sig = r[1]
    return (w[0], sub, r[0] if r else "", r[1] if r and r[0] == "throw" and len(r) > 1 else "", sig)


# --------------------------------------------------------------------------
# the property, evaluated on the implementation's output (independent reference)

_TEXTS = None


def class_texts():
    """display texts of the classes (index -> text) from the current source; only the *names*, nothing else"""
    global _TEXTS
    if _TEXTS is None:
        _TEXTS = logdefs.class_text_table(vlib.REPO)
    return _TEXTS


def ascii_lower(s):
    return "".join(chr(ord(c) + 32) if "A" <= c <= "Z" else c for c in s)


class Ref:
    """reference state: what the statement of C14 says the configuration means"""

    def __init__(self):
        self.policy = "ignore"
        self.logs = []          # [name, id, filters{type: param}, dests[[name, filters]]]
        self.next = 1

    def log(self, name):
        for l in self.logs:
            if l[0] == name:
                return l
        return None

    @staticmethod
    def accepts(filters, lv, cl):
        for t, x in filters.items():
            if t == "max" and not lv <= x:
                return False
            if t == "min" and not lv >= x:
                return False
            if t == "level" and not lv == x:
                return False
            if t == "classes" and cl not in x:
                return False
        return True

    def set_filter(self, filters, kind, arg):
        """returns the expected result line"""
        if kind == "classes":
            text = bytes.fromhex(arg).decode("latin-1") if arg != "-" else ""
            names = {ascii_lower(t): i for i, t in class_texts().items() if i != "n"}
            sel = set()
            ok = True
            for tok in [t for t in text.split(",") if t]:
                tok = tok.split("\0")[0]
                if ascii_lower(tok) in names:
                    sel.add(names[ascii_lower(tok)])
                else:
                    ok = False
                    break
            val = sel if ok and sel else None
        else:
            val = int(arg)
        if kind in filters:
            if self.policy == "ignore":
                return "ok"
            if self.policy == "exception":
                return "throw runtime_error"
        if val is None:
            return "throw runtime_error"
        filters[kind] = val
        return "ok"

    def counts(self, selected, lv, cl):
        out = []
        for l in self.logs:
            hit = selected(l) and self.accepts(l[2], lv, cl)
            for d in l[3]:
                out.append((l[0] + "/" + d[0], 1 if hit and self.accepts(d[1], lv, cl) else 0))
        return out


def judge(prop, case, impl, model):
    """default line-by-line diff, preceded by the property's own oracle on the implementation's lines"""
    ref = Ref()
    ops = ["case " + case.cid] + case.lines
    for i, op in enumerate(ops):
        a = impl[i] if i < len(impl) else None
        if a is None:
            break
        if a.startswith("!!"):
            return [Problem("oracle", case, i, op, a, model[i] if i < len(model) else None)]
        if a.startswith("bad-op"):
            break
        w = op.split(" ")
        want = None
        try:
            if w[0] == "log" and w[1] == "new":
                if ref.log(w[2]) is None and a.startswith("ok id="):
                    ref.logs.append([w[2], int(a[6:]), {}, []])
                    if len(set(l[1] for l in ref.logs)) != len(ref.logs) or ref.logs[-1][1] & (ref.logs[-1][1] - 1):
                        want = "ok id=<a fresh single bit>"
                elif ref.log(w[2]) is not None:
                    want = "ok id=%d" % ref.log(w[2])[1]
            elif w[0] == "dest":
                l = ref.log(w[2])
                if l is None:
                    want = "ok nolog"
                else:
                    want = "ok"
                    if w[1] == "add":
                        l[3].append([w[3], {}])
                    else:
                        for k, d in enumerate(l[3]):
                            if d[0] == w[3]:
                                del l[3][k]
                                break
            elif w[0] == "policy":
                ref.policy = w[1]
                want = "ok"
            elif w[0] == "filter":
                ln, _, dn = w[1].partition("/")
                l = ref.log(ln)
                if l is None:
                    want = "ok nolog"
                elif "/" in w[1]:
                    ds = [d for d in l[3] if d[0] == dn]
                    want = ref.set_filter(ds[0][1], w[2], w[3]) if ds else "throw runtime_error"
                else:
                    want = ref.set_filter(l[2], w[2], w[3])
            elif w[0] in ("send", "sendname", "macro", "macroname"):
                lv, cl = int(w[2]), int(w[3])
                if w[0] in ("sendname", "macroname"):      # C14_macro_single_name: the macro delivers like the send
                    first = ref.log(w[1])
                    sel = lambda l: l is first
                else:
                    ids = int(w[1])
                    sel = lambda l: bool(ids & l[1])
                    if w[0] == "macro" and any((ids & l[1]) and ids != l[1] for l in ref.logs):
                        # documented: the pre-check macros take a single log id; exactly when the id set
                        # contains a log's id and another bit getLog( ids) throws (theorem C14_macro_exact);
                        # with a single id (known or not) the macro must deliver like the plain send
                        want = "throw runtime_error"
                if want is None:
                    want = "ok" + "".join(" %s=%d" % c for c in ref.counts(sel, lv, cl))
            elif w[0] == "sweep":
                ids = int(w[1])
                cols = {}
                order = []
                for lv in range(7):
                    for cl in range(7):
                        for name_k, (nm, n) in enumerate(ref.counts(lambda l: bool(ids & l[1]), lv, cl)):
                            if (name_k, nm) not in cols:
                                cols[(name_k, nm)] = ""
                                order.append((name_k, nm))
                            cols[(name_k, nm)] += str(n)
                want = "ok" + "".join(" %s=%s" % (k[1], cols[k]) for k in order)
            elif w[0] in ("precheck", "precheckname", "presweep"):
                # soundness only: discard=true must imply that no destination would receive any class
                if w[0] == "precheckname":
                    first = ref.log(w[1])
                    sel = lambda l: l is first
                else:
                    ids = int(w[1])
                    sel = lambda l: bool(ids & l[1])
                    # C14_macro_exact: discard_by_level( ids, ...) throws exactly when the id set contains a
                    # log's id and another bit, otherwise it returns a boolean
                    overlap = any((ids & l[1]) and ids != l[1] for l in ref.logs)
                    if w[0] == "presweep":          # one character per level: t / f / E (threw)
                        if overlap:
                            want = "ok EEEEEEE"
                        elif "E" in a or not a.startswith("ok "):
                            want = "ok <seven booleans>"
                    elif overlap:
                        want = "throw runtime_error"
                    elif not a.startswith("ok"):
                        want = "ok discard=<a boolean>"
                levels = range(7) if w[0] == "presweep" else [int(w[2])]
                flags = a[3:] if w[0] == "presweep" and a.startswith("ok ") else None
                for k, lv in enumerate(levels):
                    said = (flags[k] == "t") if flags is not None else (a == "ok discard=true")
                    if said and any(n for cl in range(7) for _, n in ref.counts(sel, lv, cl)):
                        return [Problem("oracle", case, i, op, a, model[i] if i < len(model) else None,
                                        "the pre-check discards level %d although a destination would receive it" % lv)]
        except (ValueError, IndexError):
            break
        if want is not None and want != a:
            return [Problem("oracle", case, i, op, a, model[i] if i < len(model) else None,
                            "the property's reference expects: " + want)]
    return vlib.default_judge(case, impl, model)


# --------------------------------------------------------------------------
# generators

LOGS = ["a", "b", "c"]
DESTS = ["x", "y", "z"]


def hx(s):
    return s.encode("latin-1").hex() or "-"


def class_list(rng):
    texts = [t for i, t in class_texts().items() if i != "n"]
    last = texts[-1]

    def spell(t):
        r = rng.random()
        return t if r < 0.3 else t.lower() if r < 0.55 else t.upper() if r < 0.8 else "".join(
            c.upper() if rng.random() < 0.5 else c.lower() for c in t)

    r = rng.random()
    if r < 0.18:
        return spell(last)                                        # the last enumerator
    if r < 0.30:
        return ",".join(spell(t) for t in texts)                   # all of them
    if r < 0.62:
        return ",".join(spell(t) for t in rng.sample(texts, rng.randint(1, 3)))
    if r < 0.70:
        return spell(rng.choice(texts)) + "," + spell(last)
    if r < 0.76:
        return rng.choice(["", ",", ",,,"])
    if r < 0.82:
        return rng.choice(["undefined", "Undefined", "bogus", "operatoraction", "operator_action", "sys call"])
    if r < 0.88:
        return rng.choice([" data", "data ", "data, communication", "data,,communication,", ",accounting"])
    if r < 0.94:
        return spell(rng.choice(texts)) + "," + rng.choice(["bogus", "undefined", "dat"])
    return rng.choice(texts)[:-1]                                   # a prefix is not a name


def filter_op(rng, targets):
    tgt = rng.choice(targets)
    k = rng.random()
    if k < 0.3:
        return "filter %s max %d" % (tgt, rng.choice([0, 1, 3, 5, 6, rng.randint(0, 6)]))
    if k < 0.55:
        return "filter %s min %d" % (tgt, rng.choice([0, 1, 3, 5, 6, rng.randint(0, 6)]))
    if k < 0.7:
        return "filter %s level %d" % (tgt, rng.randint(0, 6))
    return "filter %s classes %s" % (tgt, hx(class_list(rng)))


def random_case(rng, cid):
    lines = []
    logs = []
    dests = []
    if rng.random() < 0.6:
        lines.append("policy " + rng.choice(["ignore", "replace", "exception"]))
    for _ in range(rng.randint(1, 3)):
        n = rng.choice(LOGS)
        lines.append("log new " + n)
        if n not in logs:
            logs.append(n)
    for l in logs:
        for _ in range(rng.choice([0, 1, 1, 2, 3])):
            d = rng.choice(DESTS)
            lines.append("dest add %s %s" % (l, d))
            dests.append("%s/%s" % (l, d))
    targets = logs + dests + dests + [rng.choice(LOGS) + "/" + rng.choice(DESTS), "q"]
    idbits = [1 << i for i in range(len(logs))]

    def idset():
        r = rng.random()
        if r < 0.35:
            return rng.choice(idbits)
        if r < 0.75:
            return sum(b for b in idbits if rng.random() < 0.6)
        if r < 0.85:
            return sum(idbits)
        if r < 0.93:
            return rng.choice(idbits) | rng.choice([8, 1 << 30, 1 << 31])
        return rng.choice([0, 8, 1 << 31, 0xffffffff])

    for _ in range(rng.randint(2, 14)):
        r = rng.random()
        if r < 0.42:
            lines.append(filter_op(rng, targets))
        elif r < 0.50:
            lines.append("policy " + rng.choice(["ignore", "replace", "exception"]))
        elif r < 0.56:
            l = rng.choice(logs)
            d = rng.choice(DESTS)
            lines.append("dest %s %s %s" % (rng.choice(["add", "remove"]), l, d))
        elif r < 0.60:
            lines.append("log new " + rng.choice(LOGS + ["d"]))
        elif r < 0.72:
            lines.append("sweep %d" % idset())
        elif r < 0.78:
            lines.append("presweep %d" % idset())
        elif r < 0.84:
            lines.append("send %d %d %d" % (idset(), rng.randint(0, 6), rng.randint(0, 6)))
        elif r < 0.90:
            lines.append("macro %d %d %d" % (idset(), rng.randint(0, 6), rng.randint(0, 6)))
        elif r < 0.94:
            lines.append("%s %s %d %d" % (rng.choice(["sendname", "macroname"]), rng.choice(LOGS), rng.randint(0, 6),
                                           rng.randint(0, 6)))
        elif r < 0.97:
            lines.append("precheckname %s %d" % (rng.choice(LOGS), rng.randint(0, 6)))
        else:
            lines.append("precheck %d %d" % (idset(), rng.randint(0, 6)))
    for b in idbits:
        lines.append("sweep %d" % b)
        lines.append("presweep %d" % b)
    if len(idbits) > 1:
        lines.append("sweep %d" % sum(idbits))
    lines.append("state")
    return Case(cid, lines)


def parse_cases(rng, n):
    texts = [t for i, t in class_texts().items() if i != "n"]
    lines = []
    for t in texts:
        for s in (t, t.lower(), t.upper(), t + " ", " " + t, t[:-1], t + "x"):
            lines.append("parse " + hx(s))
    for s in ("", "undefined", "UNDEFINED", "x", "Fatal Error"):
        lines.append("parse " + hx(s))
    cases = [Case("parse", lines)]
    for i in range(n):
        t = rng.choice(texts)
        s = "".join(c.upper() if rng.random() < 0.5 else c.lower() for c in t)
        if rng.random() < 0.3:
            k = rng.randrange(len(s))
            s = s[:k] + rng.choice("abz _") + s[k + 1:]
        cases.append(Case("parse%d" % i, ["parse " + hx(s)]))
    return cases


def many_logs_case():
    lines = ["log new l%d" % i for i in range(33)]
    lines += ["dest add l0 x", "dest add l30 y", "dest add l31 z", "sweep %d" % ((1 << 30) | 1), "sweep %d" % (1 << 31),
              "presweep %d" % (1 << 30), "log new l5", "state"]
    return Case("manylogs", lines)


SPECS = ["max 2", "max 4", "min 2", "min 4", "level 3", "classes " + hx("data"), None]   # None: filled with the last class


def exhaustive_cases(topologies, max_len):
    """topology = list of destination counts per log; all sequences of at most max_len filter settings over
    (every log and destination of the topology) x SPECS, under each duplicate policy (configured *before* the
    logs and destinations are created), followed by every (level, class) message to every id subset and the
    pre-check of every level for every id subset."""
    last = [t for i, t in class_texts().items() if i != "n"][-1]
    specs = [s if s is not None else "classes " + hx("Data," + last.lower()) for s in SPECS]
    cases = []
    k = 0
    for topo in topologies:
        setup = []
        targets = []
        for li, nd in enumerate(topo):
            setup.append("log new " + LOGS[li])
            targets.append(LOGS[li])
            for di in range(nd):
                setup.append("dest add %s %s" % (LOGS[li], DESTS[di]))
                targets.append("%s/%s" % (LOGS[li], DESTS[di]))
        settings = ["filter %s %s" % (t, s) for t in targets for s in specs]
        tail = []
        for ids in range(1 << len(topo)):
            tail.append("sweep %d" % ids)
            tail.append("presweep %d" % ids)
        for L in range(0, max_len + 1):
            for seq in itertools.product(settings, repeat=L):
                for pol in ("ignore", "replace", "exception"):
                    if L < 2 and pol != "ignore":
                        continue
                    k += 1
                    cases.append(Case("x%d" % k, ["policy " + pol] + setup + list(seq) + tail))
    return cases


def generate(prop, tier, seed, scale=1):
    rng = random.Random("%s-%s" % (prop, seed))
    n = (1200 if tier == "quick" else 40000) * scale
    yield "parse", parse_cases(rng, 200 if tier == "quick" else 5000)
    yield "many logs", [many_logs_case()]
    yield "generated", [random_case(rng, "g%d" % i) for i in range(n)]
    if tier == "quick":
        yield "exhaustive 1 log x 1 dest x <=2 settings, 2 logs x 1 dest x <=1 setting", \
            exhaustive_cases([[1]], 2) + exhaustive_cases([[1, 1]], 1)
    else:
        yield ("exhaustive <=2 logs x <=2 dests x <=3 filter settings x 3 policies x all 49 messages x all id subsets"), \
            exhaustive_cases([[1], [2], [1, 1], [2, 1]], 3)
