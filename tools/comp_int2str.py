"""component plugin: integer-to-string conversions (C13) — translator-tied"""
import os
import random
import re
import sys

import vlib
from vlib import Case, Problem

sys.path.insert(0, os.path.join(vlib.VERIF, "translate"))
import int2str as tr_int2str  # noqa: E402

COMPONENT = "int2str"
DRIVER = "model-int2str"

TYPES = {"u8": (8, False), "i8": (8, True), "u16": (16, False), "i16": (16, True),
         "u32": (32, False), "i32": (32, True), "u64": (64, False), "i64": (64, True)}
LIB_SOURCES = ["src/library/format/detail/%sint%d_to_string.cpp" % (g, n) for g in ("", "grouped_") for n in (8, 16, 32, 64)]
# group tokens: plain, default argument, then byte codes: ' , . _ space NUL '0' '-' 0xff
GROUPS = ["-", "d", "39", "44", "46", "95", "32", "0", "48", "45", "255"]


def translate_fn(repo_root, lean_root):
    """regenerates Generated/Int2Str.lean and Generated/Int2StrOk.lean from the working tree"""
    return tr_int2str.translate(repo_root, lean_root)


PROPERTIES = {
    "C13": {
        "lean_module": "CelmaVerif.Props.C13",
        "obligation_modules": ["CelmaVerif.Generated.Int2StrOk"],
        "translators": [translate_fn],
        "kind": "functional",
        "trusted": [
            "translate/int2str.py (parser of the C++ subset used by the 22 anchored source files + abstract interpreter: "
            "control flow and value-independent counters are executed with the C++ integer rules, value-dependent parts "
            "become the tables of Generated/Int2Str.lean; raises on anything it has no exact meaning for); its output is "
            "executed by the model driver and compared with the real library on every run",
            "translate/int2str_literal.py (token matcher that copies the statements of the convert() switch as written, "
            "counter statements included, when the source has the shape of the pinned code): the Lean interpreter executes "
            "case selection, fall-through and the `++num_digits == 4` counter on this second reading and the kernel checks "
            "`*_literal_rows_ok` + theorem C13_switch_as_written, so group placement does not rest on the Python evaluation; "
            "the translator's report (`literal_switch`) says for which files it was available",
            "interpreter and decidable table checks in Model/Int2Str.lean (C++ integer conversions, integer promotion "
            "to a 32-bit int, uint8_t truncation, checked stores)",
            "specification: core Lean Nat.toDigits 10 / Nat.repr / Int.repr / String.toInt?; groupRight (Model/Int2Str.lean)",
            "harness/int2str.cpp with snprintf and a decimal odometer as independent references; g++ 12, ASan+UBSan",
        ],
        "assumptions": [
            "int is 32 bits wide (integer promotion of the 8- and 16-bit types), char has 8 bits",
            "buffer variants: the caller's buffer has room for text and terminator (the documented minimum sizes)",
            "the 2^32 sweeps and the 10^7 random 64-bit values of the thorough tier run on the implementation only, "
            "against an independent reference (odometer/snprintf); the Lean driver (about 2 us per conversion) "
            "takes part in all 2^8/2^16 sweeps, the boundary values and up to 10^6 random values per type and variant",
        ],
    }
}

RULE = ("one evaluation = one operation line run on the real library and on the regenerated Lean tables; a sweep line "
        "stands for all values it covers (hash compared); distinct_nontrivial = distinct (operation, variant, type, "
        "group class, result length) tuples for single conversions and (operation, variant, type, group class) for sweeps")


def build_harness(work, prop):
    return vlib.build_harness(work, "harness/int2str.cpp", repo_sources=LIB_SOURCES)


def gclass(g):
    return "plain" if g == "-" else "default" if g == "d" else "char"


def nontrivial_key(op, result):
    w = op.split(" ")
    r = (result or "").split(" ")
    if len(w) < 3 or w[0] != "i2s":
        return None
    if w[1] in ("str", "buf"):
        ln = [x for x in r if x.startswith("len=") or x.startswith("ret=")]
        return (w[1], w[2], gclass(w[4]) if len(w) > 4 else "", r[0], ln[0] if ln else "")
    if w[1] in ("sweep", "rsweep"):
        return (w[1], w[2], w[3], gclass(w[-1]), r[0])
    return (w[1], w[2], gclass(w[-1]), r[0])


def single_op(variant, ty, value, g):
    return "i2s str %s %d %s" % (ty, value, g) if variant == "str" else "i2s buf %s %d %s 0" % (ty, value, g)


def judge(prop, case, impl, model):
    """line-by-line comparison; a failed bulk oracle is turned into the single conversion it names, so that
    the replay is a concrete failing input"""
    out = []
    for p in vlib.default_judge(case, impl, model):
        m = re.search(r"first value=(-?\d+)", p.impl or "")
        if p.kind == "oracle" and m:
            w = p.line.split(" ")
            value = int(m.group(1))
            if w[1] in ("sweep", "rsweep"):
                variant, ty, g = w[2], w[3], w[-1]
            else:
                ty, g = w[2], w[-1]
                mv = re.search(r"variant=(str|buf)", p.impl)
                variant = mv.group(1) if mv else "str"
            op = single_op(variant, ty, value, g)
            out.append(Problem("oracle", Case(case.cid + "-first", [op], case.tags), 1, op, p.impl, p.model,
                               detail="first failing value of `%s`" % p.line))
        else:
            out.append(p)
    return out


def diff_is_failure(prop, p):
    """The harness checks every result against snprintf itself ('!!' otherwise).  A difference on a line the
    implementation's own oracle accepted therefore means the regenerated model disagrees with the reference on an
    input where the implementation is right: the translator/model tie is broken, not the property."""
    return not (p.impl or "").startswith("ok")


def limits(ty):
    bits, signed = TYPES[ty]
    return (-(1 << (bits - 1)), (1 << (bits - 1)) - 1) if signed else (0, (1 << bits) - 1)


def boundary_values(ty):
    lo, hi = limits(ty)
    vals = {0, 1, lo, hi, lo + 1, hi - 1}
    bits = TYPES[ty][0]
    for k in range(0, 21):
        for d in (-2, -1, 0, 1, 2):
            vals.add(10 ** k + d)
            vals.add(-(10 ** k) + d)
    for k in range(0, bits + 1):
        for d in (-2, -1, 0, 1, 2):
            vals.add((1 << k) + d)
            vals.add(-(1 << k) + d)
    # repdigits and group boundaries
    for k in range(1, 21):
        vals.add(int("9" * k))
        vals.add(-int("9" * k))
        vals.add(int("1" + "0" * (k - 1)))
    return sorted(v for v in vals if lo <= v <= hi)


def random_value(rng, ty):
    bits, signed = TYPES[ty]
    lo, hi = limits(ty)
    style = rng.random()
    if style < 0.5:
        k = rng.randint(0, bits)
        v = rng.getrandbits(k) if k else 0
    elif style < 0.8:
        digits = rng.randint(1, 20)
        v = rng.randint(10 ** (digits - 1), 10 ** digits - 1)
    else:
        v = rng.randint(lo, hi)
    if signed and rng.random() < 0.5:
        v = -v
    return min(max(v, lo), hi)


def chunk(ops, prefix, n=24):
    return [Case("%s%d" % (prefix, i // n), ops[i:i + n]) for i in range(0, len(ops), n)]


def generate(prop, tier, seed, scale=1):
    rng = random.Random("%s-%s" % (prop, seed))
    quick = tier == "quick"
    extra_g = str(rng.randint(1, 255))

    # 1. all values of the 8- and 16-bit types, both sides (hash), plain / default / several characters
    ops = []
    for ty in ("u8", "i8", "u16", "i16"):
        lo, hi = limits(ty)
        gs = ["-", "d", "46", extra_g] if quick else GROUPS + [extra_g]
        for variant in ("str", "buf"):
            for g in gs:
                ops.append("i2s sweep %s %s %d %d %s" % (variant, ty, lo, hi, g))
    yield "exhaustive 2^8 and 2^16 values (all four small types, string and buffer, plain and grouped)", chunk(ops, "sw", 4)

    # 2. boundaries of every decade and every power of two, limits — single conversions (concrete replays)
    ops = []
    for ty in TYPES:
        vals = boundary_values(ty)
        gs = ["-", "39", rng.choice(GROUPS[1:])] if quick else GROUPS
        for v in vals:
            for g in gs:
                ops.append("i2s str %s %d %s" % (ty, v, g))
                ops.append("i2s buf %s %d %s %d" % (ty, v, g, rng.choice([0, 0, 0, 1, 5])))
    yield "boundaries (powers of ten +-2, powers of two +-2, limits, repdigits; all eight types)", chunk(ops, "bd")

    # 3. random single conversions
    ops = []
    for i in range((3000 if quick else 60000) * scale):
        ty = rng.choice(list(TYPES))
        g = rng.choice(GROUPS + [str(rng.randint(0, 255))])
        v = random_value(rng, ty)
        if rng.random() < 0.5:
            ops.append("i2s str %s %d %s" % (ty, v, g))
        else:
            ops.append("i2s buf %s %d %s %d" % (ty, v, g, rng.choice([0, 0, 1, 7])))
    yield "random values (bit-length and digit-count stratified)", chunk(ops, "rn")

    # 4. random bulk (hash on both sides)
    ops = []
    count = (20000 if quick else 1000000) * scale
    for ty in TYPES:
        for variant in ("str", "buf"):
            for g in ("-", rng.choice(GROUPS[1:])):
                ops.append("i2s rsweep %s %s %d %d %s" % (variant, ty, rng.getrandbits(48), count, g))
    yield "random bulk, both sides (%d values per type, variant and group setting)" % count, chunk(ops, "rs", 2)

    # 5. thorough: every value of the 32-bit types and 10^7 random 64-bit values on the implementation against
    #    an independent reference (the Lean driver would need hours for 2^32 conversions)
    if not quick:
        # one batch per sweep: each is a separate harness run (about 1-3 minutes on 16 cores under the sanitizers)
        for ty in ("u32", "i32"):
            for g in ("-", "39"):
                yield ("exhaustive 2^32 values of %s, %s, string and buffer overload (implementation vs "
                       "odometer/snprintf reference)" % ("uint32_t" if ty == "u32" else "int32_t",
                                                         "plain" if g == "-" else "grouped"),
                       [Case("xs-%s-%s" % (ty, g), ["i2s xsweep %s %s" % (ty, g)])])
        ops = []
        for ty in ("u64", "i64"):
            for g in ("-", "39"):
                ops.append("i2s xrsweep %s %d %d %s" % (ty, rng.getrandbits(48), 10000000, g))
        yield "10^7 random 64-bit values per type (implementation vs snprintf)", chunk(ops, "xr", 1)
