"""component plugin: ReadBuffer / WriteBuffer (C19)"""
import itertools
import random

import vlib
from vlib import Case

COMPONENT = "buffers"
DRIVER = "model-buffers"
SIZES = [1, 2, 3, 4, 5, 7, 8, 16, 64]

PROPERTIES = {
    "C19": {
        "lean_module": "CelmaVerif.Props.C19",
        "kind": "functional",
        "trusted": [
            "hand-written model CelmaVerif/Model/Buffers.lean of read_buffer.hpp / write_buffer.hpp, tied by the "
            "correspondence run (harness/buffers.cpp, in-process, ASan+UBSan) on every invocation",
            "libc memcpy/memmove as modelled by Mem.read/Mem.write (checked)",
        ],
        "assumptions": [
            "the byte source delivers at least one byte per readData() call or throws at end of data "
            "(a source that returns 0 forever makes fillBuffer loop; outside the property's quantifier)",
            "data pointers are non-null and point to exactly len bytes",
        ],
    }
}

RULE = ("cases are independent histories on a fresh buffer object; one evaluation = one operation line run on "
        "both the real class and the Lean model; distinct_nontrivial = distinct (operation, buffer-size class, "
        "result class, branch signature) tuples, where the branch signature is buffered/wrote/srcbytes being "
        "zero or not")


def build_harness(work, prop):
    return vlib.build_harness(work, "harness/buffers.cpp")


def diff_is_failure(prop, p):
    """The property fixes what get() returns (the model is proved equal to the abstract reader) and the
    sink stream (checked by the harness' own '!!' oracle).  `buffered=`, block boundaries and `srcbytes=`
    are internal: a difference there alone is a broken tie, not a failing input."""
    a, b = (p.impl or "").split(" "), (p.model or "").split(" ")
    if p.line.startswith("rb get"):
        strip = lambda t: [x for x in t if not x.startswith("srcbytes=")]
        return strip(a) != strip(b)
    if p.line.startswith("wb"):
        # oversized blocks must be passed through unbuffered: buffered=0 and the block is the last one written
        if a[0] != b[0]:
            return True
        data = p.line.split(" ")[2] if p.line.startswith("wb append") else ""
        n = int(p.case.lines[0].split(" ")[2]) if p.case.lines and p.case.lines[0].startswith("wb new") else None
        if data and data != "-" and n is not None and len(data) // 2 > n:
            return a != b
    return False


def nontrivial_key(op, result):
    w = op.split(" ")
    r = (result or "").split(" ")
    sig = tuple(x.split("=")[0] + ("0" if x.endswith("=0") or x.endswith("=-") else "+") for x in r[1:] if "=" in x)
    return (w[0], w[1], r[0], r[1] if r[0] == "throw" and len(r) > 1 else "", sig)


def hexb(bs):
    return "".join("%02x" % b for b in bs) or "-"


def writer_case(rng, cid, n):
    lines = ["wb new %d" % n]
    cnt = 0
    for _ in range(rng.randint(1, 14)):
        if rng.random() < 0.2:
            lines.append("wb flush")
        else:
            ln = rng.choice([0, 1, 1, 2, n - 1, n, n + 1, 2 * n + 1, rng.randint(0, n + 2), rng.randint(0, 3 * n)])
            ln = max(0, ln)
            bs = [(cnt + i) % 251 + 1 for i in range(ln)]
            cnt += ln
            lines.append("wb append " + hexb(bs))
    lines.append("wb flush")
    return Case(cid, lines)


def reader_case(rng, cid, n):
    total = rng.choice([0, 1, n, 2 * n, 3 * n + 1] + [rng.randint(n, 8 * n)] * 8)
    src = [i % 251 + 1 for i in range(total)]
    style = rng.random()
    if style < 0.25:
        chunks = [1] * (total + 2)
    elif style < 0.4:
        chunks = []
    elif style < 0.55:
        chunks = [n] * (total // max(n, 1) + 2)
    else:
        chunks = [rng.choice([0, 1, 1, 2, n - 1, n, n + 1, rng.randint(1, n + 2)]) for _ in range(rng.randint(0, 12))]
        chunks = [max(0, c) for c in chunks]
    lines = ["rb new %d %s %s" % (n, hexb(src), ",".join(map(str, chunks)) or "-")]
    for _ in range(rng.randint(1, 14)):
        ln = rng.choice([0, 1, 1, 2, n - 1, n, n, n + 1, rng.randint(0, n + 2)])
        lines.append("rb get %d" % max(0, ln))
    return Case(cid, lines)


def exhaustive_cases(max_n, seq_len):
    """all buffer sizes <= max_n x all request/append length sequences up to seq_len over 0..N+1
    x a fixed family of chunkings (1-byte, full, N-1, mixed, mixed with 0-byte deliveries)"""
    cases = []
    k = 0
    for n in range(1, max_n + 1):
        lens = list(range(0, n + 2))
        for L in range(1, seq_len + 1):
            for seq in itertools.product(lens, repeat=L):
                k += 1
                cnt = 0
                lines = ["wb new %d" % n]
                for ln in seq:
                    lines.append("wb append " + hexb([(cnt + i) % 251 + 1 for i in range(ln)]))
                    cnt += ln
                    if ln == 0:
                        lines.append("wb flush")   # 0 doubles as "flush here"
                lines.append("wb flush")
                cases.append(Case("xw%d" % k, lines))
                total = sum(seq) + 1
                src = hexb([i % 251 + 1 for i in range(total)])
                for ci, chunks in enumerate(([1] * (total + 1), [], [max(1, n - 1)] * (total + 1), [1, n, 2, 1, n],
                                             [0, 1, 0, 0, n, 0, 2])):
                    lines = ["rb new %d %s %s" % (n, src, ",".join(map(str, chunks)) or "-")]
                    lines += ["rb get %d" % ln for ln in seq]
                    cases.append(Case("xr%d.%d" % (k, ci), lines))
    return cases


def directed_cases():
    """deterministic, independent of the seed: for every buffer size, (a) an oversized append (N, N+1, 2N+1
    bytes) onto a buffer holding 1, N//2 or N-1 bytes, followed by a small append and a flush -- the buffered
    bytes must reach the sink before the oversized block (C19_write_passthrough_reachable); (b) 0-byte appends
    and gets at the start, between other requests, on a partly consumed buffer and after the end of the data,
    with 0-byte deliveries of the source in between (C19_read_stream_model)."""
    cases = []
    for n in SIZES:
        for pre in sorted({1, max(1, n // 2), n - 1} - {0}):
            if pre >= n:
                continue        # N = 1: every non-empty append is oversized, the buffer never holds a byte
            for big in (n, n + 1, 2 * n + 1):
                lines = ["wb new %d" % n, "wb append -", "wb append " + hexb(range(1, pre + 1)),
                         "wb append " + hexb([(100 + i) % 251 + 1 for i in range(big)]), "wb append -",
                         "wb append " + hexb([200]), "wb flush", "wb flush"]
                cases.append(Case("dw%d.%d.%d" % (n, pre, big), lines))
        total = 2 * n + 1
        src = hexb([i % 251 + 1 for i in range(total)])
        for ci, chunks in enumerate(([0, 1, 0, 0, n, 0], [0] * 3 + [1] * total, [])):
            lines = ["rb new %d %s %s" % (n, src, ",".join(map(str, chunks)) or "-"), "rb get 0", "rb get 1",
                     "rb get 0", "rb get %d" % (n + 1), "rb get 0", "rb get %d" % n, "rb get 0", "rb get %d" % n,
                     "rb get 0", "rb get 1", "rb get 0"]
            cases.append(Case("dr%d.%d" % (n, ci), lines))
    return cases


def generate(prop, tier, seed, scale=1):
    rng = random.Random("%s-%s" % (prop, seed))
    ncases = (1500 if tier == "quick" else 60000) * scale
    cases = []
    for i in range(ncases):
        n = rng.choice(SIZES)
        cases.append((writer_case if i % 2 else reader_case)(rng, "g%d" % i, n))
    yield "generated", cases
    yield "directed pass-through with non-empty buffer / 0-byte requests", directed_cases()
    if tier == "quick":
        yield "exhaustive N<=3 len<=3", exhaustive_cases(3, 3)
    else:
        yield "exhaustive N<=4 len<=5", exhaustive_cases(4, 5)
