"""Shared machinery of the Celma verification checks.

A *component plugin* (tools/comp_<name>.py) describes one modelled component:
its Lean driver executable, its C++ harness, the properties it serves, a
generator of cases and (optionally) a judge.  This library does everything
else: translators, `lake build`, the axiom / forbidden-token audit, building
the harness from /repo's working tree, running both sides on the same
operation file, diffing, shrinking, known findings, evidence, replays.
"""
import concurrent.futures as cf
import fcntl
import hashlib
import json
import os
import re
import shutil
import subprocess
import sys
import tempfile
import time

VERIF = os.path.dirname(os.path.dirname(os.path.abspath(__file__)))
LEAN = os.path.join(VERIF, "lean")
REPO = os.environ.get("CELMA_REPO", "/repo")
GUARD = "CELMA_VERIF"
ALLOWED_AXIOMS = {"propext", "Classical.choice", "Quot.sound"}
FORBIDDEN = re.compile(
    r"\bsorry\b|\badmit\b|^\s*axiom\s|\bnative_decide\b|\bbv_decide\b|\bimplemented_by\b|\bunsafe\s|maxHeartbeats\s+0\b",
    re.M)
NCPU = os.cpu_count() or 4


def log(*a):
    print(*a, file=sys.stderr, flush=True)


# --------------------------------------------------------------------------
# cases


class Case:
    """One independent history: a list of operation lines (without the `case` line)."""

    __slots__ = ("cid", "lines", "tags")

    def __init__(self, cid, lines, tags=()):
        self.cid = str(cid)
        self.lines = list(lines)
        self.tags = tuple(tags)

    def text(self):
        return "case %s\n%s\n" % (self.cid, "\n".join(self.lines))

    def to_json(self):
        return {"id": self.cid, "lines": self.lines, "tags": list(self.tags)}


class Problem:
    """Something wrong with one case.

    kind: 'oracle'   the property's own oracle failed on the implementation ('!!' line or judge)
          'diff'     implementation and proved model disagree
          'crash'    the harness died (sanitizer abort, signal) while running the case
          'badop'    one side did not understand an operation (always a machinery failure)
    """

    def __init__(self, kind, case, index, line, impl, model, detail=""):
        self.kind, self.case, self.index = kind, case, index
        self.line, self.impl, self.model, self.detail = line, impl, model, detail

    def to_json(self):
        return {"kind": self.kind, "case": self.case.to_json(), "index": self.index, "op": self.line,
                "impl": self.impl, "model": self.model, "detail": self.detail}

    def __repr__(self):
        return "Problem(%s, case=%s, op=%r, impl=%r, model=%r %s)" % (
            self.kind, self.case.cid, self.line, self.impl, self.model, self.detail)


# --------------------------------------------------------------------------
# Lean side


class LakeLock:
    def __enter__(self):
        os.makedirs(LEAN, exist_ok=True)
        self.f = open(os.path.join(LEAN, ".lake.lock"), "w")
        fcntl.flock(self.f, fcntl.LOCK_EX)
        return self

    def __exit__(self, *a):
        fcntl.flock(self.f, fcntl.LOCK_UN)
        self.f.close()


def strip_lean_comments(src):
    out, i, depth, n = [], 0, 0, len(src)
    while i < n:
        if src.startswith("/-", i):
            depth += 1
            i += 2
        elif depth and src.startswith("-/", i):
            depth -= 1
            i += 2
        elif depth:
            if src[i] == "\n":
                out.append("\n")
            i += 1
        elif src.startswith("--", i):
            while i < n and src[i] != "\n":
                i += 1
        elif src[i] == '"':
            j = i + 1
            while j < n and src[j] != '"':
                j += 2 if src[j] == "\\" else 1
            out.append('""')
            i = j + 1
        else:
            out.append(src[i])
            i += 1
    return "".join(out)


def lean_sources():
    res = []
    for root in (os.path.join(LEAN, "CelmaVerif"), os.path.join(LEAN, "Drivers")):
        for d, _, fs in os.walk(root):
            for f in fs:
                if f.endswith(".lean"):
                    res.append(os.path.join(d, f))
    res.append(os.path.join(LEAN, "CelmaVerif.lean"))
    return sorted(p for p in res if os.path.exists(p))


def forbidden_tokens():
    """[(file, line, token)] for sorry/admit/axiom/native_decide/... outside comments and strings."""
    hits = []
    for p in lean_sources():
        txt = strip_lean_comments(open(p, encoding="utf-8").read())
        for m in FORBIDDEN.finditer(txt):
            hits.append((os.path.relpath(p, LEAN), txt.count("\n", 0, m.start()) + 1, m.group(0).strip()))
    return hits


def module_path(mod):
    return os.path.join(LEAN, *mod.split(".")) + ".lean"


def theorems_of(mod):
    """Fully qualified names of the `theorem`s of a module (single top-level namespace convention)."""
    src = strip_lean_comments(open(module_path(mod), encoding="utf-8").read())
    names, ns = [], []
    for line in src.split("\n"):
        m = re.match(r"\s*namespace\s+(\S+)", line)
        if m:
            ns.append(m.group(1))
            continue
        m = re.match(r"\s*end\s+(\S+)\s*$", line)
        if m and ns and ns[-1] == m.group(1):
            ns.pop()
            continue
        m = re.match(r"\s*(?:@\[[^\]]*\]\s*)?(?:private\s+|protected\s+)?theorem\s+(\S+)", line)
        if m and not line.lstrip().startswith("private"):
            names.append(".".join(ns + [m.group(1)]))
    return names


def theorem_at(mod, lineno):
    """name of the theorem enclosing a source line (for error attribution)"""
    best = None
    for i, line in enumerate(open(module_path(mod), encoding="utf-8").read().split("\n"), 1):
        m = re.match(r"\s*(?:private\s+)?(?:theorem|def|example|instance|lemma)\s*(\S*)", line)
        if m and i <= lineno:
            best = m.group(1) or "example@%d" % i
    return best


def lake_build(targets, timeout=3000):
    """(ok, output)"""
    with LakeLock():
        p = subprocess.run(["lake", "build"] + list(targets), cwd=LEAN, stdout=subprocess.PIPE,
                           stderr=subprocess.STDOUT, text=True, timeout=timeout)
    return p.returncode == 0, p.stdout


def lean_errors(output):
    """[(relative file, line, message)] from lake/lean output"""
    errs = []
    for m in re.finditer(r"^error: (\S+?\.lean):(\d+):(\d+): (.*)$", output, re.M):
        errs.append((m.group(1), int(m.group(2)), m.group(4)))
    return errs


def print_axioms_all(mods, names):
    """({name: [axioms]}, missing names, raw output) via `#print axioms`, run with `lake env lean`"""
    if not names:
        return {}, [], ""
    os.makedirs(os.path.join(LEAN, ".lake"), exist_ok=True)
    fd, path = tempfile.mkstemp(suffix=".lean", prefix="audit_", dir=os.path.join(LEAN, ".lake"))
    try:
        with os.fdopen(fd, "w") as f:
            for m in mods:
                f.write("import %s\n" % m)
            for n in names:
                f.write("#print axioms %s\n" % n)
        p = subprocess.run(["lake", "env", "lean", path], cwd=LEAN, stdout=subprocess.PIPE,
                           stderr=subprocess.STDOUT, text=True, timeout=1200)
        out = p.stdout
    finally:
        os.unlink(path)
    res = {}
    flat = re.sub(r"\n\s+", " ", out)
    for m in re.finditer(r"'([^']+)' depends on axioms: \[([^\]]*)\]", flat):
        res[m.group(1)] = [a.strip() for a in m.group(2).split(",") if a.strip()]
    for m in re.finditer(r"'([^']+)' does not depend on any axioms", flat):
        res[m.group(1)] = []
    missing = [n for n in names if n not in res]
    return res, missing, out


def leanchecker(mod):
    p = subprocess.run(["lake", "env", "leanchecker", mod], cwd=LEAN, stdout=subprocess.PIPE,
                       stderr=subprocess.STDOUT, text=True, timeout=3000)
    return p.returncode == 0, p.stdout[-2000:]


def driver_path(exe):
    return os.path.join(LEAN, ".lake", "build", "bin", exe)


# --------------------------------------------------------------------------
# implementation side

SAN_FLAGS = {
    "asan": ["-fsanitize=address,undefined", "-fno-sanitize=vptr", "-fno-sanitize-recover=all"],
    "tsan": ["-fsanitize=thread"],
    "none": [],
}


def build_harness(workdir, main_src, repo_sources=(), sanitizer="asan", extra_flags=(), libs=(), name=None,
                  opt="-O1"):
    """Compile harness `main_src` (relative to /verif) plus the listed /repo sources (relative to
    REPO) from the *current working tree*, in parallel, into workdir.  Returns (binary|None, log)."""
    os.makedirs(workdir, exist_ok=True)
    base = ["g++", "-std=c++17", opt, "-g", "-D" + GUARD, "-I" + os.path.join(REPO, "src"),
            "-I" + os.path.join(VERIF, "harness"), "-pthread"] + SAN_FLAGS[sanitizer] + list(extra_flags)
    jobs = []
    objs = []
    for i, s in enumerate([os.path.join(VERIF, main_src)] + [os.path.join(REPO, r) for r in repo_sources]):
        o = os.path.join(workdir, "o%d_%s.o" % (i, os.path.basename(s).replace(".", "_")))
        objs.append(o)
        jobs.append((base + ["-c", s, "-o", o], s))
    logs = []

    def cc(job):
        cmd, s = job
        p = subprocess.run(cmd, stdout=subprocess.PIPE, stderr=subprocess.STDOUT, text=True)
        return p.returncode, s, p.stdout

    ok = True
    with cf.ThreadPoolExecutor(NCPU) as ex:
        for rc, s, out in ex.map(cc, jobs):
            if rc != 0:
                ok = False
                logs.append("== %s\n%s" % (s, out[-4000:]))
    if not ok:
        return None, "\n".join(logs)
    binary = os.path.join(workdir, name or os.path.splitext(os.path.basename(main_src))[0])
    p = subprocess.run(base + objs + ["-o", binary] + list(libs), stdout=subprocess.PIPE,
                       stderr=subprocess.STDOUT, text=True)
    if p.returncode != 0:
        return None, p.stdout[-4000:]
    return binary, ""


HARNESS_ENV = dict(os.environ,
                   ASAN_OPTIONS="detect_leaks=0:abort_on_error=0:exitcode=99:allocator_may_return_null=1",
                   UBSAN_OPTIONS="print_stacktrace=1:halt_on_error=1:exitcode=99",
                   TSAN_OPTIONS="exitcode=66:halt_on_error=0",
                   TZ="UTC")


def run_proc(binary, text, timeout=600, env=None, cwd=None):
    """(returncode, stdout lines, stderr tail)"""
    try:
        p = subprocess.run([binary], input=text, stdout=subprocess.PIPE, stderr=subprocess.PIPE, text=True,
                           timeout=timeout, env=env or HARNESS_ENV, cwd=cwd, errors="replace")
        return p.returncode, p.stdout.split("\n")[:-1] if p.stdout.endswith("\n") else p.stdout.split("\n"), p.stderr[-6000:]
    except subprocess.TimeoutExpired as e:
        out = (e.stdout or b"")
        if isinstance(out, bytes):
            out = out.decode("utf-8", "replace")
        ls = out.split("\n")
        return -9, ls[:-1], "TIMEOUT after %ss" % timeout


def default_judge(case, impl, model):
    """line-by-line equality; '!!' lines from the harness are oracle failures on the implementation"""
    probs = []
    ops = ["case " + case.cid] + case.lines
    for i, op in enumerate(ops):
        a = impl[i] if i < len(impl) else None
        b = model[i] if i < len(model) else None
        if a is not None and a.startswith("!!"):
            probs.append(Problem("oracle", case, i, op, a, b))
            break
        if (a is not None and a.startswith("bad-op")) or (b is not None and b.startswith("bad-op")):
            probs.append(Problem("badop", case, i, op, a, b))
            break
        if a != b:
            probs.append(Problem("diff", case, i, op, a, b))
            break
    return probs


class Pair:
    """runs harness and model driver on the same cases"""

    def __init__(self, harness_bin, driver_bin, judge=None, harness_cwd=None, timeout=900):
        self.h, self.d = harness_bin, driver_bin
        self.judge = judge or default_judge
        self.cwd = harness_cwd
        self.timeout = timeout
        self.crashes = []

    def run_cases(self, cases):
        """returns (problems, per-case (impl, model) line lists)"""
        text = "".join(c.text() for c in cases)
        rc_m, model, err_m = run_proc(self.d, text, self.timeout)
        if rc_m != 0:
            raise RuntimeError("model driver failed rc=%s: %s" % (rc_m, err_m))
        sizes = [1 + len(c.lines) for c in cases]
        impl_by_case = [None] * len(cases)
        crash_by_case = {}
        start = 0
        guard = 0
        while start < len(cases) and guard < 50:
            guard += 1
            text = "".join(c.text() for c in cases[start:])
            rc, out, err = run_proc(self.h, text, self.timeout, cwd=self.cwd)
            k, pos = start, 0
            while k < len(cases) and pos + sizes[k] <= len(out):
                impl_by_case[k] = out[pos:pos + sizes[k]]
                pos += sizes[k]
                k += 1
            if rc == 0 and k == len(cases):
                break
            if k < len(cases):
                if isinstance(err, str) and err.startswith("TIMEOUT"):
                    # the batch ran out of wall-clock time (a loaded machine is the usual reason): the case at
                    # which the output stopped is run once more on its own; only a second time-out is a failure
                    rc1, out1, err1 = run_proc(self.h, cases[k].text(), self.timeout, cwd=self.cwd)
                    if not (isinstance(err1, str) and err1.startswith("TIMEOUT")) and len(out1) >= sizes[k]:
                        impl_by_case[k] = out1[:sizes[k]]
                        if rc1 != 0:
                            crash_by_case[k] = (rc1, err1)
                        start = k + 1
                        continue
                    err = "hang reproduced twice: " + str(err1)
                impl_by_case[k] = out[pos:]
                crash_by_case[k] = (rc, err)
                start = k + 1
            else:
                # all lines present but non-zero exit (e.g. TSan report at exit)
                crash_by_case[len(cases) - 1] = (rc, err)
                break
        problems, results = [], []
        pos = 0
        for k, c in enumerate(cases):
            m = model[pos:pos + sizes[k]]
            pos += sizes[k]
            im = impl_by_case[k] if impl_by_case[k] is not None else []
            results.append((im, m))
            if k in crash_by_case:
                rc, err = crash_by_case[k]
                idx = min(len(im), sizes[k] - 1)
                ops = ["case " + c.cid] + c.lines
                problems.append(Problem("crash", c, idx, ops[idx], "exit=%s" % rc, m[idx] if idx < len(m) else None,
                                        detail=err))
                continue
            problems.extend(self.judge(c, im, m))
        return problems, results

    def run_one(self, case):
        probs, res = self.run_cases([case])
        return probs, res[0]


def shrink(pair, problem, keep=lambda line: False, max_trials=400):
    """delta debugging over the operation lines of the failing case; a candidate counts as failing
    when it still yields a problem of the same kind"""
    case = problem.case
    lines = list(case.lines)
    kind = problem.kind
    trials = 0

    def fails(ls):
        nonlocal trials
        trials += 1
        try:
            probs, _ = pair.run_one(Case(case.cid, ls, case.tags))
        except Exception:
            return None
        for p in probs:
            if p.kind == kind:
                return p
        return None

    # drop everything after the failing op first
    if problem.index >= 1 and problem.index < len(lines):
        cand = lines[:problem.index]
        p = fails(cand)
        if p:
            lines, problem = cand, p
    n = 2
    while len(lines) >= 2 and trials < max_trials:
        chunk = max(1, len(lines) // n)
        reduced = False
        i = 0
        while i < len(lines) and trials < max_trials:
            if any(keep(l) for l in lines[i:i + chunk]):
                i += chunk
                continue
            cand = lines[:i] + lines[i + chunk:]
            p = fails(cand) if cand else None
            if p:
                lines, problem = cand, p
                n = max(n - 1, 2)
                reduced = True
            else:
                i += chunk
        if not reduced:
            if chunk == 1:
                break
            n = min(len(lines), n * 2)
    return problem


# --------------------------------------------------------------------------
# known findings


def load_findings():
    """known_findings.json (the committed file, generated by tools/mkfindings.py) plus the per-component source
    files known_findings.d/*.json (same format); duplicates are dropped"""
    res = {"findings": [], "fixed": []}
    paths = [os.path.join(VERIF, "known_findings.json")]
    d = os.path.join(VERIF, "known_findings.d")
    if os.path.isdir(d):
        paths += [os.path.join(d, f) for f in sorted(os.listdir(d)) if f.endswith(".json")]
    seen = set()
    for p in paths:
        if os.path.exists(p):
            obj = json.load(open(p))
            for x in obj.get("findings", []):
                key = (x.get("property"), x.get("id"))
                if key not in seen:
                    seen.add(key)
                    res["findings"].append(x)
            res["fixed"] += [x for x in obj.get("fixed", []) if x not in res["fixed"]]
    return res


def finding_matches(finding, problem):
    m = finding.get("match", {})
    if "custom" in m or not any(k in m for k in ("kind", "op", "impl", "model", "case_has")):
        return False        # custom matchers are evaluated by the plugin's own finding_matches only
    if "kind" in m and problem.kind not in (m["kind"] if isinstance(m["kind"], list) else [m["kind"]]):
        return False
    for key, val in (("op", problem.line), ("impl", problem.impl), ("model", problem.model)):
        if key in m and not re.search(m[key], val or ""):
            return False
    if "case_has" in m:
        for rx in m["case_has"]:
            if not any(re.search(rx, l) for l in problem.case.lines):
                return False
    return bool(m)


# --------------------------------------------------------------------------
# evidence / replays


def write_json(path, obj):
    os.makedirs(os.path.dirname(path), exist_ok=True)
    tmp = path + ".tmp%d" % os.getpid()
    with open(tmp, "w") as f:
        json.dump(obj, f, indent=1, sort_keys=False)
        f.write("\n")
    os.replace(tmp, path)


def file_hash(path):
    try:
        return hashlib.sha256(open(path, "rb").read()).hexdigest()[:16]
    except OSError:
        return None


def repo_state():
    try:
        head = subprocess.run(["git", "-C", REPO, "rev-parse", "--short", "HEAD"], stdout=subprocess.PIPE,
                              text=True).stdout.strip()
        dirty = subprocess.run(["git", "-C", REPO, "status", "--porcelain", "--untracked-files=no"],
                               stdout=subprocess.PIPE, text=True).stdout.strip()
        return {"head": head, "dirty_files": [l[3:] for l in dirty.split("\n") if l]}
    except Exception:
        return {}
