#!/usr/bin/env python3
"""seeded.py <Cxx> <worktree> [name]: confirm a seeded change delivered by a mutation agent in <worktree>/_seeded
(demo passes on the clean tree, fails with the patch), run the quick check of the property against the patched
tree (CELMA_REPO=<worktree>), and store everything under /verif/seeded/<name>/"""
import json, os, shutil, subprocess, sys, time
V = os.path.dirname(os.path.dirname(os.path.abspath(__file__)))
prop, wt = sys.argv[1], sys.argv[2]
name = sys.argv[3] if len(sys.argv) > 3 else prop
sd = os.path.join(wt, "_seeded")
dst = os.path.join(V, "seeded", name)
os.makedirs(dst, exist_ok=True)
def run(cmd, **kw):
    p = subprocess.run(cmd, shell=True, stdout=subprocess.PIPE, stderr=subprocess.STDOUT, text=True, errors="replace", **kw)
    return p.returncode, p.stdout
def git(args):
    return run("git -C %s %s" % (wt, args))
# state: patch applied?
rc, out = git("diff --stat -- src")
applied = bool(out.strip())
patch = os.path.join(sd, "patch.diff")
if not applied:
    print(git("apply %s" % patch))
meta = {"property": prop, "worktree_base": git("rev-parse --short HEAD")[1].strip()}
# demo on patched
t = time.time(); rc_p, out_p = run("bash demo.sh", cwd=sd, timeout=3000); meta["demo_with_patch"] = {"exit": rc_p, "tail": out_p[-600:], "s": round(time.time()-t)}
# demo on clean
print(git("apply -R %s" % patch))
t = time.time(); rc_c, out_c = run("bash demo.sh", cwd=sd, timeout=3000); meta["demo_clean"] = {"exit": rc_c, "tail": out_c[-400:], "s": round(time.time()-t)}
print(git("apply %s" % patch))
# pinned tests with the patch (their build dir exists)
if os.path.isdir(os.path.join(wt, "_build")):
    run("ninja -C %s/_build -k 0" % wt, timeout=3000)
    rc, out = run("ctest --test-dir %s/_build -j8 --timeout 900" % wt, timeout=3000)
    import re
    want = set(t.split("::")[0] for t in json.load(open("/root/.vp/BASELINE.json"))["stable_pass"])
    passed = set(re.findall(r"Test\s+#\d+:\s+(\S+)\s+\.+\s+Passed", out))
    meta["pinned_tests_with_patch"] = {"passed": len(want & passed), "of": len(want), "missing": sorted(want - passed)}
# the check against the patched tree
env = dict(os.environ, CELMA_REPO=wt)
t = time.time()
p = subprocess.run(["python3", os.path.join(V, "tools", "check.py"), prop, "--tier", "quick"], cwd=V, env=env,
                   stdout=subprocess.PIPE, stderr=subprocess.STDOUT, text=True, timeout=6000)
lines = [l for l in p.stdout.split("\n") if l.startswith(("VIOLATION", "OK ", "KNOWN-FINDING"))]
meta["check_quick_on_patched_tree"] = {"exit": p.returncode, "lines": lines, "s": round(time.time()-t)}
for l in lines:
    if l.startswith("VIOLATION") and "replay=" in l:
        rp = l.split("replay=")[1].split()[0]
        try:
            r = json.load(open(rp))
            meta["replay_summary"] = {k: r.get(k) for k in ("kind", "op", "impl", "model", "detail", "no_longer_checks") if r.get(k)}
            if "case" in r: meta["replay_summary"]["case_lines"] = r["case"].get("lines", [])[:12]
            if isinstance(meta["replay_summary"].get("detail"), str): meta["replay_summary"]["detail"] = meta["replay_summary"]["detail"][:600]
            if meta["replay_summary"].get("no_longer_checks"): meta["replay_summary"]["no_longer_checks"] = meta["replay_summary"]["no_longer_checks"][:4]
        except Exception as e:
            meta["replay_summary"] = str(e)
for f in os.listdir(sd):
    if os.path.isfile(os.path.join(sd, f)) and os.path.getsize(os.path.join(sd, f)) < 400000 and not f.endswith((".log", ".o")) and f != "demo":
        shutil.copy(os.path.join(sd, f), os.path.join(dst, f))
meta["caught"] = p.returncode == 1 and any(l.startswith("VIOLATION") for l in lines)
meta["confirmed"] = (rc_c == 0 and rc_p != 0 and not meta.get("pinned_tests_with_patch", {}).get("missing"))
json.dump(meta, open(os.path.join(dst, "meta.json"), "w"), indent=1)
print(json.dumps({k: meta[k] for k in ("confirmed", "caught", "check_quick_on_patched_tree")}, indent=1)[:1500])
