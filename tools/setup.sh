#!/bin/sh
# builds the whole Lean development (models, lemmas, property theorems) and every model driver, offline
set -e
cd "$(dirname "$0")/../lean"
exes=$(grep -A1 '^\[\[lean_exe\]\]' lakefile.toml | sed -n 's/^name = "\(.*\)"/\1/p')
lake build CelmaVerif $exes
