#!/bin/sh
# builds the whole Lean development (models, lemmas, property theorems) and every model driver, offline.
# Generated/*.lean are first regenerated from /repo's current sources (each check does the same for
# its own property).  A module that fails to build is reported by the check that needs it, not here:
# this script only fails when a model driver cannot be built.
cd "$(dirname "$0")/../lean" || exit 1
python3 ../tools/regen.py
exes=$(grep -A1 '^\[\[lean_exe\]\]' lakefile.toml | sed -n 's/^name = "\(.*\)"/\1/p')
lake build CelmaVerif $exes || echo "setup: some modules did not build (see above); continuing"
rc=0
for e in $exes; do
  if [ ! -x ".lake/build/bin/$e" ]; then
    lake build "$e" || { echo "setup: driver $e failed to build"; rc=1; }
  fi
done
exit $rc
