#!/usr/bin/env python3
"""design_table.py: the summary table of DESIGN.md section 0.1, regenerated from evidence/*.json (theorem counts of the
last run), known_findings.json (fix: commits and open findings per property) and the CLAIM texts below."""
import json, os, re
V = os.path.dirname(os.path.dirname(os.path.abspath(__file__)))
COMP = {"C01": ("progargs", "correspondence"), "C02": ("progargs", "correspondence"), "C03": ("progargs", "correspondence"),
        "C04": ("progargs", "both (`translate/handler_alloc.py`)"), "C05": ("keys", "correspondence"),
        "C06": ("containers", "correspondence"), "C07": ("argstring, then progargs", "correspondence"),
        "C08": ("progargs", "correspondence"), "C09": ("handlermt", "both (`translate/shared_state.py`, singleton half of `concurrency.py`)"),
        "C10": ("fixedstring", "correspondence"), "C11": ("fixedstring", "correspondence"), "C12": ("dynbitset", "correspondence"),
        "C13": ("int2str", "both (`translate/int2str.py`, `int2str_literal.py`)"), "C14": ("logfilter", "both (`translate/logdefs*.py`)"),
        "C15": ("logfiles", "correspondence"), "C16": ("logformat", "correspondence"), "C17": ("textblock", "correspondence"),
        "C18": ("usage", "correspondence"), "C19": ("buffers", "correspondence"),
        "C20": ("concurrency", "both (`translate/concurrency.py`, hooks)")}
CLAIM = {
 "C01": "proof-partial (destination fragment: no floating point, `optional<>`, other containers, formats; every accepted surface form is covered through `SpellsPlus`)",
 "C02": "proof for every argv of the modelled handler fragment: accepted ⇒ the words spell uses that obey every rule (`C02_parse_faithful`, `C02_sound_words`), refusal theorems for unknown keys and missing values",
 "C03": "proof-partial (as C01; LevelCounter under the hypothesis `LevelValuesOk`, proved necessary)",
 "C04": "proof-partial (cursor, loop, sources, program-name copies; handler-internal accesses are total in the model, heap discipline of unmodelled std/Boost objects rests on the sanitizers; `argc ≥ 1`)",
 "C05": "proof (table level and word → key → entry level)",
 "C06": "proof-partial (tuple theorem excludes element-less uses; content after a non-capacity refusal compared by the tie only)",
 "C07": "split half proof; source half proof end to end for lines inside `FileSpells` (`C07_sources_are_uses`, `C07_same_as_argv`, `C07_override`), acceptance through sources in one direction",
 "C08": "proof-partial (abbreviations off; `ArgvPlain`: no `!`, no comma in the key part of a dash word; no positional argument)",
 "C09": "proof-partial (isolation proved for plain handlers from the regenerated inventory and call-site table; per-call access sets hand-written except the singleton part; closed-world assumption; SC model)",
 "C10": "proof (caller contract `ArgsOK` as for `std::string`)",
 "C11": "proof (on the documented domain `inDomain`)",
 "C12": "proof; refinement `_partial` without argument-less `reset()`; positions below 2^51",
 "C13": "proof (switches also as written, executed by the Lean interpreter)",
 "C14": "proof",
 "C15": "proof (crash points at message granularity; over-long messages inside the domain)",
 "C16": "proof (`strftime` an uninterpreted parameter)",
 "C17": "proof",
 "C18": "proof for the modelled handler tree of depth 2 (layout compared byte-exactly, not claimed by a theorem)",
 "C19": "proof (source delivers ≥ 1 byte per call or throws)",
 "C20": "proof-partial (happens-before layer over sequentially consistent interleavings; weak memory through the extracted memory-order facts)",
}
kf = json.load(open(os.path.join(V, "known_findings.json")))
fixes, opens = {}, {}
for f in kf["fixed"]:
    m = re.match(r"fixed: property=(C\d\d)\S*\s+([0-9a-f]{7})", f)
    if m:
        fixes.setdefault(m.group(1), []).append(m.group(2))
for f in kf["findings"]:
    opens.setdefault(f["property"], []).append(f["id"])
print("| id | component / plugin (`tools/comp_*.py`) | tie | theorems | claim (why) | `fix:` commits in `/repo` | open findings |")
print("|---|---|---|---|---|---|---|")
tot = 0
for i in range(1, 21):
    pid = "C%02d" % i
    try:
        e = json.load(open(os.path.join(V, "evidence", pid + ".json")))
        n = len(e["coverage"].get("theorems", []))
    except Exception:
        n = "?"
    fx = fixes.get(pid, [])
    tot += len(fx)
    print("| %s | %s | %s | %s | %s | %s | %s |" % (pid, COMP[pid][0], COMP[pid][1], n, CLAIM[pid],
          " ".join(dict.fromkeys(fx)) or "—", ", ".join(opens.get(pid, [])) or "—"))
print()
print("%d fixed entries (%d distinct commits), %d open findings" % (len(kf["fixed"]), len(set(c for v in fixes.values() for c in v)), len(kf["findings"])))
