#!/usr/bin/env python3
"""check.py <Cxx> [--tier quick|thorough] [--replay file]

Decides one property: regenerate translated model parts from /repo, re-check the
theorems (lake build + axiom audit), rebuild the implementation harness from
/repo's working tree, run the correspondence between proved model and
implementation, search for a failing input when anything broke, write
evidence/<Cxx>.json.  Exit 0 = property held on everything explored; exit 1 with
`VIOLATION property=<id> replay=<path>` otherwise.  See DESIGN.md section 4.
"""
import argparse
import importlib
import json
import os
import random
import shutil
import sys
import tempfile
import time
import traceback

sys.path.insert(0, os.path.dirname(os.path.abspath(__file__)))
import vlib  # noqa: E402
from vlib import Case, Problem, VERIF, LEAN, log  # noqa: E402



def registry():
    """property -> [plugin module names], from the PROPERTIES table of every tools/comp_*.py (several
    components may serve one property: they are run one after the other and their evidence is merged)"""
    reg = {}
    here = os.path.dirname(os.path.abspath(__file__))
    for f in sorted(os.listdir(here)):
        if f.startswith("comp_") and f.endswith(".py"):
            try:
                mod = importlib.import_module(f[:-3])
            except Exception as e:  # a broken plugin must not take the others down
                log("plugin %s failed to import: %s" % (f, e))
                continue
            for prop in getattr(mod, "PROPERTIES", {}):
                reg.setdefault(prop, []).append(f[:-3])
    return reg


def main():
    ap = argparse.ArgumentParser()
    ap.add_argument("prop")
    ap.add_argument("--tier", default=os.environ.get("VERIF_TIER", "quick"), choices=["quick", "thorough"])
    ap.add_argument("--replay")
    ap.add_argument("--keep", action="store_true", help="keep the scratch directory")
    args = ap.parse_args()
    prop = args.prop
    seed = int(os.environ.get("VERIF_SEED", "1") or "1")
    reg = registry()
    if prop not in reg:
        print("unknown property", prop)
        return 2
    plugins = [importlib.import_module(m) for m in reg[prop]]
    if args.replay:
        comp = json.load(open(args.replay)).get("component")
        plugins = [p for p in plugins if p.COMPONENT == comp] or plugins[:1]
    t0 = time.time()
    results = []
    # a translator-tied property regenerates lean/CelmaVerif/Generated/*.lean from the tree it is run against and
    # then builds and executes what was generated: such runs (on /repo or, with CELMA_REPO, on another tree) are
    # serialised, so that no run ever builds or executes the tables of another run's tree
    genlock = None
    groups = set()
    for p in plugins:
        for tr in p.PROPERTIES[prop].get("translators", []):
            mod = tr.__module__.split(".")[-1]
            # the handlermt and concurrency translators share Generated/SharedState.lean
            groups.add("mt" if mod in ("comp_handlermt", "comp_concurrency", "shared_state", "concurrency") else mod)
    if groups:
        import fcntl
        genlock = []
        for g in sorted(groups):           # fixed order: no deadlock between runs that need several groups
            f = open(os.path.join(LEAN, ".gen.%s.lock" % g), "w")
            fcntl.flock(f, fcntl.LOCK_EX)
            genlock.append(f)
    try:
        for plugin in plugins:
            work = tempfile.mkdtemp(prefix="celma_verif_%s_" % prop)
            try:
                r = run(plugin, prop, args.tier, seed, work, args.replay, time.time())
            finally:
                if not args.keep:
                    shutil.rmtree(work, ignore_errors=True)
            if args.replay:
                return r
            results.append(r)
    finally:
        for f in (genlock or []):
            f.close()
    ev = merge_evidence([r["ev"] for r in results])
    ev["wall_s"] = round(time.time() - t0, 2)
    # evidence/<id>.json describes runs against /repo itself; a run against another tree (CELMA_REPO, used to try
    # seeded changes in scratch worktrees) must not overwrite it
    evdir = os.path.join(VERIF, "evidence") if os.path.realpath(vlib.REPO) == "/repo" else os.path.join(
        tempfile.gettempdir(), "celma_verif_evidence_other_tree")
    vlib.write_json(os.path.join(evdir, prop + ".json"), ev)
    rc = max(r["rc"] for r in results)
    for r in results:
        for l in r["lines"]:
            print(l)
    if rc == 0:
        c = ev["coverage"]
        print("OK property=%s tier=%s seed=%d theorems=%d evaluations=%d distinct=%d wall=%.1fs" % (
            prop, args.tier, seed, len(c.get("theorems", [])), c.get("evaluations", 0), c.get("distinct_nontrivial", 0),
            ev["wall_s"]))
    return rc


def merge_evidence(evs):
    if len(evs) == 1:
        return evs[0]
    ev = dict(evs[0])
    cov = dict(ev["coverage"])
    cov["components"] = [e["coverage"].get("component") for e in evs]
    for e in evs[1:]:
        c = e["coverage"]
        for k in ("obligations", "discharged", "evaluations", "distinct_nontrivial"):
            cov[k] = cov.get(k, 0) + c.get(k, 0)
        seen = set(cov.get("theorems", []))
        dup = [t for t in c.get("theorems", []) if t in seen]
        cov["theorems"] = cov.get("theorems", []) + [t for t in c.get("theorems", []) if t not in seen]
        cov["obligations"] -= len(dup)
        cov["discharged"] -= len(dup)
        apt = dict(cov.get("axioms_per_theorem", {}))
        apt.update(c.get("axioms_per_theorem", {}))
        cov["axioms_per_theorem"] = apt
        cov["checker_cmd"] = cov.get("checker_cmd", "") + " ; " + c.get("checker_cmd", "")
        cov["trusted_base"] = cov.get("trusted_base", []) + [t for t in c.get("trusted_base", []) if t not in cov.get("trusted_base", [])]
        cov["rule"] = (cov.get("rule", "") + " || " + c.get("rule", "")).strip(" |")
        cov["samples"] = cov.get("samples", [])[:4] + c.get("samples", [])[:4]
        d = dict(cov.get("input_distribution", {}))
        for k, v in c.get("input_distribution", {}).items():
            d[k] = d.get(k, 0) + v
        cov["input_distribution"] = d
        cov["exhaustive"] = bool(cov.get("exhaustive")) and bool(c.get("exhaustive"))
        cov["exhaustive_spaces"] = cov.get("exhaustive_spaces", []) + c.get("exhaustive_spaces", [])
        cov["notes"] = cov.get("notes", []) + c.get("notes", [])
        cov["broken_obligations_or_ties"] = cov.get("broken_obligations_or_ties", []) + c.get("broken_obligations_or_ties", [])
        ev["assumptions"] = ev.get("assumptions", []) + [a for a in e.get("assumptions", []) if a not in ev.get("assumptions", [])]
        ev["violations"] = ev.get("violations", 0) + e.get("violations", 0)
    ev["coverage"] = cov
    return ev


def run(plugin, prop, tier, seed, work, replay, t0):
    spec = plugin.PROPERTIES[prop]
    ev = {"property_id": prop, "tier": tier, "seed": seed, "level": "proof", "coverage": {}, "wall_s": 0.0,
          "violations": 0, "assumptions": list(spec.get("assumptions", []))}
    cov = ev["coverage"]
    broken = []        # (what, detail): proof obligations / ties that no longer check
    notes = []

    # ---- 1. translators ------------------------------------------------
    for tr in spec.get("translators", []):
        try:
            rep = tr(vlib.REPO, LEAN)
            notes.append({"translator": tr.__module__ + "." + tr.__name__, "report": rep})
        except Exception as e:  # the source no longer has the shape the translator understands
            broken.append(("translator " + tr.__name__, "%s: %s" % (type(e).__name__, e)))
            log("translator failed:", e)

    # ---- 2. prove -------------------------------------------------------
    mods = [spec["lean_module"]] + list(spec.get("obligation_modules", []))
    exe = plugin.DRIVER
    ok, out = vlib.lake_build(mods + ([exe] if exe else []))
    theorems = []
    for m in mods:
        try:
            theorems += vlib.theorems_of(m)
        except OSError as e:
            broken.append(("module " + m, str(e)))
    failed_thms = set()
    if not ok:
        errs = vlib.lean_errors(out)
        for f, line, msg in errs:
            mod = f[:-5].replace("/", ".")
            try:
                th = vlib.theorem_at(mod, line)
            except OSError:
                th = None
            failed_thms.add("%s:%s" % (mod, th))
            broken.append(("theorem %s (%s:%d)" % (th, f, line), msg[:300]))
        if not errs:
            broken.append(("lake build", out[-1500:]))
        log(out[-3000:])
    forb = vlib.forbidden_tokens()
    for f, line, tok in forb:
        broken.append(("forbidden token `%s`" % tok, "%s:%d" % (f, line)))
    axioms_used = set()
    audited = 0
    if ok:
        res, missing, raw = vlib.print_axioms_all(mods, theorems)
        cov["axioms_per_theorem"] = {n: sorted(a) for n, a in sorted(res.items())}
        for n, axs in res.items():
            audited += 1
            axioms_used.update(axs)
            bad = [a for a in axs if a not in vlib.ALLOWED_AXIOMS]
            if bad:
                broken.append(("axioms of " + n, ", ".join(bad)))
        for n in missing:
            broken.append(("axiom audit", "no #print axioms output for " + n))
    if tier == "thorough" and ok:
        for m in mods:
            cok, cout = vlib.leanchecker(m)
            notes.append({"leanchecker": m, "ok": cok})
            if not cok:
                broken.append(("leanchecker " + m, cout[-500:]))
    cov["obligations"] = max(1, len(theorems))
    cov["discharged"] = audited if ok else max(0, len(theorems) - max(1, len(failed_thms)))
    cov["theorems"] = theorems
    cov["checker_cmd"] = "cd lean && lake build %s && lake env lean <#print axioms of every theorem>%s" % (
        " ".join(mods), " && lake env leanchecker <module>" if tier == "thorough" else "")
    cov["trusted_base"] = (["Lean 4.33.0 kernel", "axioms: " + (", ".join(sorted(axioms_used)) or "none")]
                           + list(spec.get("trusted", [])))

    # ---- 3. implementation side ----------------------------------------
    pair = None
    hb = None
    try:
        hb, hlog = plugin.build_harness(work, prop) if hasattr(plugin, "build_harness") else (None, "no harness")
    except Exception as e:
        hb, hlog = None, "%s: %s" % (type(e).__name__, e)
    if hb is None:
        broken.append(("harness build (the code no longer offers what the harness drives)", hlog[-1500:]))
        log(hlog[-3000:])
    drv = vlib.driver_path(plugin.DRIVER)
    if not os.path.exists(drv):
        broken.append(("model driver", "not built"))
    if hb and os.path.exists(drv):
        judge = (lambda c, i, m: plugin.judge(prop, c, i, m)) if hasattr(plugin, "judge") else None
        pair = vlib.Pair(hb, drv, judge, harness_cwd=work)

    # ---- replay mode ----------------------------------------------------
    if replay:
        rp = json.load(open(replay))
        case = Case(rp["case"]["id"], rp["case"]["lines"], rp["case"].get("tags", []))
        if not pair:
            print("cannot replay: harness or driver not built")
            return 2
        probs, (im, mo) = pair.run_one(case)
        for op, a, b in zip(["case " + case.cid] + case.lines, im + [None] * 99, mo + [None] * 99):
            print("%-50s impl: %-40s model: %s" % (op, a, b))
        for p in probs:
            print(p)
        return 1 if probs else 0

    # ---- 4. correspondence ----------------------------------------------
    findings = [f for f in vlib.load_findings()["findings"]
                if f["property"] == prop and f.get("component") in (None, plugin.COMPONENT)]
    problems = []
    evaluations = 0
    distinct = set()
    samples = []
    dist = {}
    exhaustive_note = None
    scale = 20 if broken else 1
    if broken:
        log("tie/proof broken -> directed search with budget x%d" % scale)
    if pair:
        batches = []
        corpus = load_corpus(plugin.COMPONENT, prop)
        if corpus:
            batches.append(("corpus", corpus))
        for f in findings:      # witnesses of recorded findings run too (reported as KNOWN-FINDING)
            batches.append(("finding:" + f["id"], [Case("kf-" + f["id"], f["witness"]["lines"], ["finding"])]))
        gen = plugin.generate(prop, tier, seed, scale)
        for label, cases in gen:
            batches.append((label, cases))
        seen_finding = {}
        for label, cases in batches:
            cases = list(cases)
            if not cases:
                continue
            for i in range(0, len(cases), 4000):
                chunk = cases[i:i + 4000]
                try:
                    probs, results = pair.run_cases(chunk)
                except Exception as e:
                    broken.append(("correspondence run " + label, "%s: %s" % (type(e).__name__, e)))
                    log(traceback.format_exc())
                    break
                for c, (im, mo) in zip(chunk, results):
                    evaluations += len(c.lines)
                    ops = c.lines
                    for op, a in zip(ops, im[1:]):
                        key = plugin.nontrivial_key(op, a) if hasattr(plugin, "nontrivial_key") else default_key(op, a)
                        if key is not None:
                            distinct.add(key)
                        w = op.split(" ")[0:2]
                        dist[" ".join(w)] = dist.get(" ".join(w), 0) + 1
                    if len(samples) < 6 and c.lines and not label.startswith("finding"):
                        samples.append({"batch": label, "case": c.cid, "ops": c.lines[:8], "impl": im[1:9], "model": mo[1:9]})
                for p in probs:
                    fm = None
                    for f in findings:
                        if vlib.finding_matches(f, p) or (hasattr(plugin, "finding_matches") and plugin.finding_matches(f, p)):
                            fm = f
                            break
                    if fm is not None:
                        seen_finding.setdefault(fm["id"], fm)
                        continue
                    if len(problems) < 5:       # shrink the first few, count the rest
                        keep = getattr(plugin, "shrink_keep", lambda l: False)
                        try:
                            p = vlib.shrink(pair, p, keep)
                            p.shrunk = True
                        except Exception:
                            log(traceback.format_exc())
                        # the shrunk form may be a recorded finding
                        if any(vlib.finding_matches(f, p) for f in findings):
                            f = [f for f in findings if vlib.finding_matches(f, p)][0]
                            seen_finding.setdefault(f["id"], f)
                            continue
                    problems.append(p)
                if len(problems) >= 25:
                    break
            if label.startswith("exhaustive"):
                exhaustive_note = (exhaustive_note or []) + [label]
            if len(problems) >= 25:
                break
        for fid, f in seen_finding.items():
            print("KNOWN-FINDING: property=%s %s: %s" % (prop, fid, f["fails"]))
        notes.append({"known_findings_seen": sorted(seen_finding)})

    cov["evaluations"] = evaluations
    cov["distinct_nontrivial"] = len(distinct)
    cov["rule"] = getattr(plugin, "RULE", {}).get(prop, "") if isinstance(getattr(plugin, "RULE", None), dict) else getattr(plugin, "RULE", "")
    cov["samples"] = samples
    top = sorted(dist.items(), key=lambda kv: -kv[1])
    cov["input_distribution"] = dict(sorted(top[:80]))
    if len(top) > 80:
        cov["input_distribution"]["(other %d operation kinds)" % (len(top) - 80)] = sum(v for _, v in top[80:])
    cov["exhaustive"] = bool(exhaustive_note) and not problems and not broken
    if exhaustive_note:
        cov["exhaustive_spaces"] = exhaustive_note
    cov["notes"] = notes
    cov["repo"] = vlib.repo_state()
    cov["component"] = plugin.COMPONENT
    cov["broken_obligations_or_ties"] = [list(b) for b in broken]

    # ---- 5. decide -------------------------------------------------------
    rc = 0
    lines = []
    kind = spec.get("kind", "functional")
    real = []
    for p in problems:
        if p.kind == "badop":
            broken.append(("correspondence (bad-op)", repr(p)))
        elif p.kind in ("oracle", "crash"):
            real.append(p)
        elif p.kind == "diff":
            # does the implementation's own output on this input contradict the property?  (the model is
            # proved to satisfy it; outputs the property does not determine are tie-only)
            is_failure = plugin.diff_is_failure(prop, p) if hasattr(plugin, "diff_is_failure") else (kind == "functional")
            if is_failure:
                real.append(p)          # the model is proved to be the specified function: this input fails
            else:
                broken.append(("correspondence %s/%s" % (plugin.COMPONENT, prop), repr(p)))
    if real:
        # report the input that speaks most directly about *this* property (plugin hook, optional)
        if hasattr(plugin, "problem_rank"):
            real.sort(key=lambda q: plugin.problem_rank(prop, q))
        p = real[0]
        if pair and not getattr(p, "shrunk", False) and p.kind != "crash":
            try:
                q = vlib.shrink(pair, p, getattr(plugin, "shrink_keep", lambda l: False))
                if not hasattr(plugin, "problem_rank") or plugin.problem_rank(prop, q) <= plugin.problem_rank(prop, p):
                    p = q
            except Exception:
                log(traceback.format_exc())
        path = write_replay(prop, tier, seed, p, broken, len(real), plugin.COMPONENT)
        lines.append("VIOLATION property=%s replay=%s" % (prop, path))
        rc = 1
    elif broken:
        path = write_replay(prop, tier, seed, None, broken, 0, plugin.COMPONENT)
        lines.append("VIOLATION property=%s replay=%s no-failing-input-found" % (prop, path))
        rc = 1
    ev["violations"] = len(real) + (1 if (broken and not real) else 0)
    ev["wall_s"] = round(time.time() - t0, 2)
    return {"rc": rc, "ev": ev, "lines": lines}


def default_key(op, result):
    """distinct (operation word(s), result class) pairs"""
    w = op.split(" ")
    r = (result or "").split(" ")
    return (" ".join(w[:2]), " ".join(r[:2]) if r and r[0] == "throw" else r[0] if r else "")


def load_corpus(component, prop):
    d = os.path.join(VERIF, "corpus", component)
    cases = []
    if os.path.isdir(d):
        for f in sorted(os.listdir(d)):
            if f.endswith(".ops"):
                lines = [l.rstrip("\n") for l in open(os.path.join(d, f)) if l.strip() and not l.startswith("#")]
                lines = [l for l in lines if not l.startswith("case ")]
                cases.append(Case("corpus-" + f[:-4], lines, ["corpus"]))
    return cases


def write_replay(prop, tier, seed, problem, broken, nreal, component=""):
    os.makedirs(os.path.join(VERIF, "replays"), exist_ok=True)
    path = os.path.join(VERIF, "replays", "%s-%s-%s-seed%d.json" % (prop, component, tier, seed))
    obj = {"property": prop, "component": component, "tier": tier, "seed": seed,
           "rerun": "python3 tools/check.py %s --replay %s" % (prop, path),
           "no_longer_checks": [list(b) for b in broken], "failing_inputs_found": nreal}
    if problem is not None:
        obj.update(problem.to_json())
    else:
        obj["case"] = {"id": "none", "lines": []}
        obj["note"] = "no failing input found; the theorem / correspondence named above no longer checks"
    vlib.write_json(path, obj)
    return path


if __name__ == "__main__":
    sys.exit(main())
