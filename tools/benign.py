#!/usr/bin/env python3
"""benign.py <Cxx> <worktree>: false-alarm test.  <worktree>/_benign holds behaviour-preserving rewrites r1.diff …
delivered by an agent that saw only the property text (tools/BENIGN_PROMPT.md).  Each is applied alone to the
clean worktree, the quick check of the property runs against it (CELMA_REPO=<worktree>), and the result is stored
under /verif/benign/<Cxx>/ (diffs, README.md, meta.json).  A check that reports a VIOLATION here raised a false
alarm (unless the rewrite turns out not to be behaviour-preserving, which is then recorded by hand)."""
import json, os, shutil, subprocess, sys, time
V = os.path.dirname(os.path.dirname(os.path.abspath(__file__)))
prop, wt = sys.argv[1], sys.argv[2]
only = sys.argv[3:] or None
bd = os.path.join(wt, "_benign")
dst = os.path.join(V, "benign", prop)
os.makedirs(dst, exist_ok=True)


def run(cmd, **kw):
    p = subprocess.run(cmd, shell=True, stdout=subprocess.PIPE, stderr=subprocess.STDOUT, text=True, **kw)
    return p.returncode, p.stdout


mp = os.path.join(dst, "meta.json")
meta = json.load(open(mp)) if os.path.exists(mp) else {"property": prop, "rewrites": {}}
head = run("git -C %s rev-parse HEAD" % os.environ.get("CELMA_REPO_MAIN", "/repo"))[1].strip()
run("git -C %s checkout -- src" % wt)
run("git -C %s checkout -q --detach %s" % (wt, head))      # same base as /repo (incl. later fix: commits)
meta["worktree_base"] = run("git -C %s rev-parse --short HEAD" % wt)[1].strip()
for f in sorted(os.listdir(bd)):
    if not f.endswith(".diff"):
        if f == "README.md":
            shutil.copy(os.path.join(bd, f), os.path.join(dst, f))
        continue
    name = f[:-5]
    if only and name not in only:
        continue
    run("git -C %s checkout -- src" % wt)
    rc, out = run("git -C %s apply %s" % (wt, os.path.join(bd, f)))
    if rc != 0:          # the worktree moved on to a newer /repo HEAD (later fix: commits): try a 3-way apply
        run("git -C %s checkout -- src" % wt)
        rc, out = run("git -C %s apply --3way %s" % (wt, os.path.join(bd, f)))
        run("git -C %s reset -q" % wt)
    if rc != 0:
        meta["rewrites"][name] = {"applies": False, "msg": out[-300:]}
        continue
    shutil.copy(os.path.join(bd, f), os.path.join(dst, f))
    stat = run("git -C %s diff --stat -- src" % wt)[1].strip().split("\n")
    env = dict(os.environ, CELMA_REPO=wt)
    t = time.time()
    p = subprocess.run(["python3", os.path.join(V, "tools", "check.py"), prop, "--tier", "quick"], cwd=V, env=env,
                       stdout=subprocess.PIPE, stderr=subprocess.STDOUT, text=True, timeout=6000)
    lines = [l for l in p.stdout.split("\n") if l.startswith(("VIOLATION", "OK ", "KNOWN-FINDING"))]
    r = {"applies": True, "files": stat[:-1], "summary": stat[-1].strip() if stat else "",
         "check_exit": p.returncode, "lines": [l[:300] for l in lines], "s": round(time.time() - t),
         "false_alarm": p.returncode != 0}
    if p.returncode != 0:
        r["tail"] = p.stdout[-1500:]
        for l in lines:
            if l.startswith("VIOLATION") and "replay=" in l:
                rp = l.split("replay=")[1].split()[0]
                try:
                    j = json.load(open(rp))
                    r["replay_summary"] = {k: (j.get(k)[:4] if isinstance(j.get(k), list) else j.get(k))
                                           for k in ("kind", "op", "impl", "model", "detail", "no_longer_checks") if j.get(k)}
                except Exception as e:
                    r["replay_summary"] = str(e)
    prev = meta["rewrites"].get(name)
    if prev and prev.get("false_alarm") and not r["false_alarm"]:
        # an earlier run raised an alarm on this rewrite; the machinery was corrected since: keep the record
        r["first_run"] = {k: prev.get(k) for k in ("lines", "replay_summary", "check_exit") if prev.get(k) is not None}
    elif prev and prev.get("first_run"):
        r["first_run"] = prev["first_run"]
    meta["rewrites"][name] = r
    print(name, "exit", p.returncode, lines[-1][:200] if lines else p.stdout[-300:])
run("git -C %s checkout -- src" % wt)
json.dump(meta, open(mp, "w"), indent=1)
