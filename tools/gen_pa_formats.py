"""generator family `format_case` (C03, also C01 / C02): value formatters `addFormat( uppercase() / lowercase())` on
string (and int) arguments of the handler fragment, combined with mandatory / checks / cardinality / constraints.

The expectation is computed from the abstract command line alone: a string destination ends with its last value passed
through the argument's formatter (gen_progargs.apply_fmt), an int destination with the converted value; a formatter
never decides whether a line is accepted.  Seeded change C03-4 (`mHasValueSet = true` only on the path without
formatter in TypedArg< T>::assign) makes every line that gives a MANDATORY argument with a formatter fail
(`fmt-valid`: "Mandatory argument ... was not set")."""
import gen_progargs as G
from vlib import Case


def words_hex(ws):
    return " ".join(G.hx(w) for w in ws)


def format_case(rng, cid):
    for _ in range(80):
        args, globs, abbr = G.gen_config(rng, fmt_share=0.9)
        cand = [a for a in args if a.kind in ("str", "int")]
        if not any(a.kind == "str" for a in cand):
            continue
        for a in cand:
            if a.kind == "str" and a.fmt is None and rng.random() < 0.7:
                a.fmt = rng.choice(["upper", "lower"])
            # the combination the seeded change needs: a formatter on a mandatory argument
            if a.fmt and rng.random() < 0.6:
                a.mandatory = True
        if not any(a.fmt for a in cand):
            continue
        uses = G.gen_uses(rng, args, globs)
        if uses is not None and any(args[i].fmt for i, _ in uses):
            break
    else:
        return None
    lines = G.cfg_lines(args, globs, abbr)
    ncfg = len(lines)

    def add(opts, ws, expect, label):
        ann = "x-lbl=" + label
        if expect is not None:
            ann += " x-exp=" + G.hx(expect)
        lines.append(" ".join(("pa eval %s %s -- %s" % (ann, opts, words_hex(ws))).split()))

    want = G.expected(args, uses)
    for _ in range(rng.randint(2, 4)):
        ws = G.spell(rng, args, uses, abbr)
        if ws is not None:
            add("", ws, want, "fmt-valid")
    # a second abstract line of the same configuration
    uses2 = G.gen_uses(rng, args, globs)
    if uses2 is not None:
        ws = G.spell(rng, args, uses2, abbr)
        if ws is not None:
            add("", ws, G.expected(args, uses2), "fmt-valid")
    # the same line with the formatted arguments delivered by the argument file / the environment variable
    fm = [u for u in uses if args[u[0]].fmt]
    rest = [u for u in uses if not args[u[0]].fmt]
    involved = any(args[u[0]].cons or any(u[0] in tgt for b in args for _, tgt, _s in b.cons) or
                   any(u[0] in mem for _k, mem, _s in globs) for u in fm)
    if fm and not involved and all(args[u[0]].kind != "vec" for u in fm):
        sw = G.spell(rng, args, fm, abbr)
        aw = G.spell(rng, args, rest, abbr) if rest else []
        if sw is not None and aw is not None:
            q = [G.quote_word(rng, w) for w in sw]
            if all(x is not None for x in q):
                # order file -> argv: the abstract line is fm ++ rest; scalars: last value wins, lists none here
                exp = G.expected(args, fm + rest)
                opt = ("file=" + G.hx(" ".join(q))) if rng.random() < 0.5 else ("env=" + G.hx(" ".join(q)))
                add(opt, aw, exp, "fmt-source")
    # rule-breaking mutations of the line: a formatter must not make a broken line acceptable either
    for _ in range(rng.randint(1, 3)):
        r = G.break_rule(rng, args, globs, uses, abbr)
        if r is not None and r[1] is not None:
            add("", r[1], "throw", "fmt-broken:" + r[0])
    # the checks are applied to the text AS TYPED (`check( value)` precedes `format( valCopy)`): a value that passes a
    # `values` check only after formatting.  No expectation of the generator's own (the property does not say which
    # text a check sees): model against implementation only
    for i, a in enumerate(args):
        if a.kind == "str" and a.fmt and a.allowed:
            for w in a.allowed:
                alt = w.swapcase()
                if alt not in a.allowed and G.next_word_ok(alt):
                    base = [u for u in uses if u[0] != i]
                    bw = G.spell(rng, args, base, abbr)
                    key = ("-" + a.short) if a.short else ("--" + a.long)
                    if bw is not None:
                        add("", bw + [key, alt], None, "fmt-check-on-typed-text")
                    break
    return Case(cid, lines) if len(lines) > ncfg else None
