#!/usr/bin/env python3
"""runs the translators of every component plugin against /repo (Generated/*.lean), as each check does for itself"""
import importlib, os, sys
sys.path.insert(0, os.path.dirname(os.path.abspath(__file__)))
import vlib
import check
done = set()
for prop, mods in sorted(check.registry().items()):
    for m in mods:
        plugin = importlib.import_module(m)
        for tr in plugin.PROPERTIES[prop].get("translators", []):
            key = (tr.__module__, tr.__name__)
            if key in done:
                continue
            done.add(key)
            try:
                tr(vlib.REPO, vlib.LEAN)
                print("translated:", key[0] + "." + key[1])
            except Exception as e:
                print("translator %s.%s failed: %s" % (key[0], key[1], e))
