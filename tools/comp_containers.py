"""component plugin: container destinations of celma::prog_args (C06)"""
import glob
import itertools
import os
import random
import re

import vlib
from vlib import Case

COMPONENT = "containers"
DRIVER = "model-containers"

PROPERTIES = {
    "C06": {
        "lean_module": "CelmaVerif.Props.C06",
        "kind": "functional",
        "trusted": [
            "hand-written model CelmaVerif/Model/Containers.lean of the assign() methods of the container "
            "specialisations of TypedArg<> (typed_arg.hpp), the adapters (container_adapter.hpp, "
            "key_value_container_adapter.hpp), CardinalityExact, the checks lower/upper/range/minLength/maxLength "
            "and the case formatters; tied by the correspondence run (harness/containers.cpp: a real Handler with one "
            "container argument, real evalArguments, ASan+UBSan) on every invocation",
            "boost::char_separator (empty tokens dropped) modelled as `tokens`; boost::lexical_cast<int/size_t/string> "
            "modelled as convInt/convSize/convStr; std::sort / list::sort / set / multiset / priority_queue / map "
            "ordering modelled by insertion into an ascending list (total order whose equivalent elements are equal)",
            "the words -> uses grammar of the driver (`-v W`, `-vW`, `--vals W`, `--vals=W`, free words while "
            "multi-value is on) stands in for the handler/iterator layer, which is modelled by C01-C04; the "
            "generator stays inside that grammar",
            "the harness' own oracle: all cuts of one element sequence (evalref/evalsame) give the same container",
        ],
        "assumptions": [
            "element types int and std::string; map<int,string>; tuple<int,string,int>; "
            "pair/range/vector<bool>/unordered containers and values read from files or the environment "
            "(cardinality ignored there) are outside the modelled fragment",
            "positional formatters (`addFormatPos`) with the case formatters are modelled for vectors, arrays and "
            "tuples and refused at definition time elsewhere; key/value formatters of maps and `addFormatPos(-1,…)` / "
            "negative indices are outside",
            "the initial content of a set/multiset/priority queue/map is a well-formed container (the C++ type "
            "guarantees it)",
            "elements do not contain the list separator (they could not be written on a command line otherwise)",
            "tuple destinations: every use carries at least one element (see known finding tuple-empty-use)",
        ],
    },
    # C04 for the fixed-size destinations of typed_arg.hpp (one of C04's anchored files): no store outside the
    # destination.  Served besides the progargs plugin; the generator concentrates on arrays, bitsets and tuples that
    # are driven to and beyond their capacity, with every option set (unique-data in particular).
    "C04": {
        "lean_module": "CelmaVerif.Props.C04c",
        "kind": "relational",
        "trusted": [
            "hand-written model CelmaVerif/Model/Containers.lean (every store into the N slots / N bits is a checked "
            "write); tied by the correspondence run of harness/containers.cpp (real Handler, ASan+UBSan: an index "
            "outside `T[N]` / `std::array` aborts the harness)",
        ],
        "assumptions": ["destinations T[N], std::array<T,N>, std::bitset<N>, tuple<int,string,int> with T = int / std::string"],
    },
}

RULE = ("a case = one configuration line plus evaluations, each on a fresh destination and Handler; one evaluation = "
        "one eval/evalref/evalsame/cont line run on the real code and on the Lean model; distinct_nontrivial = distinct "
        "(container kind, clear, sort, unique mode, has position formatters, outcome) tuples for configuration lines "
        "plus distinct (operation, "
        "result class, number of uses class, has empty element, free values class, content size class) tuples for "
        "evaluations")

SEQ_KINDS = ["vec_int", "deque_int", "list_int", "fwdlist_int", "set_int", "multiset_int", "stack_int", "queue_int",
             "prioq_int"]
SORTABLE = {"vec_int", "vec_str", "deque_int", "list_int", "fwdlist_int"}
POS_SEQ = {"vec_int", "vec_str"}             # ContainerAdapter<...>::AllowsPositionFormat
ITER = SORTABLE | {"set_int", "multiset_int"}
ARR_N = [1, 2, 3, 4, 5, 6, 8]
ARR_INT = ("carray_int", "stdarray_int")
ARR_STR = ("carray_str", "stdarray_str")
ARR_KINDS = ARR_INT + ARR_STR
BIT_N = [1, 2, 3, 5, 8, 64, 65]
SEPS = [",", ";", ":", "/"]


def repo_sources():
    base = os.path.join(vlib.REPO, "src", "library")
    srcs = sorted(glob.glob(os.path.join(base, "prog_args", "*.cpp")) +
                  glob.glob(os.path.join(base, "prog_args", "detail", "*.cpp")))
    srcs += [os.path.join(base, "format", "text_block.cpp"), os.path.join(base, "appl", "arg_string_2_array.cpp")]
    return [os.path.relpath(s, vlib.REPO) for s in srcs]


def build_harness(work, prop):
    return vlib.build_harness(work, "harness/containers.cpp", repo_sources())


def diff_is_failure(prop, p):
    """The property fixes the final content for element sequences that convert and pass the checks, and that
    duplicates / overflowing elements are refused.  A difference between two *refusals* (exception class, what was
    stored before the refusal) is outside the statement: broken tie only -- except for the capacity refusal of a
    fixed-size array without sort and of a bitset, where C06_array_overflow / C06_bitset_outside fix what the
    destination holds afterwards (the first N kept values / the positions given before)."""
    a, b = (p.impl or ""), (p.model or "")
    if prop == "C04":       # memory safety: only the implementation accepting what the model refuses (a store the
        return a.startswith("ok") and b.startswith("throw")     # model says is outside) is a failure; crashes always are
    if a.startswith("throw ") and b.startswith("throw "):
        wa, wb = a.split(" "), b.split(" ")
        if len(wa) > 2 and len(wb) > 2 and wa[1] == wb[1] == "runtime_error" and wa[2:] != wb[2:]:
            conts = [ln for ln in p.case.lines if ln.startswith("cont ")]
            if conts:
                w = conts[-1].split(" ")
                kind = kvs(w, "kind").split(":")[0]
                if kvs(w, "unique") != "error" and (kind == "bitset" or (kind in ARR_KINDS and kvs(w, "sort") != "1")):
                    return True
        return False
    return True


def shrink_keep(line):
    return line.startswith("cont ") or line.startswith("evalref ")


def nontrivial_key(op, result):
    w = op.split(" ")
    r = (result or "").split(" ")
    if w[0] == "cont":
        return ("cont", kvs(w, "kind").split(":")[0], kvs(w, "sort"), kvs(w, "unique"), kvs(w, "clear"),
                bool(kvs(w, "fmtpos")), " ".join(r[:2]))
    uses = sum(1 for x in w[1:] if x.startswith("-"))
    free = sum(1 for x in w[1:] if not x.startswith("-"))
    empt = bool(re.search(r"[,;:/]{2}|[ =v][,;:/]|[,;:/]( |$)|''", op))
    size = min(len(r[-1].split(",")), 4) if r and r[-1].startswith("[") and r[-1] != "[]" else 0
    return (w[0][:5], " ".join(r[:2]) if r[0] != "ok" else "ok", min(uses, 3), empt, min(free, 2), size)


def kvs(words, key):
    for t in words:
        if t.startswith(key + "="):
            return t[len(key) + 1:]
    return ""


# ---------------------------------------------------------------------------------------------------------
# generation


class Conf:
    def __init__(self, kind, n=0, sep=None, pair=None, clear=0, sort=0, unique="none", multi=0, init=(), checks=(),
                 fmt=None, fmtpos=()):
        self.kind, self.n, self.sep, self.pair = kind, n, sep, pair
        self.clear, self.sort, self.unique, self.multi = clear, sort, unique, multi
        self.init, self.checks, self.fmt = list(init), list(checks), fmt
        self.fmtpos = list(fmtpos)          # [(idx, "upper"|"lower")] = the addFormatPos calls in order

    def line(self):
        k = self.kind + (":%d" % self.n if self.n else "")
        parts = ["cont", "kind=" + k]
        if self.pair is not None:
            parts.append("pair=" + self.pair)
        if self.sep is not None:
            parts.append("sep=" + self.sep)
        parts += ["clear=%d" % self.clear, "sort=%d" % self.sort, "unique=" + self.unique, "multi=%d" % self.multi]
        if self.init:
            parts.append("init=" + ",".join(self.init))
        parts += ["check=" + c for c in self.checks]
        if self.fmt:
            parts.append("fmt=" + self.fmt)
        if self.fmtpos:
            parts.append("fmtpos=" + ",".join("%d:%s" % (i, f) for i, f in self.fmtpos))
        return " ".join(parts)

    def list_sep(self):
        if self.sep is not None:
            return self.sep
        return ";" if self.kind == "map_int_str" else ","

    def valid(self):
        k = self.kind
        if k in SEQ_KINDS or k == "vec_str":        # addFormatPos: std::vector only (AllowsPositionFormat)
            return (not (self.sort and k not in SORTABLE) and not (self.unique != "none" and k not in ITER)
                    and not (self.fmtpos and k not in POS_SEQ))
        if k in ARR_KINDS:
            return not self.clear and all(i < self.n for i, _ in self.fmtpos)
        if k == "bitset":
            return not self.sort and self.unique == "none" and not self.fmtpos
        if k == "tuple_int_str_int":
            return (not (self.clear or self.sort or self.unique != "none" or self.fmt)
                    and all(i < 3 for i, _ in self.fmtpos))
        if k == "map_int_str":
            pair = self.pair if self.pair is not None else ","
            if len(pair) not in (1, 3) or ";" in pair:
                return False
            if self.sep is not None and self.sep in pair:
                return False
            return not self.sort and not self.fmtpos
        return False


def render_value(rng, elems, sep, noise):
    """the elements of one use as a value word, optionally with empty elements (doubled / leading / trailing
    separators)"""
    parts = []
    for i, e in enumerate(elems):
        if noise and rng.random() < 0.25:
            parts.append("")
        parts.append(e)
    if noise and rng.random() < 0.25:
        parts.append("")
    if noise and rng.random() < 0.15:
        parts.insert(0, "")
    return sep.join(parts)


def render_cut(rng, conf, uses, noise, free=0.6):
    """uses: list of element lists -> argv words.  Forms: `-v W`, `-vW`, `--vals=W`, `--vals W`, free word
    (with probability `free` for every use after the first while multi-value is on)."""
    sep = conf.list_sep()
    words = []
    for i, elems in enumerate(uses):
        w = render_value(rng, elems, sep, noise)
        if w.startswith("-") and (not noise or rng.random() < 0.5):
            w = sep + w                      # a leading empty element hides the dash from the argument parser
        dash = w.startswith("-")
        forms = ["-vW", "--vals=W"] if dash else ["-v W", "-v W", "-vW", "--vals=W", "--vals W"]
        if w == "":
            forms = ["-v W", "--vals=W"]
        if i > 0 and conf.multi and not dash and w != "" and rng.random() < free:
            forms = ["W"]
        f = rng.choice(forms)
        ww = w if w != "" else "''"
        if f == "-v W":
            words += ["-v", ww]
        elif f == "-vW":
            words += ["-v" + w]
        elif f == "--vals=W":
            words += ["--vals=" + w]
        elif f == "--vals W":
            words += ["--vals", ww]
        else:
            words += [ww]
    return " ".join(words)


def random_cut(rng, elems, allow_empty_use):
    """splits the element sequence into consecutive uses"""
    if not elems:
        return [[]]
    uses = [[]]
    for e in elems:
        if uses[-1] and rng.random() < 0.45:
            uses.append([])
        uses[-1].append(e)
    if allow_empty_use and rng.random() < 0.2:
        uses.insert(rng.randrange(len(uses) + 1), [])
    return uses


INT_POOL = ["0", "1", "2", "3", "4", "5", "7", "9", "-1", "-3", "10", "42"]
INT_EDGE = ["2147483647", "-2147483648", "007", "+5", "-0", "00", "+0"]
INT_BAD = ["x", "5x", "2147483648", "-2147483649", "+", "1.5", "0x1", "4294967296", "99999999999999999999", "--1", "+-1",
           "1e3"]
# mixed case: the upper/lower formatters make a visible difference, and unique-data meets formatting ("ab" / "AB" /
# "Ab" / "aB" are the same value behind a case formatter)
STR_POOL = ["a", "b", "ab", "B", "abc", "Zz", "a1", "0", "10", "9", "abcd", "A", "AB", "Ab", "aB", "Beta", "BETA", "beta",
            "SeVeN"]
TUP_STR = ["Beta", "SeVeN", "aB", "Ab", "q", "ZZ"]
FMTS = ("upper", "lower")


def other_fmt(f):
    return "lower" if f == "upper" else "upper"


def gen_fmtpos(rng, conf, force_valid=True, force=False):
    """the addFormatPos calls of a configuration ([] = none): differing per position, positions beyond the initial
    content / around N-1, sometimes the same position twice with different formatters; with force_valid=False also
    on kinds that refuse them and with indices outside an array / tuple"""
    k = conf.kind
    if k == "tuple_int_str_int":
        if not force and rng.random() >= 0.45:
            return []
        fp = list(rng.choice([
            [(0, "lower"), (1, "upper"), (2, "lower")], [(0, "lower"), (1, "upper"), (2, "lower")],
            [(0, "upper"), (1, "lower"), (2, "upper")], [(1, "upper")], [(1, "lower")], [(1, "upper")], [(0, "upper")],
            [(2, "lower")], [(0, "upper"), (1, "lower")], [(1, "lower"), (2, "upper")], [(2, "upper"), (1, "lower")],
            [(1, "upper"), (1, "lower")], [(1, "lower"), (0, "upper"), (1, "upper")]]))
        if not force_valid and rng.random() < 0.3:
            fp.insert(rng.randrange(len(fp) + 1), (rng.choice([3, 3, 4, 12]), rng.choice(FMTS)))
        return fp
    if k in POS_SEQ or k in ARR_KINDS:
        strs = k == "vec_str" or k in ARR_STR
        if not force and rng.random() >= (0.45 if strs else 0.08):
            return []
        if k in ARR_KINDS:
            cand = sorted({0, conf.n - 1, max(0, conf.n - 2), conf.n // 2, rng.randrange(conf.n)})
        else:
            li = len(conf.init)
            cand = sorted({0, 1, max(0, li - 1), li, li + 1, li + 2, li + rng.choice([3, 5, 9])})
        shape = rng.random()
        if shape < 0.3:                       # alternating over all candidate positions
            f0 = rng.choice(FMTS)
            fp = [(i, f0 if j % 2 == 0 else other_fmt(f0)) for j, i in enumerate(cand)]
        elif shape < 0.5:                     # a single position
            fp = [(rng.choice(cand), rng.choice(FMTS))]
        else:
            fp = [(i, rng.choice(FMTS)) for i in rng.sample(cand, rng.randint(1, min(4, len(cand))))]
        if rng.random() < 0.25:               # the same position twice: applied in the order they were added
            i, f = rng.choice(fp)
            fp.insert(rng.randrange(len(fp) + 1), (i, other_fmt(f)))
        if k in ARR_KINDS and not force_valid and rng.random() < 0.3:
            fp.insert(rng.randrange(len(fp) + 1), (conf.n + rng.choice([0, 0, 1, 7]), rng.choice(FMTS)))
        return fp
    if not force_valid and rng.random() < 0.25:       # refused at definition time
        return [(rng.choice([0, 0, 1, 5]), rng.choice(FMTS))]
    return []


def gen_elems(rng, conf, length):
    k = conf.kind
    if k == "vec_str" or k in ARR_STR:
        return [rng.choice(STR_POOL) for _ in range(length)]
    if k == "bitset":
        n = conf.n
        pool = [str(x) for x in {0, 1, n - 1, n // 2, max(0, n - 2)}] + ["-0", "+1" if n > 1 else "0", "00"]
        return [rng.choice(pool) for _ in range(length)]
    if k == "map_int_str":
        pair = conf.pair if conf.pair is not None else ","
        out = []
        for _ in range(length):
            body = rng.choice(INT_POOL[:8]) + pair[0] + rng.choice(STR_POOL)
            out.append(pair[1] + body + pair[2] if len(pair) == 3 else body)
        return out
    if k == "tuple_int_str_int":
        pool = TUP_STR if conf.fmtpos and rng.random() < 0.7 else STR_POOL
        return [rng.choice(INT_POOL) if i % 3 != 1 else rng.choice(pool) for i in range(length)]
    pool = INT_POOL if rng.random() < 0.8 else INT_POOL + INT_EDGE
    small = rng.random() < 0.5
    return [rng.choice(pool[:5] if small else pool) for _ in range(length)]


def bad_element(rng, conf):
    k = conf.kind
    if k == "vec_str" or k in ARR_STR:
        return None
    if k == "bitset":
        return rng.choice([str(conf.n), str(conf.n + 1), "-1", "x", "18446744073709551615", "18446744073709551616", "1x"])
    if k == "map_int_str":
        pair = conf.pair if conf.pair is not None else ","
        body = rng.choice(["5", "5" + pair[0], pair[0] + "a", "x" + pair[0] + "a", "5a"])
        return (pair[1] + body + pair[2]) if len(pair) == 3 and rng.random() < 0.7 else body
    if k == "tuple_int_str_int":
        return "x"
    return rng.choice(INT_BAD)


def random_conf(rng, kind=None, force_valid=True):
    kind = kind or rng.choice(SEQ_KINDS + ["vec_int", "vec_str", "carray_int", "stdarray_int", "bitset", "map_int_str",
                                            "tuple_int_str_int", "carray_int", "stdarray_int", "carray_str",
                                            "stdarray_str"])
    for _ in range(50):
        c = Conf(kind)
        if kind in ARR_KINDS:
            c.n = rng.choice(ARR_N)
        if kind == "bitset":
            c.n = rng.choice(BIT_N)
        c.clear = int(rng.random() < 0.4)
        c.sort = int(rng.random() < 0.4)
        c.unique = rng.choice(["none", "none", "drop", "drop", "error"])
        c.multi = int(rng.random() < 0.5)
        if kind == "map_int_str":
            if rng.random() < 0.5:
                c.pair = rng.choice([":", "=", ":()", "={}", ","])
            if rng.random() < 0.5:
                c.sep = rng.choice([";", "/", ",", "+"])
        elif rng.random() < 0.35:
            c.sep = rng.choice(SEPS)
        # initial content
        if kind == "vec_str":
            c.init = [rng.choice(STR_POOL) for _ in range(rng.choice([0, 0, 1, 2, 3]))]
        elif kind == "bitset":
            c.init = sorted({str(rng.randrange(c.n)) for _ in range(rng.choice([0, 1, 2]))}, key=int)
        elif kind == "map_int_str":
            c.init = ["%s:%s" % (rng.choice(INT_POOL[:6]), rng.choice(STR_POOL)) for _ in range(rng.choice([0, 1, 2]))]
        elif kind == "tuple_int_str_int":
            c.init = [] if rng.random() < 0.5 else ["7", "q", "9"]
        elif kind in ARR_INT:
            c.init = [rng.choice(["0", "1", "2", "9"]) for _ in range(rng.choice([0, 0, c.n, max(0, c.n - 1)]))]
        elif kind in ARR_STR:
            c.init = [rng.choice(["a", "b", "Zz", "9", "aB"]) for _ in range(rng.choice([0, 0, c.n, max(0, c.n - 1)]))]
        else:
            c.init = [rng.choice(INT_POOL[:8]) for _ in range(rng.choice([0, 0, 1, 2, 4]))]
        # checks / formats
        if rng.random() < 0.25 and kind not in ("map_int_str", "vec_str") + ARR_STR:
            if kind == "tuple_int_str_int":
                c.checks = [rng.choice(["maxlen:3", "minlen:1"])]
            elif kind == "bitset":
                c.checks = [rng.choice(["lower:0", "upper:%d" % max(1, c.n - 1), "range:0:%d" % c.n])]
            else:
                c.checks = [rng.choice(["lower:0", "lower:2", "upper:10", "upper:5", "range:-3:8", "range:0:43",
                                        "maxlen:2", "minlen:1"])]
                if rng.random() < 0.3:      # two checks of the same kind are refused at definition time
                    extra = rng.choice(["maxlen:3", "upper:43"])
                    if extra.split(":")[0] != c.checks[0].split(":")[0]:
                        c.checks.append(extra)
        if kind == "vec_str" or kind in ARR_STR:
            if rng.random() < 0.4:
                c.fmt = rng.choice(["upper", "lower"])
            if rng.random() < 0.3:
                c.checks = [rng.choice(["maxlen:2", "minlen:2", "maxlen:3"])]
        elif rng.random() < 0.1:
            c.fmt = rng.choice(["upper", "lower"])
        c.fmtpos = gen_fmtpos(rng, c, force_valid)
        if not force_valid or c.valid():
            return c
        if rng.random() < 0.5:                # repair the usual suspects instead of rolling everything again
            if kind not in SORTABLE:
                c.sort = 0
            if kind not in ITER and kind not in ARR_KINDS + ("map_int_str",):
                c.unique = "none"
            if kind in ARR_KINDS + ("tuple_int_str_int",):
                c.clear = 0
            if kind == "tuple_int_str_int":
                c.fmt = None
            if c.valid():
                return c
    return Conf(kind, n=c.n)


def seq_length(rng, conf):
    k = conf.kind
    if k in ARR_KINDS:
        return rng.choice([0, 1, conf.n - 1, conf.n, conf.n, conf.n + 1, conf.n + 2])
    if k == "tuple_int_str_int":
        return rng.choice([3, 3, 3, 3, 2, 4, 1, 5])
    return rng.choice([0, 1, 2, 3, 4, 5, 6, 8])


def cuts_case(rng, cid, conf=None):
    conf = conf or random_conf(rng)
    length = max(0, seq_length(rng, conf))
    elems = gen_elems(rng, conf, length)
    if rng.random() < 0.12 and elems:
        b = bad_element(rng, conf)
        if b is not None:
            elems[rng.randrange(len(elems))] = b
    lines = [conf.line()]
    # reference: everything in one use, no empty elements (for no element at all: one empty use)
    lines.append("evalref " + render_cut(rng, conf, [elems], False))
    ncuts = rng.choice([2, 3, 4, 6])
    tup = conf.kind == "tuple_int_str_int"
    for _ in range(ncuts):
        uses = random_cut(rng, elems, allow_empty_use=(not tup or rng.random() < 0.15))
        lines.append("evalsame " + render_cut(rng, conf, uses, rng.random() < 0.6))
    if elems and rng.random() < 0.3:        # a free value without / with multi-value mode (not a cut of the sequence)
        lines.append("eval " + render_cut(rng, conf, [elems[:1]], False) + " " + rng.choice(["5", "1", "a"]))
    if rng.random() < 0.1:
        lines.append("eval")
    if rng.random() < 0.05:
        lines.append("eval -v")
    return Case(cid, lines)


def config_case(rng, cid):
    conf = random_conf(rng, force_valid=False)
    lines = [conf.line()]
    if conf.valid():
        lines.append("eval " + render_cut(rng, conf, [gen_elems(rng, conf, 2)], False))
    return Case(cid, lines)


def posfmt_case(rng, cid):
    """a destination with position formatters and ONE element sequence: the reference is the whole sequence as one
    list in one use, then the same sequence cut into several uses and free values in all spelling forms.  The
    formatter of an element is chosen by its place in the destination, never by its place in the list of one use."""
    kind = rng.choice(["tuple_int_str_int"] * 5 + ["vec_str"] * 2 + ["carray_str", "stdarray_str", "stdarray_str"])
    conf = random_conf(rng, kind=kind)
    if not conf.fmtpos:
        conf.fmtpos = gen_fmtpos(rng, conf, force=True)
    conf.multi = int(rng.random() < 0.8)
    if kind == "tuple_int_str_int":
        conf.checks = [] if rng.random() < 0.85 else conf.checks
        length = rng.choice([3, 3, 3, 3, 3, 3, 2, 4])
    elif kind == "vec_str":
        top = max(i for i, _ in conf.fmtpos) + 1 - (0 if conf.clear else len(conf.init))
        length = max(1, min(8, rng.choice([top, top + 1, 3, 4, 5])))
    else:
        length = rng.choice([conf.n, conf.n, conf.n, max(1, conf.n - 1), conf.n + 1])
    elems = gen_elems(rng, conf, length)
    lines = [conf.line(), "evalref " + render_cut(rng, conf, [elems], False)]
    cuts = [u for u in compositions(elems) if len(u) > 1]
    if len(cuts) > 7:
        cuts = rng.sample(cuts, 5) + [[[e] for e in elems]]
    for uses in cuts:
        lines.append("evalsame " + render_cut(rng, conf, uses, rng.random() < 0.25, free=rng.choice([0.0, 0.6, 1.0, 1.0])))
    for _ in range(2):
        uses = random_cut(rng, elems, allow_empty_use=(kind != "tuple_int_str_int" and rng.random() < 0.3))
        lines.append("evalsame " + render_cut(rng, conf, uses, rng.random() < 0.5))
    if conf.multi and len(elems) > 1:       # `-v Alpha Beta Gamma`
        lines.append("evalsame -v " + " ".join(e if not e.startswith("-") else conf.list_sep() + e for e in elems))
    return Case(cid, lines)


def compositions(seq):
    """all ways of cutting seq into consecutive non-empty uses"""
    n = len(seq)
    if n == 0:
        yield [[]]
        return
    for mask in range(1 << (n - 1)):
        uses, cur = [], [seq[0]]
        for i in range(1, n):
            if mask >> (i - 1) & 1:
                uses.append(cur)
                cur = []
            cur.append(seq[i])
        uses.append(cur)
        yield uses


def exhaustive_cases(maxlen, alphabet):
    """every container kind x every valid (clear, sort, unique) x every element sequence over the alphabet up to
    maxlen x every cut into uses (`-v a,b` per use), init content [2,1] resp. kind-specific; plus the position
    formatter configurations of exhaustive_posfmt_cases"""
    cases = []
    kinds = [(k, 0) for k in SEQ_KINDS] + [("vec_str", 0), ("carray_int", 2), ("stdarray_int", 3), ("carray_str", 2),
                                             ("stdarray_str", 2), ("bitset", 3)]
    cid = 0
    for (kind, n), clear, sort, unique in itertools.product(kinds, (0, 1), (0, 1), ("none", "drop", "error")):
        conf = Conf(kind, n=n, clear=clear, sort=sort, unique=unique)
        if not conf.valid():
            continue
        if kind == "bitset":
            conf.init = ["1"]
        elif kind in ARR_KINDS:
            conf.init = ["1", "0"]
        else:
            conf.init = ["2", "1"] if kind not in ("set_int", "multiset_int", "prioq_int") else ["1", "2"]
        for L in range(0, maxlen + 1):
            for seq in itertools.product(alphabet, repeat=L):
                cid += 1
                lines = [conf.line()]
                first = True
                for uses in compositions(list(seq)):
                    words = " ".join("-v " + (",".join(u) if u else "''") for u in uses)
                    lines.append(("evalref " if first else "evalsame ") + words)
                    first = False
                cases.append(Case("x%d" % cid, lines))
    return cases + exhaustive_posfmt_cases(maxlen)


def bitset_boundary_cases():
    """bit-set destinations at their boundary, with and without a case formatter attached (the formatter branch of
    `TypedArg< std::bitset< N>>::assign()` has its own range test - seeded change C06-5): every N of BIT_N x
    formatter none / upper / lower x every sequence up to length 2 over {0, N-1, N, N+1} x every cut into uses"""
    cases = []
    cid = 0
    for n in BIT_N:
        alphabet = sorted({"0", str(n - 1), str(n), str(n + 1)}, key=int)
        for fmt in (None, "upper", "lower"):
            conf = Conf("bitset", n=n, fmt=fmt)
            if not conf.valid():
                continue
            for L in (1, 2):
                for seq in itertools.product(alphabet, repeat=L):
                    cid += 1
                    lines = [conf.line()]
                    first = True
                    for uses in compositions(list(seq)):
                        words = " ".join("-v " + ",".join(u) for u in uses)
                        lines.append(("evalref " if first else "evalsame ") + words)
                        first = False
                    cases.append(Case("b%d" % cid, lines))
    return cases


def exhaustive_posfmt_cases(maxlen):
    """position formatters, one configuration per kind that allows them: every valid (clear, sort, unique) x every
    element sequence up to maxlen over a mixed-case alphabet x every cut into uses; tuples: every sequence up to
    length 4 of the shape (int, string, int, int) x every cut, as repeated uses and as free values (multi-value)"""
    cases = []
    cid = 0
    alphabet = ["a", "B", "ab"]
    confs = []
    for clear, sort, unique in itertools.product((0, 1), (0, 1), ("none", "drop", "error")):
        confs.append(Conf("vec_str", clear=clear, sort=sort, unique=unique, init=["b", "A"],
                          fmtpos=[(0, "lower"), (2, "upper"), (3, "lower")]))
        if not clear:
            for kind in ("carray_str", "stdarray_str"):
                confs.append(Conf(kind, n=2, sort=sort, unique=unique, init=["b", "A"], fmtpos=[(0, "upper"), (1, "lower")]))
    for conf in confs:
        assert conf.valid()
        for L in range(0, min(maxlen, 3) + 1):
            for seq in itertools.product(alphabet, repeat=L):
                cid += 1
                lines = [conf.line()]
                for j, uses in enumerate(compositions(list(seq))):
                    words = " ".join("-v " + (",".join(u) if u else "''") for u in uses)
                    lines.append(("evalsame " if j else "evalref ") + words)
                cases.append(Case("xp%d" % cid, lines))
    for multi in (0, 1):
        conf = Conf("tuple_int_str_int", multi=multi, fmtpos=[(0, "lower"), (1, "upper"), (2, "lower")])
        assert conf.valid()
        pools = [["1", "2"], ["a", "B", "aB"], ["1", "2"], ["1", "2"]]
        for L in range(1, 5):
            for seq in itertools.product(*pools[:L]):
                cid += 1
                lines = [conf.line()]
                for j, uses in enumerate(compositions(list(seq))):
                    vals = [",".join(u) for u in uses]
                    words = "-v " + " ".join(vals) if multi else " ".join("-v " + v for v in vals)
                    lines.append(("evalsame " if j else "evalref ") + words)
                cases.append(Case("xp%d" % cid, lines))
    return cases


def capacity_case(rng, cid):
    """a fixed-size destination driven to and beyond its capacity (C04): N-1, N, N+1, N+3 values — distinct ones,
    and with duplicates when unique-data is on — as one list, over several uses and as free values"""
    kind = rng.choice(list(ARR_KINDS) + ["bitset", "tuple_int_str_int"])
    conf = random_conf(rng, kind=kind)
    n = 3 if conf.kind == "tuple_int_str_int" else conf.n
    lines = [conf.line()]
    for length in (max(0, n - 1), n, n + 1, n + 3):
        elems = gen_elems(rng, conf, length)
        if conf.kind in ARR_KINDS:              # distinct values, so that unique-data drops nothing
            pool = [str(x) for x in range(10, 10 + length)] if conf.kind in ARR_INT else ["v%d" % x for x in range(length)]
            if rng.random() < 0.7:
                elems = pool
        lines.append("evalref " + render_cut(rng, conf, [elems], False))
        for _ in range(2):
            uses = random_cut(rng, elems, allow_empty_use=False)
            lines.append("evalsame " + render_cut(rng, conf, uses, rng.random() < 0.6))
    return Case(cid, lines)


def generate(prop, tier, seed, scale=1):
    rng = random.Random("%s-%s" % (prop, seed))
    if prop == "C04":
        n = (600 if tier == "quick" else 30000) * scale
        yield "capacity", [capacity_case(rng, "k%d" % i) for i in range(n)]
        yield "exhaustive len<=3 over {0,1,2} + position formatters over {a,B,ab}", exhaustive_cases(3, ["0", "1", "2"])
        yield "bit sets at the boundary N-1 / N / N+1, with and without a formatter", bitset_boundary_cases()
        return
    n = (2500 if tier == "quick" else 120000) * scale
    cases = []
    for i in range(n):
        if i % 12 == 0:
            cases.append(config_case(rng, "c%d" % i))
        elif i % 6 == 3:
            cases.append(posfmt_case(rng, "p%d" % i))
        else:
            cases.append(cuts_case(rng, "g%d" % i))
    yield "generated", cases
    yield "bit sets at the boundary N-1 / N / N+1, with and without a formatter", bitset_boundary_cases()
    if tier == "quick":
        yield "exhaustive len<=3 over {0,1,2} + position formatters over {a,B,ab}", exhaustive_cases(3, ["0", "1", "2"])
    else:
        yield "exhaustive len<=4 over {0,1,2} + position formatters over {a,B,ab}", exhaustive_cases(4, ["0", "1", "2"])
