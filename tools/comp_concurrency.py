"""component plugin: Singleton<T>::instance() and ManagedThread under every schedule (C20)"""
import concurrent.futures as cf
import importlib.util
import os
import random
import subprocess

import vlib
from vlib import Case

COMPONENT = "concurrency"
DRIVER = "model-concurrency"


def _translator():
    spec = importlib.util.spec_from_file_location(
        "translate_concurrency", os.path.join(vlib.VERIF, "translate", "concurrency.py"))
    mod = importlib.util.module_from_spec(spec)
    spec.loader.exec_module(mod)
    return mod


def translate_shared_state(repo, lean):
    """singleton.hpp / managed_thread.hpp -> Generated/SharedState.lean"""
    return _translator().translate(repo, lean)


PROPERTIES = {
    "C20": {
        "lean_module": "CelmaVerif.Props.C20",
        "kind": "relational",
        "translators": [translate_shared_state],
        "trusted": [
            "translate/concurrency.py (own tokeniser, declaration scanner, statement/expression parser and path-wise "
            "symbolic executor for singleton.hpp / managed_thread.hpp: shared objects are identified by declared type "
            "and use, file-local helpers are inlined, constants and aliases resolved; the set of paths of instance(), "
            "isActive() and the thread function is compared with the path sets of the shapes the model covers, anything "
            "else raises); its output (memory orders, atomic?, separate owner?, what return dereferences, position of the "
            "activity flag relative to std::thread) is the model's configuration",
            "hand-written interleaving model CelmaVerif/Model/Concurrency.lean (one micro step per shared access), tied "
            "by forced-schedule correspondence through the CELMA_VERIF_SYNC hooks (harness/concurrency.cpp, ASan+UBSan): "
            "same event trace, number of constructions, identities returned, isActive() samples",
            "ThreadSanitizer (g++ 12) on the un-hooked code as the oracle for data races, 2..16 racing threads",
            "std::mutex, std::thread, std::atomic as specified by the C++17 standard",
        ],
        "assumptions": [
            "sequentially consistent interleaving semantics; the step to the C++ memory model rests on the proved "
            "absence of races in the model's sense plus the extracted facts (atomic fast-path cell, acquire load, "
            "release store); weak-memory behaviour beyond that cannot be exhibited here (partial claim)",
            "Singleton::reset() is not called concurrently with instance() (it invalidates references by design)",
            "the user function of a ManagedThread does not throw (std::terminate otherwise, outside the property)",
            "the observer learns that the function has started / finished through its own synchronisation",
        ],
    }
}

RULE = ("one evaluation = one schedule (list of thread ids) run on the real code through the sync-point hooks and on "
        "the Lean model, or one TSan soak / lock probe; a `sig=` field gives the call signature (instantiation of "
        "instance< Args...>()) every thread uses, ignored by the model; distinct_nontrivial = distinct (operation, number of threads, "
        "set of sync points passed, blocked seen, constructions, threads returned / sample classes) tuples")


NOTE_FILES = ("soak_retry.notes",)

# --------------------------------------------------------------------------- machine load must not become a VIOLATION
# (coordinator report 2026-09-30: a 240 s kill switch turned a slow TSan batch on a loaded machine into
#  `VIOLATION property=C09 replay=...`, kind=crash.)  Wall-clock limits of this component are no-progress limits that
#  grow with the load, a run killed for not answering is repeated once alone with a much longer limit, and a run that
#  passes on the retry leaves a note that ends up in the evidence (`coverage.rule`, which check.py reads from the
#  plugin after the runs: there is no other hook for notes).

_WORK = [None]
_NOTES_SEEN = set()


def _load_factor():
    try:
        return max(1.0, os.getloadavg()[0] / max(1, os.cpu_count() or 1))
    except Exception:
        return 1.0


def _relax_batch_limit():
    """vlib.Pair kills a whole harness batch after its `timeout` (default 900 s) and check.py reports the missing
    lines as a crash of the property.  The harness side of this component has its own no-progress watchdogs, so the
    batch limit only has to stop a wrapper that is itself stuck: raise the default for this check process, scaled by
    the load.  (Work-around in the plugin; the clean change would be in vlib: a batch time-out is a broken tie, not
    a failing input.)"""
    try:
        d = vlib.Pair.__init__.__defaults__
        want = int(min(8 * 3600, 3600 * _load_factor()))
        if d and isinstance(d[-1], int) and d[-1] < want:
            vlib.Pair.__init__.__defaults__ = d[:-1] + (want,)
    except Exception:
        pass


def _pickup_retry_notes():
    """notes written by the harness side into the work directory -> RULE (evidence: coverage.rule) and the log"""
    global RULE
    w = _WORK[0]
    if not w:
        return
    for name in NOTE_FILES:
        path = os.path.join(w, name)
        try:
            with open(path) as f:
                notes = [l.strip() for l in f if l.strip()]
        except OSError:
            continue
        for n in notes:
            if n in _NOTES_SEEN:
                continue
            _NOTES_SEEN.add(n)
            vlib.log("note (not a failure): " + n)
            if isinstance(RULE, dict):
                for k in RULE:
                    RULE[k] = RULE[k] + " NOTE (load, not a failure): " + n
            else:
                RULE = RULE + " NOTE (load, not a failure): " + n


def build_harness(work, prop):
    """two binaries: hooked + ASan/UBSan (returned), un-hooked + TSan (`concurrency_tsan`, started by the first)"""
    os.makedirs(work, exist_ok=True)
    _WORK[0] = work
    _relax_batch_limit()
    tsan = os.path.join(work, "concurrency_tsan")

    def build_tsan():
        cmd = ["g++", "-std=c++17", "-O1", "-g", "-I" + os.path.join(vlib.REPO, "src"),
               "-I" + os.path.join(vlib.VERIF, "harness"), "-pthread"] + vlib.SAN_FLAGS["tsan"] + [
                   os.path.join(vlib.VERIF, "harness", "concurrency.cpp"), "-o", tsan]
        p = subprocess.run(cmd, stdout=subprocess.PIPE, stderr=subprocess.STDOUT, text=True)
        return p.returncode, p.stdout

    with cf.ThreadPoolExecutor(2) as ex:
        f1 = ex.submit(vlib.build_harness, work, "harness/concurrency.cpp")
        f2 = ex.submit(build_tsan)
        (binary, log1), (rc2, log2) = f1.result(), f2.result()
    if binary is None:
        return None, log1
    if rc2 != 0:
        return None, "TSan build of the un-hooked harness failed:\n" + log2[-4000:]
    return binary, ""


def diff_is_failure(prop, p):
    """The property constrains the outcome (at most one construction, one identity, isActive() in the two
    windows, no race); the harness evaluates exactly that itself ('!!' lines).  A trace or intermediate-count
    difference alone is a broken tie, not a failing input."""
    return False


def judge(prop, case, impl, model):
    """an oracle failure ('!!') anywhere in the case outranks a trace difference earlier in it"""
    _pickup_retry_notes()
    ops = ["case " + case.cid] + case.lines
    for i, op in enumerate(ops):
        a = impl[i] if i < len(impl) else None
        if a is not None and a.startswith("!!"):
            return [vlib.Problem("oracle", case, i, op, a, model[i] if i < len(model) else None)]
    return vlib.default_judge(case, impl, model)


def nontrivial_key(op, result):
    w = op.split(" ")
    r = (result or "").split(" ")
    if len(w) < 2:
        return None
    if w[1] in ("singleton", "managed") and len(w) >= 4:
        kv = dict(x.split("=", 1) for x in r[1:] if "=" in x)
        evs = frozenset(e.split(":", 1)[1] for e in kv.get("trace", "-").split(",") if ":" in e)
        if w[1] == "singleton":
            ids = kv.get("ids", "-").split(",")
            return (w[1], w[2], evs, kv.get("built"), sum(1 for i in ids if i not in ("-", "")), kv.get("conflict"),
                    "mixed-signatures" if len(w) > 4 else "")
        smp = frozenset(":".join(s.split(":")[1:]) for s in kv.get("samples", "-").split(",") if ":" in s)
        return (w[1], w[2], evs, smp)
    return (w[1], w[2] if len(w) > 2 else "", r[0], "mixed-signatures" if any(x.startswith("sig=") for x in w) else "")


def _driver_enum(args):
    drv = vlib.driver_path(DRIVER)
    if not os.path.exists(drv):
        return None
    try:
        p = subprocess.run([drv, "--enum"] + [str(a) for a in args], stdout=subprocess.PIPE, text=True,
                           timeout=int(min(3600, 300 * _load_factor())))
    except Exception:
        return None
    if p.returncode != 0:
        return None
    return [l.strip() for l in p.stdout.split("\n") if l.strip()]


def exhaustive_singleton(n, limit=10 ** 7):
    """every maximal stutter-free schedule of n threads racing for the first access (enumerated by the model)"""
    sc = _driver_enum(["singleton", n, limit])
    if sc is None:
        return []
    return [Case("xs%d.%d" % (n, i), ["conc singleton %d %s" % (n, s)]) for i, s in enumerate(sc)]


def exhaustive_managed(nobs, loads, limit=10 ** 6):
    sc = _driver_enum(["managed", nobs, loads, limit])
    if sc is None:
        return []
    return [Case("xm%d.%d.%d" % (nobs, loads, i), ["conc managed %d %s" % (nobs, s)]) for i, s in enumerate(sc)]


def random_singleton(rng, cid):
    n = rng.choice([2, 2, 3, 3, 4, 5, 8, 12, 16, rng.randint(2, 16)])
    sched = []
    style = rng.random()
    if style < 0.2:      # everybody passes the first check before anybody locks
        order = list(range(n))
        rng.shuffle(order)
        sched += order
    elif style < 0.35:   # one thread completes, the others take the fast path
        sched += [rng.randrange(n)] * 8
    length = rng.randint(0, 9 * n + 4)
    while len(sched) < length:
        t = rng.randrange(n) if rng.random() < 0.95 else n + rng.randint(0, 3)
        sched += [t] * rng.choice([1, 1, 1, 2, 3, 4, 8])
    if rng.random() < 0.6:   # let everybody finish: 8 steps each, in a random order, twice (blocked entries)
        for _ in range(2):
            order = list(range(n))
            rng.shuffle(order)
            for t in order:
                sched += [t] * 8
    return Case(cid, ["conc singleton %d %s" % (n, ",".join(map(str, sched)) or "-")])


def random_managed(rng, cid):
    nobs = rng.choice([1, 1, 2, 3, 5, 14])
    ids = [0, 1] + list(range(2, 2 + nobs))
    sched = []
    length = rng.randint(0, 24)
    while len(sched) < length:
        r = rng.random()
        t = 0 if r < 0.2 else 1 if r < 0.55 else rng.choice(ids[2:]) if r < 0.97 else 2 + nobs + rng.randint(0, 2)
        sched += [t] * rng.choice([1, 1, 1, 2])
    if rng.random() < 0.6:
        tail = [0, 0, 0, 1, 1, 1, 1, 1, 0] + [rng.choice(ids[2:])]
        sched += tail
    return Case(cid, ["conc managed %d %s" % (nobs, ",".join(map(str, sched)) or "-")])


def with_stutter(rng, case, cid):
    """an enumerated schedule with blocked / not-existing / finished thread ids sprinkled in, or cut short"""
    w = case.lines[0].split(" ")
    sched = [int(x) for x in w[3].split(",")] if w[3] != "-" else []
    n = int(w[2]) + (2 if w[1] == "managed" else 0)
    if rng.random() < 0.4 and sched:
        sched = sched[:rng.randint(0, len(sched))]
    out = []
    for t in sched:
        while rng.random() < 0.25:
            out.append(rng.randrange(n + 1))
        out.append(t)
    return Case(cid, [" ".join(w[:3] + [",".join(map(str, out)) or "-"])])


def delayed_constructor_cases():
    """The constructing thread is held up between the creation of the std::thread and the end of the
    ManagedThread constructor while the managed thread runs to completion; then the constructor finishes,
    join(), and observers query isActive() (oracle: inactive after join; active in every sample taken while the
    function runs).  The scheduler does not assume which thread passes which `managed.*` sync point: thread 0 is
    released as often as it takes whatever it finds on its way (entries for a thread that is finished or has to
    wait are stutter steps on both sides)."""
    cases = []
    i = 0
    for nobs in (1, 2):
        tails = [[2], [2, 2]] + ([[2, 3], [3, 2, 3]] if nobs == 2 else [])
        for k in (4, 5, 6, 7):                 # steps of the managed thread (5 to completion; 4: stops before its last store)
            for m in (1, 2, 3, 4):             # releases of the constructing thread afterwards (end of constructor, join)
                for tail in tails:
                    sched = [0, 0] + [1] * k + [0] * m + tail
                    cases.append(Case("dc%d" % i, ["conc managed %d %s" % (nobs, ",".join(map(str, sched)))]))
                    i += 1
        # the same with samples in between and the constructor finishing while the function runs
        for sched in ([0, 0, 1, 1, 2, 1, 1, 1, 1, 0, 0, 0, 2], [0, 0, 1, 1, 0, 2, 1, 1, 1, 0, 0, 2],
                      [0, 0, 1, 0, 0, 2, 1, 1, 2, 1, 1, 1, 0, 0, 2], [0, 0, 0, 1, 1, 1, 1, 1, 1, 0, 0, 2]):
            cases.append(Case("dc%d" % i, ["conc managed %d %s" % (nobs, ",".join(map(str, sched)))]))
            i += 1
    return cases


SIG_SETS = [[0, 1], [1, 0], [1, 2], [0, 2], [0, 1, 2], [2, 1, 0], [0, 1, 1], [1, 0, 0]]


def mixed_signature_schedule(rng, n, sigs):
    """a schedule for `conc singleton <n> <sched> sig=...`: threads that race for the first access through DIFFERENT
    instantiations of the member template Singleton<T>::instance< Args...>() (seeded/C20-4: a function-local static mutex
    is one mutex per instantiation).  Random walk over the model's program counters (read1, lock, read2, construct, store,
    unlock, read3) that (a) lets most threads pass the unlocked first check before anybody stores, (b) sends, while a
    thread is in the locked part, a thread WITH ANOTHER SIGNATURE into lock() -- the harness really releases it there and
    expects it not to come out (the model: `blocked`) --, and (c) never schedules another thread at `lock` between the
    holder's unlock and the entry that lets that waiting thread take the mutex (the real mutex is already its own then)."""
    R1, LOCK, R2, CONS, STORE, UNLOCK, R3, DONE = range(8)
    pc = [R1] * n
    cell = False
    holder = pending = -1
    sched = []
    sg = lambda t: sigs[t % len(sigs)]
    guard = 0
    while any(x != DONE for x in pc) and guard < 40 * n + 40:
        guard += 1
        live = [t for t in range(n) if pc[t] != DONE]
        reserved = [t for t in live if pc[t] == LOCK and holder < 0 and pending >= 0 and t != pending]
        cand = [t for t in live if t not in reserved]
        r = rng.random()
        t = None
        at_r1 = [t_ for t_ in cand if pc[t_] == R1]
        if at_r1 and not cell and r < 0.55:
            t = rng.choice(at_r1)                                  # (a)
        elif holder >= 0 and pending < 0 and r < 0.8:
            other = [t_ for t_ in cand if pc[t_] == LOCK and sg(t_) != sg(holder)]
            if other:
                t = rng.choice(other)                              # (b)
        elif holder < 0 and pending >= 0 and r < 0.7:
            t = pending
        if t is None:
            t = rng.choice(cand)
        if rng.random() < 0.08:
            sched.append(rng.choice([x for x in range(n) if pc[x] == DONE] + [n, n + 1]))     # stutter entry
        sched.append(t)
        if pc[t] == R1:
            pc[t] = R3 if cell else LOCK
        elif pc[t] == LOCK:
            if holder >= 0:
                if pending < 0:
                    pending = t                                    # released into lock(), stays there
            else:
                holder = t
                pc[t] = R2
                if pending == t:
                    pending = -1
        elif pc[t] == R2:
            pc[t] = UNLOCK if cell else CONS
        elif pc[t] == CONS:
            pc[t] = STORE
        elif pc[t] == STORE:
            cell = True
            pc[t] = UNLOCK
        elif pc[t] == UNLOCK:
            holder = -1
            pc[t] = R3
        elif pc[t] == R3:
            pc[t] = DONE
    return sched


def mixed_signature_cases(rng, quick):
    """forced schedules + lock probes + TSan soaks with at least two different instance< Args...>() instantiations of
    the same T; the model ignores the `sig=` field (one class-wide mutex), so its answer is the expectation"""
    cases = [Case("probe-sig%d" % i, ["conc probe-lock sig=%s" % ",".join(map(str, sg))])
             for i, sg in enumerate([[0, 1], [1, 0], [1, 2], [2, 0]])]
    # the schedule of the defect, spelled out: both pass the first check, thread 0 takes the mutex, thread 1 (other
    # signature) must wait in lock() until thread 0 has stored and unlocked, then sees the object under the mutex
    for i, sg in enumerate([[0, 1], [1, 0], [1, 2]]):
        cases.append(Case("sig-w%d" % i, ["conc singleton 2 0,1,0,1,0,0,0,1,0,0,1,1,1,1 sig=%s" % ",".join(map(str, sg))]))
        # the same with the waiting thread scheduled after every step of the holder (in a tree in which it is NOT kept
        # out it re-reads the cell before the holder has stored: second construction)
        cases.append(Case("sig-x%d" % i, ["conc singleton 2 0,1,0,1,0,1,0,1,0,1,0,1,0,1,1,1,1 sig=%s" % ",".join(map(str, sg))]))
    sizes = [2, 2, 2, 3, 3, 3, 4, 4, 2, 3, 8, 5] if quick else [2, 3, 4] * 20 + [5, 6, 8, 12, 16] * 4
    for i, n in enumerate(sizes):
        sg = rng.choice(SIG_SETS)
        cases.append(Case("sig%d" % i, ["conc singleton %d %s sig=%s" % (
            n, ",".join(map(str, mixed_signature_schedule(rng, n, sg))), ",".join(map(str, sg)))]))
    rounds = 30 if quick else 200
    for n, sg in ([(2, [0, 1]), (3, [1, 2]), (8, [0, 1, 2]), (16, [0, 1])] if quick else
                  [(n, SIG_SETS[n % len(SIG_SETS)]) for n in range(2, 17)]):
        cases.append(Case("soak-sig%d" % n, ["conc soak singleton %d %d sig=%s" % (n, rounds, ",".join(map(str, sg)))]))
    return cases


def generate(prop, tier, seed, scale=1):
    rng = random.Random("%s-%s" % (prop, seed))
    quick = tier == "quick"
    # decisive, cheap batches first (check.py stops collecting after 25 problems, tie-only differences included)
    yield "lock probe", [Case("probe%d" % i, ["conc probe-lock"]) for i in range(2)]
    yield ("first access through at least two different instantiations of the member template instance< Args...>() of "
           "the same T (instance(), instance( 32), instance( lvalue)): lock probes, forced schedules in which a thread with "
           "another call signature is really sent into lock() while the mutex is held, TSan soaks"), \
        mixed_signature_cases(random.Random("%s-%s-sig" % (prop, seed)), quick)
    yield ("managed thread: constructing thread delayed between thread creation and the end of the constructor, "
           "managed thread runs to completion, join, isActive()"), delayed_constructor_cases()
    rounds = 40 if quick else 400
    soak = [Case("soak-s%d" % n, ["conc soak singleton %d %d" % (n, rounds)]) for n in ([2, 3, 8, 16] if quick else range(2, 17))]
    soak += [Case("soak-m%d" % n, ["conc soak managed %d %d" % (n, rounds)]) for n in ([1, 4, 15] if quick else range(1, 16))]
    yield "tsan soak of the un-hooked code", soak
    x2 = exhaustive_singleton(2)
    xm = exhaustive_managed(1, 1) + exhaustive_managed(1, 2) + exhaustive_managed(2, 1)
    if x2:
        yield "exhaustive singleton: all schedules of 2 threads", x2
    if xm:
        yield "exhaustive managed thread: all schedules, 1 observer x <=2 loads, 2 observers x 1 load", xm
    if not quick:
        x3 = exhaustive_singleton(3)
        if x3:
            yield "exhaustive singleton: all schedules of 3 threads", x3
        xm2 = exhaustive_managed(2, 2) + exhaustive_managed(1, 3)
        if xm2:
            yield "exhaustive managed thread: 2 observers x 2 loads, 1 observer x 3 loads", xm2
    base = x2 + xm + ([] if quick else exhaustive_singleton(3, 3000))
    nst = (300 if quick else 6000) * scale
    if base:
        yield "enumerated schedules with stutter entries / cut short", [
            with_stutter(rng, rng.choice(base), "st%d" % i) for i in range(nst)]
    nr = (1200 if quick else 30000) * scale
    cases = []
    for i in range(nr):
        cases.append(random_singleton(rng, "rs%d" % i) if i % 3 else random_managed(rng, "rm%d" % i))
    yield "random schedules, 2..16 threads", cases
