"""component plugin: ArgString2Array / splitString (C07, string-splitting half; allocation part of C04)"""
import itertools
import random

import vlib
from vlib import Case, Problem

COMPONENT = "argstring"
DRIVER = "model-argstring"

PROPERTIES = {
    "C07": {
        "lean_module": "CelmaVerif.Props.C07",
        "kind": "functional",
        "trusted": [
            "hand-written model CelmaVerif/Model/ArgString.lean of splitString()/copyArguments()/the two "
            "ArgString2Array constructors in src/library/appl/arg_string_2_array.cpp, tied by the correspondence "
            "run (harness/arg_string.cpp, in-process, ASan+UBSan) on every invocation",
            "the specification-side definitions escape / render / Quotes / joinSp in the same file",
            "strcpy/strlen semantics (copy up to and including the first NUL) as modelled by cstr/newStrcpy",
            "STAGE: only the string-splitting half of C07 is covered here; the file / environment-source half "
            "belongs to the argument-handler model",
        ],
        "assumptions": [
            "the program name passed to the two-argument constructor is a NUL-terminated C string (or nullptr)",
            "operator new does not fail (no exception-safety claim for a throwing allocation)",
        ],
    },
    # C04 for the argv array built from a string (arg_string_2_array.cpp is one of C04's anchored files): allocation
    # size and matching deallocation of every word and of the program-name copy (both constructors), under ASan
    # (heap-buffer-overflow, alloc-dealloc-mismatch, double free) — served besides the progargs and containers plugins
    "C04": {
        "lean_module": "CelmaVerif.Props.C07",
        "kind": "relational",
        "trusted": [
            "hand-written model CelmaVerif/Model/ArgString.lean of copyArguments() and the two ArgString2Array "
            "constructors (checked writes into exact-size blocks: C07_argv_safe1/2, C07_argv_alloc_needed); tied by the "
            "correspondence run of harness/arg_string.cpp (construction AND destruction of the real object per line, "
            "ASan+UBSan)",
        ],
        "assumptions": ["operator new does not fail", "the program name is a NUL-terminated C string or nullptr"],
    },
}

RULE = ("one evaluation = one `as split`/`as split2` line run on the real ArgString2Array (ASan/UBSan) and on the Lean model; "
        "distinct_nontrivial = distinct (operation, word-count class 0/1/2/3+, set of special characters present in "
        "the input among blank/tab/'/\"/backslash/NUL, well-formed-quoting yes/no, result class) tuples")

ALPHA = [0x61, 0x62, 0x20, 0x09, 0x27, 0x22, 0x5c]          # a b blank tab ' " backslash
SPECIAL = {0x20, 0x27, 0x22, 0x5c}


def hexs(bs):
    return "".join("%02x" % b for b in bs) or "-"


def unhex(h):
    return [] if h == "-" else [int(h[i:i + 2], 16) for i in range(0, len(h), 2)]


def build_harness(work, prop):
    return vlib.build_harness(work, "harness/arg_string.cpp", ["src/library/appl/arg_string_2_array.cpp"])


# ---------------------------------------------------------------------------------------------
# reference decoder for the property's own oracle: the grammar of `Quotes` (DESIGN.md C07),
# written independently of the C++ and of the Lean model


def reference_words(bs):
    """words of a blank-separated sequence of quoted spellings, or None when the text is not
    well-formed (unterminated quote, lone trailing backslash) — outside the property's domain"""
    words, cur, started = [], [], False
    i, n = 0, len(bs)
    while i < n:
        c = bs[i]
        if c == 0x5c:
            if i + 1 >= n:
                return None
            cur.append(bs[i + 1]); started = True
            i += 2
        elif c in (0x27, 0x22):
            j = i + 1
            while True:
                if j >= n:
                    return None
                if bs[j] == 0x5c:
                    if j + 1 >= n:
                        return None
                    cur.append(bs[j + 1]); j += 2
                elif bs[j] == c:
                    break
                else:
                    cur.append(bs[j]); j += 1
            started = True
            i = j + 1
        elif c == 0x20:
            if started and not cur:
                return None            # an empty word was spelled ('' or ""): outside "non-empty words"
            if cur:
                words.append(cur)
            cur, started = [], False
            i += 1
        else:
            cur.append(c); started = True
            i += 1
    if started and not cur:
        return None
    if cur:
        words.append(cur)
    return words


def expected_line(op):
    t = op.split(" ")[1:]
    if not t or t[0] not in ("split", "split2"):
        return None
    bs = unhex(t[1])
    if 0 in bs:
        return None
    ws = reference_words(bs)
    if ws is None:
        return None
    if t[0] == "split2":
        name = list(b"programname") if t[2] == "null" else unhex(t[2])
        if 0 in name:
            return None
        ws = [name] + ws
    return " ".join(["ok argc=%d" % len(ws)] + [hexs(w) for w in ws])


def judge(prop, case, impl, model):
    probs = []
    ops = ["case " + case.cid] + case.lines
    for i, op in enumerate(ops):
        a = impl[i] if i < len(impl) else None
        b = model[i] if i < len(model) else None
        if a is not None and a.startswith("!!"):
            probs.append(Problem("oracle", case, i, op, a, b))
            break
        if (a is not None and a.startswith("bad-op")) or (b is not None and b.startswith("bad-op")):
            probs.append(Problem("badop", case, i, op, a, b))
            break
        if i > 0 and a is not None:
            exp = expected_line(op)
            if exp is not None and a != exp:
                probs.append(Problem("oracle", case, i, op, a, b, detail="expected by the quoting grammar: " + exp))
                break
        if a != b:
            probs.append(Problem("diff", case, i, op, a, b))
            break
    return probs


def diff_is_failure(prop, p):
    """Outside the quoting grammar (unterminated quote, trailing backslash, NUL bytes) the property
    does not fix the words: a model/implementation difference there is a broken tie only."""
    return expected_line(p.line) is not None


def nontrivial_key(op, result):
    t = op.split(" ")[1:]
    if not t or t[0] not in ("split", "split2"):
        return None
    bs = unhex(t[1])
    r = (result or "").split(" ")
    argc = int(r[1][5:]) if len(r) > 1 and r[1].startswith("argc=") else -1
    feats = tuple(sorted({c for c in bs if c in (0x20, 0x09, 0x27, 0x22, 0x5c, 0)}))
    return (t[0], min(argc, 3), feats, reference_words(bs) is not None, r[0])


# ---------------------------------------------------------------------------------------------
# generators


def esc(w):
    out = []
    for c in w:
        if c in SPECIAL:
            out.append(0x5c)
        out.append(c)
    return out


def quoted(qc, w):
    out = [qc]
    for c in w:
        if c == qc or c == 0x5c:
            out.append(0x5c)
        out.append(c)
    return out + [qc]


def mixed(rng, w):
    """a random concatenation of segments spelling w"""
    out, i = [], 0
    while i < len(w):
        k = rng.randint(1, 3)
        seg = w[i:i + k]
        i += k
        style = rng.randrange(4)
        if style == 0:
            out += esc(seg)
        elif style == 1:
            out += quoted(0x27, seg)
        elif style == 2:
            out += quoted(0x22, seg)
        else:
            out += [x for c in seg for x in (0x5c, c)]      # backslash before every character
        if rng.random() < 0.1:
            out += rng.choice([[0x27, 0x27], [0x22, 0x22]])   # an empty quoted segment inside a word
    return out


def rand_word(rng, pool):
    return [rng.choice(pool) for _ in range(rng.choice([1, 1, 2, 2, 3, 4, 6, 9]))]


def quoted_case(rng):
    pool = rng.choice([ALPHA, ALPHA, ALPHA + [0x2d, 0x3d, 0x2c], list(range(1, 256))])
    ws = [rand_word(rng, pool) for _ in range(rng.choice([0, 1, 1, 2, 3, 3, 5, 8]))]
    style = rng.randrange(5)
    qs = []
    for w in ws:
        s = style if style < 4 else rng.randrange(4)
        qs.append([esc(w), quoted(0x27, w), quoted(0x22, w), mixed(rng, w)][s])
    pad = rng.random() < 0.3
    out = []
    for i, q in enumerate(qs):
        if i:
            out += [0x20] * (rng.randint(1, 3) if pad else 1)
        out += q
    if pad:
        out = [0x20] * rng.randint(0, 2) + out + [0x20] * rng.randint(0, 2)
    return out


def random_string(rng):
    pool = rng.choice([ALPHA, ALPHA, ALPHA, ALPHA + [0], ALPHA + [0x2d, 0x3d], list(range(0, 256))])
    return [rng.choice(pool) for _ in range(rng.choice([0, 1, 2, 3, 5, 8, 13, 21, 40]))]


def prog_name(rng):
    r = rng.random()
    if r < 0.25:
        return "null"
    n = rng.choice([0, 1, 2, 10, 11, 12, 13, 31, 64, 300])
    return hexs([rng.choice([0x61, 0x2f, 0x2e, 0x20, 0x5c, 0x27]) for _ in range(n)])


def exhaustive_cases(max_len, per_case=64):
    ops = []
    for L in range(0, max_len + 1):
        for tup in itertools.product(ALPHA, repeat=L):
            ops.append("as split " + hexs(tup))
    # the two-argument constructor over the same strings up to length 3, with and without a name
    for L in range(0, min(max_len, 3) + 1):
        for tup in itertools.product(ALPHA, repeat=L):
            ops.append("as split2 %s null" % hexs(tup))
            ops.append("as split2 %s 70" % hexs(tup))
    return [Case("x%d" % (i // per_case), ops[i:i + per_case]) for i in range(0, len(ops), per_case)]


def generate(prop, tier, seed, scale=1):
    # the exhaustive space first, shortest strings first: a failure is then reported on a minimal input
    if tier == "quick":
        yield "exhaustive strings len<=4 over {a,b,blank,tab,',\",\\}", exhaustive_cases(4)
    else:
        yield "exhaustive strings len<=6 over {a,b,blank,tab,',\",\\}", exhaustive_cases(6)
    rng = random.Random("%s-%s" % (prop, seed))
    n = (3000 if tier == "quick" else 60000) * scale
    cases = []
    for i in range(n):
        lines = []
        for _ in range(8):
            bs = quoted_case(rng) if rng.random() < 0.6 else random_string(rng)
            if rng.random() < 0.25:
                lines.append("as split2 %s %s" % (hexs(bs), prog_name(rng)))
            else:
                lines.append("as split " + hexs(bs))
        cases.append(Case("g%d" % i, lines))
    yield "generated", cases
