"""component plugin: the argument handler (C01, C02, C03, C04, C08; C07's source half; the handler part of C06: which
destination a free value is routed to)"""
import glob
import os
import random

import sys

import vlib
from vlib import Case, Problem
import gen_progargs as G

sys.path.insert(0, os.path.join(vlib.VERIF, "translate"))
import handler_alloc  # noqa: E402

COMPONENT = "progargs"
DRIVER = "model-progargs"

FRAGMENT = ("modelled fragment: destinations flag/int/string/LevelCounter/vector<int> (optionally multi-value), checks "
            "lower/upper/range/values/minLength/maxLength/pattern (std::regex_match through the executable matcher "
            "Model/Regex.lean on a restricted ECMAScript subset: literals, '.', classes, \\d \\w \\s, * + ?, |, groups, "
            "^ $), cardinalities none/max/exact/range, constraints requires/excludes, handler constraints "
            "all-of/any-of/one-of and the value constraints differ (int/string) / disjoint (two vector<int>), "
            "value formatters uppercase / lowercase on string and int arguments (checks see the text as typed, the "
            "string destination holds the formatted text), "
            "abbreviations on/off, argument file and environment variable sources, evaluation through Groups, "
            "sub-groups as a handler tree of depth 2 (sub-group arguments with mandatory flag / cardinality / "
            "requires-excludes constraints, the sub handler's own abbreviation flag, lookup over both containers, "
            "also through Groups); not modelled: nested sub-groups of depth > 2, usage/summary output of sub-groups "
            "(C18 covers usage), bracket handlers, inversion, value mode 'command', callables, formatters other than "
            "uppercase / lowercase (anycase, format functions, positional formatters: the latter are in the containers "
            "component), pair/range/other destinations, floating point, patterns outside the subset (back-references, "
            "look-ahead, counted repetition, POSIX classes)")
TRUST = [
    "hand-written models CelmaVerif/Model/ProgArgs/{Iter,Handler,Groups,SubGroups}.lean, Model/Keys.lean, Model/KeysSub.lean, Model/ArgString.lean, "
    "tied to handler.cpp / arg_list_iterator.hpp / typed_arg*.{hpp,cpp} / constraint_*.cpp / cardinality_*.cpp / "
    "check_*.hpp / groups.cpp by the correspondence run (harness/prog_args.cpp: real Handler/Groups objects, "
    "ASan+UBSan) on every invocation",
    "boost::lexical_cast<int> = optional sign + decimal digits + range check; boost::char_separator drops empty tokens",
    "Model/Regex.lean (Brzozowski derivatives) agrees with libstdc++ std::regex_match on the pattern subset: exercised by "
    "every run (generator PATTERNS with matching and non-matching values, expectation checked on the implementation)",
    FRAGMENT,
]

PROPERTIES = {
    "C01": {"lean_module": "CelmaVerif.Props.C01", "obligation_modules": ["CelmaVerif.Props.C04s"],
            "kind": "functional", "trusted": TRUST,
            "assumptions": ["claimed for the modelled fragment only", "floating-point destinations are not modelled"]},
    "C02": {"lean_module": "CelmaVerif.Props.C02", "obligation_modules": ["CelmaVerif.Props.C02b", "CelmaVerif.Props.C04s", "CelmaVerif.Props.C08s"],
            "kind": "relational", "trusted": TRUST,
            "assumptions": ["claimed for the modelled fragment only"]},
    "C03": {"lean_module": "CelmaVerif.Props.C03", "obligation_modules": ["CelmaVerif.Props.C04s"],
            "kind": "functional", "trusted": TRUST,
            "assumptions": ["claimed for the modelled fragment only",
                            "order-sensitive rules in the documented sense: requiring/excluding argument first"]},
    "C04": {"lean_module": "CelmaVerif.Props.C04", "obligation_modules": ["CelmaVerif.Props.C04s"],
            "kind": "relational", "translators": [handler_alloc.translate],
            "trusted": TRUST + [
                "translate/handler_alloc.py (regex over handler.cpp: size expression and owner type of the two "
                "program-name copies); ArgString2Array::copyArguments as modelled in Model/ArgString.lean (C07_argv_safe*)",
                "heap discipline of std:: and Boost objects used by the handler is not modelled: that part rests on the "
                "ASan/UBSan verdict of the correspondence runs"],
            "assumptions": ["argc >= 1 (a program name is always present)"]},
    # C06 is the property of the container destinations (component `containers`); the part of it that lives in the
    # HANDLER - which destination a free value is routed to (`Handler::mpLastArg`: every identified key, also a
    # sub-group argument's, ends the value list of the multi-value argument used before) - is served here
    "C06": {"lean_module": "CelmaVerif.Props.C06s", "obligation_modules": [],
            "kind": "functional", "trusted": TRUST,
            "assumptions": ["claimed for the modelled fragment only (of the container destinations the handler model "
                            "has vector<int>; the fold itself is the containers component's part of C06)"]},
    "C07": {"lean_module": "CelmaVerif.Props.C07", "obligation_modules": ["CelmaVerif.Props.C07b", "CelmaVerif.Props.C04s"],
            "kind": "functional", "trusted": TRUST,
            "assumptions": ["claimed for the modelled fragment only",
                            "the std::getline loop over the bytes of the argument file is modelled by fileLines (exercised by the fileraw= cases: last line terminated or not); no NUL inside a word"]},
    "C08": {"lean_module": "CelmaVerif.Props.C08", "obligation_modules": ["CelmaVerif.Props.C08s"],
            "kind": "functional", "trusted": TRUST,
            "assumptions": ["claimed for the modelled fragment only",
                            "constraint partners and the arguments of one handler constraint live in the same member"]},
}

RULE = ("a case = one configuration + several evaluations; one evaluation = one argv (hex words) run through a fresh real "
        "Handler/Groups and through the Lean model; every generated line also carries the generator's own expectation "
        "(destinations computed from the abstract command line, or 'must throw' for a rule-breaking mutation) which is "
        "checked on the implementation alone; distinct_nontrivial = distinct (operation kind, mutation/spelling label, "
        "result class) triples")


def repo_sources():
    srcs = []
    for d in ["prog_args", "prog_args/detail", "common", "common/detail", "format", "format/detail", "appl",
              "container", "container/detail"]:
        srcs += sorted(glob.glob(os.path.join(vlib.REPO, "src/library", d, "*.cpp")))
    return [os.path.relpath(s, vlib.REPO) for s in srcs if "print_version_info" not in s]


def build_harness(work, prop):
    return vlib.build_harness(work, "harness/prog_args.cpp", repo_sources())


def words_hex(ws):
    return " ".join(G.hx(w) for w in ws)


def file_opt(rng, lines):
    """the argument file as an option of `pa eval`: line by line (`file=`, the harness terminates every line), or
    the bytes as they are (`fileraw=`) - with the last line terminated or not"""
    if not lines:
        return "file=-"
    if rng.random() < 0.6 or any("\n" in l for l in lines):
        return "file=" + "|".join(G.hx(l) for l in lines)
    return "fileraw=" + G.hx("\n".join(lines) + ("\n" if rng.random() < 0.4 else ""))


def make_case(rng, cid, what):
    """what: set of batches wanted: valid, broken, sources, groups, raw"""
    if what & {"valid", "broken", "groups", "raw"} and rng.random() < 0.3:
        return subgroup_case(rng, cid, what)
    if "sources" in what and rng.random() < 0.3:
        return source_multi_case(rng, cid)
    if ("valid" in what or "broken" in what) and rng.random() < 0.12:
        return constraint_spelling_case(rng, cid)
    if ("valid" in what or "broken" in what) and rng.random() < 0.08:
        return positional_case(rng, cid)
    if ("valid" in what or "broken" in what or "groups" in what) and rng.random() < 0.08:
        return value_constraint_case(rng, cid)
    if ("valid" in what or "broken" in what) and rng.random() < 0.05:
        return pattern_case(rng, cid)
    if "groups" in what and rng.random() < 0.25:
        return group_freevalue_case(rng, cid)
    if "groups" in what and rng.random() < 0.2:
        return group_define_case(rng, cid)
    for _ in range(50):
        args, globs, abbr = G.gen_config(rng)
        uses = G.gen_uses(rng, args, globs)
        if uses is not None:
            break
    else:
        return None
    lines = G.cfg_lines(args, globs, abbr)

    def add(line, expect, label):
        # the generator's expectation and label travel inside the line (options both sides ignore), so that they
        # survive shrinking
        w = line.split(" ")
        if w[1] in ("eval", "group", "gdef"):
            ann = ["x-lbl=" + label.replace(" ", "_")]
            if expect is not None:
                ann.append("x-exp=" + G.hx(expect))
            line = " ".join(w[:2] + ann + w[2:])
        lines.append(" ".join(line.split()))

    want = G.expected(args, uses)
    if "valid" in what:
        for _ in range(rng.randint(2, 5)):
            ws = G.spell(rng, args, uses, abbr)
            if ws is not None:
                add("pa eval -- " + words_hex(ws), want, "valid")
        # a second abstract line in another order of distinct arguments: same expectation machinery
        uses2 = G.gen_uses(rng, args, globs)
        if uses2 is not None:
            ws = G.spell(rng, args, uses2, abbr)
            if ws is not None:
                add("pa eval -- " + words_hex(ws), G.expected(args, uses2), "valid")
    if "broken" in what:
        for _ in range(rng.randint(2, 5)):
            r = G.break_rule(rng, args, globs, uses, abbr)
            if r is not None and r[1] is not None:
                add("pa eval -- " + words_hex(r[1]), "throw", "broken:" + r[0])
    if "sources" in what:
        # deliver a prefix of the uses through the file, a middle part through the environment
        # known finding C07 list-cardinality-from-file: list elements after the first are counted although they
        # come from a file / the environment, so an exact/range cardinality is judged on a partial count; such
        # arguments stay on the command line here (the witness of the finding is replayed separately)
        def partial_count(u):
            a_ = args[u[0]]
            return a_.kind == "vec" and a_.card is not None and a_.card.split(":")[0] in ("exact", "range")
        lim = len(uses)
        for k_, u_ in enumerate(uses):
            if partial_count(u_):
                lim = k_
                break
        a = rng.randint(0, lim)
        b = rng.randint(a, lim)
        parts = [uses[:a], uses[a:b], uses[b:]]
        fl, ok = [], True
        k = 0
        while k < a:
            take = rng.randint(1, a - k)
            ws = G.spell(rng, args, uses[k:k + take], abbr)
            k += take
            if ws is None:
                ok = False
                break
            q = [G.quote_word(rng, w) for w in ws]
            if any(x is None for x in q):
                ok = False
                break
            if rng.random() < 0.3:
                fl.append(rng.choice(["# a comment", "", "#-x 5"]))
            fl.append(" ".join(q) + (" " if rng.random() < 0.2 else ""))
        ews = G.spell(rng, args, parts[1], abbr) if parts[1] else []
        aws = G.spell(rng, args, parts[2], abbr) if parts[2] else []
        if ok and ews is not None and aws is not None:
            eq = [G.quote_word(rng, w) for w in ews]
            if all(x is not None for x in eq):
                opts = []
                if fl or rng.random() < 0.3:
                    opts.append(file_opt(rng, fl))
                if eq:
                    opts.append("env=" + G.hx(" ".join(eq)))
                add("pa eval %s -- %s" % (" ".join(opts), words_hex(aws)), want, "sources")
        # override: scalar given by the file and again on the command line
        sc = [(i, p) for i, p in uses if args[i].kind in ("int", "str")]
        if sc:
            i, p = rng.choice(sc)
            other = G.gen_value(rng, args[i])
            pre = G.spell(rng, args, [(i, other)], abbr)
            ws = G.spell(rng, args, uses, abbr)
            if pre is not None and ws is not None:
                q = [G.quote_word(rng, w) for w in pre]
                if all(x is not None for x in q):
                    # the file use comes first: it must not violate an ordering rule (an excluded argument used
                    # before its excluder is fine, a required one before its requirer is not satisfied later) -
                    # only taken when the argument takes part in no constraint
                    involved = any(i in tgt for a_ in args for _, tgt, _s in a_.cons) or args[i].cons or \
                        any(i in mem for _, mem, _s in globs)
                    if not involved:
                        add("pa eval %s -- %s" % (file_opt(rng, [" ".join(q)]), words_hex(ws)), want, "override")
    if "sources" in what:
        # override beyond the cardinality: values from the file / the environment do not count, so an argument with a
        # finite maximum may get more than the maximum there and still its full share on the command line
        single = set(m for kind, mem, _s in globs if kind in ("anyof", "oneof") for m in mem)
        cand = [i for i, a_ in enumerate(args)
                if a_.kind in ("int", "str", "vec") and a_.maxuses() < 99 and not a_.cons and i not in single
                and not any(i in mem_ for _k, mem_, _s in globs if _k in ("differ", "disjoint"))
                and not any(i in tgt for b_ in args for _, tgt, _s in b_.cons) and any(u[0] == i for u in uses)]
        if cand:
            i = rng.choice(cand)
            a_ = args[i]
            m = a_.maxuses()
            key = ("-" + a_.short) if a_.short else ("--" + a_.long)
            if a_.kind == "vec":
                vals = [rng.randint(max(a_.lo, 0), 40) for _ in range(m + 1)]
                if a_.multi and rng.random() < 0.6:
                    srcwords = [key] + [str(v) for v in vals]                       # free values
                else:
                    srcwords = [w for v in vals for w in (key, str(v))]             # one use per value
                extra = [(i, ("vec", vals))]
            else:
                pv = [G.gen_value(rng, a_) for _ in range(m + 1)]
                srcwords = [w for v in pv for w in (key, v[0])]
                extra = [(i, v) for v in pv]
            if all(G.next_word_ok(w) or w == key for w in srcwords):
                aws = G.spell(rng, args, uses, abbr)
                if aws is not None:
                    want2 = G.expected(args, uses, extra_first=extra)
                    if rng.random() < 0.5:
                        opt = file_opt(rng, [" ".join(srcwords)])
                    else:
                        opt = "env=" + G.hx(" ".join(srcwords))
                    add("pa eval %s -- %s" % (opt, words_hex(aws)), want2, "override-cardinality")
    if "groups" in what and len(args) >= 2:
        # partition keeping constraint partners and handler-constraint members together
        n = len(args)
        comp = list(range(n))

        def find(x):
            while comp[x] != x:
                x = comp[x]
            return x
        for i, a_ in enumerate(args):
            for _, tgt, _s in a_.cons:
                for j in tgt:
                    comp[find(i)] = find(j)
        for _, mem, _s in globs:
            for j in mem[1:]:
                comp[find(mem[0])] = find(j)
        k = rng.randint(1, 3)
        assign = {}
        for i in range(n):
            r = find(i)
            if r not in assign:
                assign[r] = rng.randrange(k)
        mem = "".join(str(assign[find(i)]) for i in range(n))
        # known finding C08 group-abbreviation-shadows-exact: members resolve abbreviations on their own, in
        # registration order, so a long key of one member that is a proper prefix of a long key of another member
        # can be taken by the wrong handler; configurations with such a pair are not evaluated through groups here
        if abbr and any(x.long and y.long and x is not y and y.long.startswith(x.long) and mem[ix] != mem[iy]
                        for ix, x in enumerate(args) for iy, y in enumerate(args)):
            return Case(cid, lines)
        gmem = "".join(str(assign[find(m[0])]) for _, m, _s in globs)
        used_m = sorted(set(mem + gmem))
        order = list(used_m)
        rng.shuffle(order)
        opt = "members=%s%s order=%s" % (mem, "/" + gmem if gmem else "", "".join(order))
        for _ in range(2):
            ws = G.spell(rng, args, uses, abbr)
            if ws is not None:
                add("pa group %s -- %s" % (opt, words_hex(ws)), want, "group-valid")
        for _ in range(2):
            r = G.break_rule(rng, args, globs, uses, abbr)
            if r is not None and r[1] is not None:
                add("pa group %s -- %s" % (opt, words_hex(r[1])), "throw", "group-broken:" + r[0])
        # free values behind a key of another member: a key (flag or key with value) ends the value list of a
        # multi-value argument, also when the two live in different members; the rest of the line is valid, so the
        # trailing free value is the only reason to refuse it
        refd = set(j for a_ in args for _, tgt, _s in a_.cons for j in tgt)
        free_ok = lambda i_: not args[i_].cons and i_ not in refd
        mv = [i_ for i_, a_ in enumerate(args) if a_.kind == "vec" and a_.multi and a_.maxuses() >= 99 and free_ok(i_)
              and not a_.checks]
        fl = [i_ for i_, a_ in enumerate(args) if a_.kind == "flag" and free_ok(i_)]
        vx = [i_ for i_, a_ in enumerate(args) if a_.kind in ("int", "str") and free_ok(i_)]
        if mv and (fl or vx) and not globs:
            i_ = rng.choice(mv)
            others = [("flag", j) for j in fl] + [("val", j) for j in vx]
            kind_, j = rng.choice(others)
            base = [u for u in uses if u[0] not in (i_, j)]
            bw = G.spell(rng, args, base, abbr)
            if bw is not None:
                keyof = lambda a_: ("-" + a_.short) if a_.short else ("--" + a_.long)
                tail = [keyof(args[i_]), "1", "2", keyof(args[j])]
                if kind_ == "val":
                    v_, vd_ = G.gen_value(rng, args[j])
                    if not G.next_word_ok(v_):
                        v_ = None
                    else:
                        tail.append(v_)
                if kind_ == "flag" or v_ is not None:
                    ok_line = bw + tail
                    bad_line = bw + tail + ["3"]
                    lbl = "free-value-after-" + kind_ + "-key"
                    exp_ok = G.expected(args, base + [(i_, ("vec", [1, 2])), (j, None if kind_ == "flag" else (v_, vd_))])
                    add("pa eval -- " + words_hex(ok_line), exp_ok, lbl + "-ok")
                    add("pa eval -- " + words_hex(bad_line), "throw", lbl)
                    for od in ("".join(order), "".join(reversed(order))):
                        opt2 = "members=%s%s order=%s" % (mem, "/" + gmem if gmem else "", od)
                        add("pa group %s -- %s" % (opt2, words_hex(ok_line)), exp_ok, "group-" + lbl + "-ok")
                        add("pa group %s -- %s" % (opt2, words_hex(bad_line)), "throw", "group-" + lbl)
    if "raw" in what:
        longname = False
        if rng.random() < 0.3:
            pn = rng.choice(["", "p", "/usr/bin/prog", "a/b/", "x" * rng.randint(1, 300), "./" + "y" * 15])
            longname = len(pn) > 200          # no file of that name can be created: the file source is not used then
            add("pa prog " + G.hx(pn), "ok", "prog")
        for _ in range(rng.randint(2, 6)):
            ws = G.raw_argv(rng, args)
            add("pa tokens " + words_hex(ws), None, "raw-tokens")
            add("pa rest " + words_hex(ws), None, "raw-rest")      # argsAsString( true/false) at every element
            opts = ""
            r = rng.random()
            if r < 0.2 and not longname:
                opts = "file=" + "|".join(G.hx(" ".join(G.raw_argv(rng, args))) for _ in range(rng.randint(0, 3)))
                if opts == "file=":
                    opts = "file=-"
            elif r < 0.35:
                e = " ".join(G.raw_argv(rng, args))
                if e.strip():
                    opts = "env=" + G.hx(e)
            add("pa eval %s -- %s" % (opts, words_hex(ws)), None, "raw-eval")
    return Case(cid, lines)


SG_PAIRS = [("out", "output"), ("out", "outfile"), ("in", "input"), ("input", "input-file"), ("val", "value"),
            ("value", "values"), ("num", "number"), ("max", "maxlen"), ("in", "input-dir")]
SG_VALUES = ["abc", "x", "hello", "Peter", "v1", "007", "q", "A"]
SG_CARDS = [None, None, None, "exact:2", "range:1:2", "range:2:3", "max:1"]


def sg_config(rng):
    """main handler: 2-4 plain arguments and 1-2 sub-group arguments, each sub handler with 2-3 arguments whose keys
    may equal keys of the main handler or of the other sub handler; long keys with common prefixes, often a plain long
    key that is a proper prefix of a sub-group long key or vice versa"""
    abbr = rng.randint(0, 1)
    n_plain, n_sub = rng.randint(2, 4), rng.randint(1, 2)
    n_top = n_plain + n_sub
    shorts = rng.sample(G.SHORTS, n_top)
    longs = [None] * n_top
    forced = set()
    if rng.random() < 0.65:
        a, b = rng.choice(SG_PAIRS)
        ip, isub = rng.randrange(n_plain), n_plain + rng.randrange(n_sub)
        if rng.random() < 0.5:
            longs[ip], longs[isub] = a, b        # the plain key is a proper prefix of the sub-group key
        else:
            longs[ip], longs[isub] = b, a
        forced = {ip, isub}
    pool = [l for l in G.LONGS if l not in longs]
    rng.shuffle(pool)
    for k in range(n_top):
        if longs[k] is None:
            longs[k] = pool.pop()
    keys = []
    for k in range(n_top):
        form = rng.choice(["short", "long", "both", "both"])
        if k in forced and form == "short":
            form = "both"
        keys.append((shorts[k] if form != "long" else None, longs[k] if form != "short" else None))
    kinds = ["flag", "int", "str", "vec"]
    plain = []
    for k in range(n_plain):
        plain.append(G.SgArg(keys[k][0], keys[k][1], kinds[k] if rng.random() < 0.5 else rng.choice(kinds)))
    if not any(a.kind == "flag" for a in plain):
        plain[rng.randrange(n_plain)].kind = "flag"
    # (a mandatory flag is refused at definition time by TypedArg< bool>::setIsMandatory: std::logic_error)
    nonflag = [a for a in plain if a.kind != "flag"]
    if nonflag and rng.random() < 0.3:
        rng.choice(nonflag).mandatory = True
    subs = []
    top_shorts = [x[0] for x in keys if x[0]]
    top_longs = [x[1] for x in keys if x[1]]
    for j in range(n_sub):
        n = rng.randint(2, 3)
        used_s, used_l, sargs = set(), set(), []
        for _ in range(n):
            prev_s = [a.short for sb in subs for a in sb.args if a.short]
            prev_l = [a.long for sb in subs for a in sb.args if a.long]
            for _try in range(20):
                sh = rng.choice(top_shorts + prev_s) if (top_shorts + prev_s) and rng.random() < 0.5 else rng.choice(G.SHORTS)
                lg = rng.choice(top_longs + prev_l) if (top_longs + prev_l) and rng.random() < 0.4 else rng.choice(G.LONGS)
                if sh not in used_s and lg not in used_l:
                    break
            else:
                continue
            form = rng.choice(["short", "long", "both", "both"])
            a = G.SgArg(sh if form != "long" else None, lg if form != "short" else None, rng.choice(kinds))
            if a.short:
                used_s.add(a.short)
            if a.long:
                used_l.add(a.long)
            # a mandatory argument of the SUB handler: by the code's design the sub handler's own end checks never
            # run, so leaving it out is NOT an error (verified on the real harness: `sg-sub-mandatory-ignored`)
            if a.kind != "flag" and rng.random() < 0.25:
                a.mandatory = True
            sargs.append(a)
        kj = keys[n_plain + j]
        sb = G.SgSub(kj[0], kj[1], sargs, abbr=rng.randint(0, 1), mandatory=rng.random() < 0.3, card=rng.choice(SG_CARDS))
        if rng.random() < 0.35:
            ip = rng.randrange(n_plain)
            pa = plain[ip]
            spell = rng.choice([x for x in (pa.short, pa.long, pa.keyspec()) if x])
            if rng.random() < 0.5:
                sb.req = (ip, spell)
            else:
                sb.excl = (ip, spell)
        subs.append(sb)
    return plain, subs, abbr


def sg_key_words(rng, a, level_longs, abbr, exact=False):
    """spellings of the key of `a` in a handler whose long keys are level_longs"""
    forms = []
    if a.short:
        forms.append("-" + a.short)
    if a.long:
        forms.append("--" + a.long)
        if abbr and not exact:
            for k in range(1, len(a.long)):
                p = a.long[:k]
                if p not in level_longs and sum(1 for l in level_longs if l.startswith(p)) == 1 and not p.endswith("-"):
                    forms.append("--" + p)
    return forms


def sg_use(rng, a, level_longs, abbr):
    """the words of one use of argument `a` (an SgArg) and nothing else"""
    key = rng.choice(sg_key_words(rng, a, level_longs, abbr))
    if a.kind == "flag":
        return [key]
    if a.kind == "vec":
        vals = [str(rng.randint(0, 40)) for _ in range(rng.randint(1, 3))]
        r = rng.random()
        if r < 0.5:
            return [key] + vals                                   # free values
        if r < 0.75 or not key.startswith("--"):
            return [key, ",".join(vals[:2])] + vals[2:]
        return ["%s=%s" % (key, ",".join(vals[:2]))] + vals[2:]
    v = str(rng.randint(0, 99)) if a.kind == "int" else rng.choice(SG_VALUES)
    if key.startswith("--"):
        return [key, v] if rng.random() < 0.6 else ["%s=%s" % (key, v)]
    return [key, v] if rng.random() < 0.6 else [key + v]


def subgroup_case(rng, cid, what):
    """sub-group arguments (`Handler::addArgument( spec, Handler& subGroup, desc)`): a main handler with plain and
    sub-group arguments, each sub handler with its own arguments and abbreviation flag.  Every line carries the
    expectation computed by the word-level reading of the documented behaviour in gen_progargs (`sg_expect`): after the
    sub-group key the elements go to the sub handler as long as it takes them, the first one it does not know goes
    back to the main handler; a key is looked up over both containers (exact first, an abbreviation must be unique
    over both); mandatory flag / cardinality / constraints of the sub-group argument are rules of the main handler;
    the sub handler's own end checks never run.  Through groups: the same expectation."""
    plain, subs, abbr = sg_config(rng)
    lines = ["pa cfg begin abbr=%d" % abbr]
    # definition order: a unified sequence of plain arguments and sub-group blocks (the indices stay: plain arguments
    # keep their relative order, sub-group arguments theirs)
    seq = [("p", i) for i in range(len(plain))]
    for j in range(len(subs)):
        seq.insert(rng.randint(0, len(seq)) if rng.random() < 0.5 else len(seq), ("s", j))
    pos_s = [k for k, x in enumerate(seq) if x[0] == "s"]
    for k, j in zip(pos_s, range(len(subs))):
        seq[k] = ("s", j)
    for typ, i in seq:
        lines += [plain[i].line()] if typ == "p" else subs[i].lines()
    lines.append("pa cfg end")
    top_longs = [a.long for a in plain if a.long] + [s.long for s in subs if s.long]
    out = []                                       # (label, words, must)

    def add(label, words, must=None):
        out.append((label, list(words), must))

    def use_p(i):
        return sg_use(rng, plain[i], top_longs, abbr)

    def key_s(j, exact=False):
        return rng.choice(sg_key_words(rng, subs[j], top_longs, abbr, exact))

    def use_s(j, a):
        sb = subs[j]
        return sg_use(rng, sb.args[a], [x.long for x in sb.args if x.long], sb.abbr)

    def visits_wanted(j, ok=True):
        sb = subs[j]
        c = sb.card
        lo = 1 if sb.mandatory else 0
        if c is None:
            return rng.choice([lo, 1, 1, 2])
        p = c.split(":")
        if p[0] == "exact":
            return int(p[1])
        if p[0] == "range":
            return rng.randint(int(p[1]), int(p[2]))
        return rng.randint(lo, int(p[1]))

    def scenario(skip_sub=None, nvis=None, partner="obey", plain_subset=None):
        """a line that obeys every rule as far as this generator can arrange it: plain uses, visits with 0..n uses of
        the sub handler's arguments (every scalar / flag at most once over all visits), in a random order; `partner`:
        obey / excl-after / req-missing / req-before"""
        chosen = [i for i, a in enumerate(plain) if a.mandatory or rng.random() < 0.5]
        if plain_subset is not None:
            chosen = list(plain_subset)
        first, last = [], []
        blocks = []
        for j, sb in enumerate(subs):
            n = visits_wanted(j) if nvis is None or j not in nvis else nvis[j]
            if skip_sub == j:
                n = 0
            avail = list(range(len(sb.args)))
            rng.shuffle(avail)
            for v in range(n):
                ws = [key_s(j)]
                k = rng.choice([0, 0, 1, 1, 2, 3])
                for _ in range(min(k, len(avail))):
                    a = avail.pop()
                    ws += use_s(j, a)
                blocks.append(ws)
            if n > 0:
                for con, typ in ((sb.req, "r"), (sb.excl, "x")):
                    if con is None:
                        continue
                    ip = con[0]
                    if ip in chosen:
                        chosen.remove(ip)
                    if ip in first or ip in last:
                        continue
                    if typ == "r":
                        if partner == "req-before":
                            first.append(ip)
                        elif partner != "req-missing":
                            last.append(ip)
                    else:
                        if partner == "excl-after":
                            last.append(ip)
                        elif rng.random() < 0.5:
                            first.append(ip)
        for i in chosen:
            if i not in first and i not in last:
                blocks.append(use_p(i))
        rng.shuffle(blocks)
        ws = []
        for i in first:
            ws += use_p(i)
        for b in blocks:
            ws += b
        for i in last:
            ws += use_p(i)
        return ws

    mand_plain = [i for i, a in enumerate(plain) if a.mandatory]

    def prefix_ctx(j=None):
        """words before a tested tail: the mandatory plain arguments, one visit (key only) of every other mandatory
        sub-group argument, and for a tested sub-group argument with a lower bound of 2 one earlier visit of it"""
        ws = []
        for i in mand_plain:
            ws += use_p(i)
        for jj, sb in enumerate(subs):
            if jj != j and sb.mandatory:
                ws += [key_s(jj, exact=True)] * (2 if sb.card in ("exact:2", "range:2:3") else 1)
        if j is not None and subs[j].card in ("exact:2", "range:2:3"):
            ws = [key_s(j, exact=True)] + ws
        return ws

    def partner_tail(j):
        sb = subs[j]
        return use_p(sb.req[0]) if sb.req else []

    if "valid" in what or "groups" in what or not (what & {"broken", "raw"}):
        for _ in range(rng.randint(3, 5)):
            add("sg-mixed", scenario())
        for j, sb in enumerate(subs):
            flags = [i for i, a in enumerate(plain) if a.kind == "flag"]
            ctx = prefix_ctx(j)
            # the sub-group key as the LAST word; followed by nothing of the sub handler: the next key is the main's
            add("sg-key-last", ctx + [key_s(j)] + partner_tail(j))
            add("sg-key-last", scenario(skip_sub=j) + [key_s(j)])
            if flags:
                add("sg-zero-uses", ctx + [key_s(j)] + use_p(rng.choice(flags)) + partner_tail(j))
            others = [i for i in range(len(plain)) if i not in mand_plain]
            if others:
                add("sg-zero-uses", ctx + [key_s(j)] + use_p(rng.choice(others)) + partner_tail(j))
            # bundles: -<sub key><sub handler's short key> [value], -<main flag><sub key>
            if sb.short:
                for a in sb.args:
                    if a.short and a.kind != "vec":
                        w = "-" + sb.short + a.short
                        v = [] if a.kind == "flag" else [str(rng.randint(0, 99)) if a.kind == "int" else rng.choice(SG_VALUES)]
                        add("sg-bundle", ctx + ([w] + v if rng.random() < 0.6 or not v else [w + v[0]]) + partner_tail(j))
                fl = [i for i in flags if plain[i].short]
                if fl:
                    i = rng.choice(fl)
                    add("sg-bundle-main-first", ctx + ["-" + plain[i].short + sb.short] + partner_tail(j))
            # a second visit; the sub handler keeps what the first visit stored
            if len(sb.args) >= 2 and sb.card not in ("max:1",):
                a1, a2 = rng.sample(range(len(sb.args)), 2)
                mid = use_p(rng.choice(range(len(plain))))
                add("sg-second-visit", prefix_ctx(None) + [key_s(j)] + use_s(j, a1) + mid + [key_s(j)] + use_s(j, a2) + partner_tail(j))
            vec = [k for k, a in enumerate(sb.args) if a.kind == "vec"]
            if vec:
                k = rng.choice(vec)
                key = rng.choice(sg_key_words(rng, sb.args[k], [x.long for x in sb.args if x.long], sb.abbr))
                tail = use_p(rng.choice(range(len(plain)))) if rng.random() < 0.7 else []
                add("sg-free-values", ctx + [key_s(j), key, "1", "2", "3"] + tail + partner_tail(j))
            # a mandatory argument of the sub handler that is not used: no error (the sub handler's end checks never run)
            if any(a.mandatory for a in sb.args):
                add("sg-sub-mandatory-ignored", ctx + [key_s(j)] + partner_tail(j))
    if "broken" in what or "groups" in what:
        for j, sb in enumerate(subs):
            ctx = prefix_ctx(j)
            if sb.mandatory:
                add("sg-mandatory-missing", scenario(skip_sub=j), "throw")
                add("sg-mandatory-missing", [w for i in mand_plain for w in use_p(i)], "throw")
            if sb.card:
                p = sb.card.split(":")
                if p[0] == "exact":
                    bad = [int(p[1]) - 1, int(p[1]) + 1]
                elif p[0] == "range":
                    bad = [int(p[1]) - 1, int(p[2]) + 1]
                else:
                    bad = [int(p[1]) + 1]
                for n in bad:
                    if n >= 1:
                        add("sg-card-%s-%d" % (p[0], n), scenario(nvis={j: n}), "throw")
                        add("sg-card-%s-%d" % (p[0], n), [w for i in mand_plain for w in use_p(i)] + [key_s(j, exact=True)] * n, "throw")
            add("sg-unknown-after-sub", ctx + [key_s(j), rng.choice(["--bogus", "-Z", "--zzz=1"])], "throw")
            add("sg-stray-value", ctx + [key_s(j), rng.choice(["7", "x", "1,2"])], "throw")
            need = [a for a in range(len(sb.args)) if sb.args[a].kind in ("int", "str")]
            if need:
                a = rng.choice(need)
                key = rng.choice(sg_key_words(rng, sb.args[a], [x.long for x in sb.args if x.long], sb.abbr))
                add("sg-missing-value", ctx + [key_s(j), key], "throw")
            if sb.excl:
                add("sg-excl-after", scenario(partner="excl-after"), "throw")
                add("sg-excl-after", ctx + [key_s(j, exact=True)] + use_p(sb.excl[0]), None)
            if sb.req:
                add("sg-req-missing", scenario(partner="req-missing"), "throw")
                add("sg-req-before", scenario(partner="req-before"), "throw")
    if "valid" in what or "broken" in what or "groups" in what:
        # prefixes of the sub-group long keys and of the plain long keys they share a prefix with; exact keys
        pl = []
        for j, sb in enumerate(subs):
            if not sb.long:
                continue
            ctx = prefix_ctx(j)
            for k in range(1, len(sb.long) + 1):
                pl.append(("sg-prefix-subkey" if k < len(sb.long) else "sg-exact-subkey", ctx + ["--" + sb.long[:k]] + partner_tail(j)))
            for i, a in enumerate(plain):
                if a.long and (a.long.startswith(sb.long) or sb.long.startswith(a.long)):
                    v = {"flag": [], "int": ["5"], "str": ["abc"], "vec": ["1,2"]}[a.kind]
                    for k in range(1, len(a.long) + 1):
                        pl.append(("sg-prefix-plainkey" if k < len(a.long) else "sg-exact-plainkey",
                                   [w for m in mand_plain if m != i for w in use_p(m)] + ["--" + a.long[:k]] + v))
            # prefixes of the sub handler's long keys under the SUB handler's abbreviation flag
            for a in sb.args:
                if a.long:
                    v = {"flag": [], "int": ["5"], "str": ["abc"], "vec": ["1,2"]}[a.kind]
                    for k in range(1, len(a.long) + 1):
                        pl.append(("sg-prefix-inner" if k < len(a.long) else "sg-exact-inner",
                                   ctx + [key_s(j, exact=True), "--" + a.long[:k]] + v + partner_tail(j)))
        rng.shuffle(pl)
        for lbl, ws in pl[:14]:
            add(lbl, ws)
    res = []
    group_src = []
    for label, ws, must in out:
        exp, lookups = G.sg_expect(plain, subs, abbr, ws)
        if must == "throw" and exp != "throw":
            continue              # the mutation did not break a rule in this configuration (e.g. the key was taken by the sub handler)
        res.append("pa eval x-lbl=%s x-exp=%s -- %s" % (label, G.hx(exp), words_hex(ws)))
        group_src.append((label, ws, exp, lookups))
    if "groups" in what:
        top = [a.long for a in plain] + [s.long for s in subs]
        for _ in range(rng.randint(2, 3)):
            k = rng.randint(1, 3)
            am = [rng.randrange(k) for _ in plain]
            sm = [rng.randrange(k) for _ in subs]
            for j, sb in enumerate(subs):          # constraint partners of a sub-group argument live in its member
                for con in (sb.req, sb.excl):
                    if con is not None:
                        am[con[0]] = sm[j]
            # two sub-group arguments naming the same partner: one member for all of them
            for j, sb in enumerate(subs):
                for con in (sb.req, sb.excl):
                    if con is not None and am[con[0]] != sm[j]:
                        sm = [am[con[0]]] * len(subs)
                        for sb2 in subs:
                            for c2 in (sb2.req, sb2.excl):
                                if c2 is not None:
                                    am[c2[0]] = sm[0]
            mem_of = am + sm
            members = sorted(set(mem_of))
            orders = ["".join(map(str, members)), "".join(map(str, reversed(members)))]
            picks = rng.sample(group_src, min(len(group_src), 10))
            for label, ws, exp, lookups in picks:
                # known open finding group-abbreviation-shadows-exact: members resolve abbreviations on their own, in
                # registration order; a typed long name whose candidates (keys it is a prefix of) live in different
                # members is not sent through the group
                if abbr and any(len(set(mem_of[x] for x, l in enumerate(top) if l and l.startswith(n))) > 1 for n in lookups):
                    continue
                od = rng.choice(orders)
                res.append("pa group x-lbl=group-%s x-exp=%s members=%s submembers=%s order=%s -- %s" % (
                    label, G.hx(exp), "".join(map(str, am)), "".join(map(str, sm)), od, words_hex(ws)))
    if "raw" in what:
        allargs = plain + [a for sb in subs for a in sb.args]
        for _ in range(rng.randint(3, 6)):
            j = rng.randrange(len(subs))
            ws = G.raw_argv(rng, allargs)
            ws.insert(rng.randint(0, len(ws)), key_s(j))
            if rng.random() < 0.4:
                ws.append(key_s(rng.randrange(len(subs))))           # a sub-group key as the last word
            res.append("pa eval x-lbl=sg-raw -- %s" % words_hex(ws))
            res.append("pa tokens " + words_hex(ws))
    return Case(cid, [" ".join(l.split()) for l in lines + res])


def group_freevalue_case(rng, cid):
    """a multi-value list argument in one member, a flag / an argument with value / an optional-value argument in
    another member, both registration orders: a key of the other member ends the value list, so a free value behind it
    is refused exactly as by a single handler"""
    sm, so = rng.sample(G.SHORTS, 2)
    lm, lo = rng.sample(G.LONGS, 2)
    okind = rng.choice(["flag", "int", "str", "level"])
    abbr = rng.randint(0, 1)
    if abbr and (lm.startswith(lo) or lo.startswith(lm)):
        abbr = 0
    lines = ["pa cfg begin abbr=%d" % abbr,
             "pa arg key=%s,%s kind=vec multi" % (sm, lm),
             "pa arg key=%s,%s kind=%s" % (so, lo, okind),
             "pa arg key=Q kind=flag", "pa cfg end"]
    km = rng.choice(["-" + sm, "--" + lm])
    ko = rng.choice(["-" + so, "--" + lo])
    n = rng.randint(1, 3)
    vals = [rng.randint(0, 40) for _ in range(n)]
    ov = {"flag": [], "int": [str(rng.randint(0, 99))], "str": [rng.choice(["abc", "x", "v1"])], "level": []}[okind]
    if okind == "level" and rng.random() < 0.5:
        ov = ["3"]
    oexp = {"flag": "f=1", "int": "i=%s" % (ov[0] if ov else 0), "str": "s=%s" % G.hx(ov[0] if ov else ""),
            "level": "l=%s" % (ov[0] if ov else 1)}[okind]
    head = [km] + [str(v) for v in vals] + [ko] + ov
    pre = ["-Q"] if rng.random() < 0.3 else []
    exp_ok = "ok 0:v=[%s] 1:%s 2:f=%d" % (",".join(map(str, vals)), oexp, 1 if pre else 0)
    out = []
    # the free value that must be refused (an optional-value argument without value would take the first word)
    extra = ["7", "8"] if (okind == "level" and not ov) else ["7"]
    out.append("pa eval x-lbl=gfv-single-ok x-exp=%s -- %s" % (G.hx(exp_ok), words_hex(pre + head)))
    out.append("pa eval x-lbl=gfv-single-free x-exp=%s -- %s" % (G.hx("throw"), words_hex(pre + head + extra)))
    for mem in ("010", "011", "100", "012", "021"):
        ms = sorted(set(mem))
        for od in ("".join(ms), "".join(reversed(ms))):
            if rng.random() < 0.6:
                o = "members=%s order=%s" % (mem, od)
                out.append("pa group x-lbl=gfv-group-ok x-exp=%s %s -- %s" % (G.hx(exp_ok), o, words_hex(pre + head)))
                out.append("pa group x-lbl=gfv-group-free x-exp=%s %s -- %s" % (G.hx("throw"), o, words_hex(pre + head + extra)))
    return Case(cid, lines + out)


def constraint_spelling_case(rng, cid):
    """several constraints naming the SAME argument through different spellings (short only, long only, both), the
    constrained argument used through every key form: every requirement must be met by one use of the target, every
    exclusion must bite whatever spelling was used"""
    sc, sa, sb, sd = rng.sample(G.SHORTS, 4)
    lc, la, lb = rng.sample(G.LONGS, 3)
    abbr = rng.randint(0, 1)
    if abbr and any(x != y and (x.startswith(y) or y.startswith(x)) for x in (lc, la, lb) for y in (lc, la, lb)):
        abbr = 0
    spell_c = [sc, lc, "%s,%s" % (sc, lc)]
    typ = rng.choice(["req", "excl"])
    s1, s2 = rng.sample(spell_c, 2)
    both = ";".join(rng.sample(spell_c, rng.randint(2, 3)))
    lines = ["pa cfg begin abbr=%d" % abbr,
             "pa arg key=%s,%s kind=int" % (sc, lc),
             "pa arg key=%s,%s kind=flag %s=%s" % (sa, la, typ, s1),
             "pa arg key=%s,%s kind=flag %s=%s" % (sb, lb, typ, s2),
             "pa arg key=%s kind=flag %s=%s" % (sd, typ, both),
             "pa cfg end"]
    use_c = [["-" + sc, "7"], ["--" + lc, "7"], ["--%s=7" % lc], ["-%s7" % sc]]
    if abbr and len(lc) > 2:
        use_c.append(["--" + lc[:-1], "7"])
    ka = lambda: rng.choice(["-" + sa, "--" + la])
    kb = lambda: rng.choice(["-" + sb, "--" + lb])
    out = []

    def add(label, exp, ws):
        out.append("pa eval x-lbl=%s x-exp=%s -- %s" % (label, G.hx(exp), words_hex(ws)))
    for uc in use_c:
        for pre in ([ka()], [kb()], [ka(), kb()], [kb(), ka()], ["-" + sd], [ka(), "-" + sd, kb()]):
            fa = 1 if any(w in ("-" + sa, "--" + la) for w in pre) else 0
            fb = 1 if any(w in ("-" + sb, "--" + lb) for w in pre) else 0
            fd = 1 if ("-" + sd) in pre else 0
            if typ == "req":
                add("cs-req-met", "ok 0:i=7 1:f=%d 2:f=%d 3:f=%d" % (fa, fb, fd), pre + uc)
                add("cs-req-missing", "throw", pre)
                add("cs-req-before", "throw", uc + pre)          # the requirement takes effect from the requirer's use
            else:
                add("cs-excl-after", "throw", pre + uc)
                add("cs-excl-before", "ok 0:i=7 1:f=%d 2:f=%d 3:f=%d" % (fa, fb, fd), uc + pre)
    rng.shuffle(out)
    return Case(cid, lines + out[:24])


def positional_case(rng, cid):
    """a positional argument (key "-", int or string) beside a flag, a value argument, a multi-value list and a plain
    list: a bare word goes to the positional argument unless the last identified argument is a multi-value list —
    and every key, also a flag's, ends such a list (any-order clause of C01: `-v 1 2 -f 9`, `9 -v 1 2 -f`,
    `-f 9 -v 1 2` store the same)"""
    sf, sg, sn, sv, sw = rng.sample(G.SHORTS, 5)
    lf, ln, lv = rng.sample(G.LONGS, 3)
    abbr = rng.randint(0, 1)
    if abbr and any(x != y and (x.startswith(y) or y.startswith(x)) for x in (lf, ln, lv) for y in (lf, ln, lv)):
        abbr = 0
    pk = rng.choice(["int", "str"])
    mand = rng.random() < 0.4
    lines = ["pa cfg begin abbr=%d" % abbr,
             "pa arg key=- kind=%s%s" % (pk, " mandatory" if mand else ""),
             "pa arg key=%s,%s kind=flag" % (sf, lf),
             "pa arg key=%s kind=flag" % sg,
             "pa arg key=%s,%s kind=int" % (sn, ln),
             "pa arg key=%s,%s kind=vec multi" % (sv, lv),
             "pa arg key=%s kind=vec" % sw,
             "pa cfg end"]
    pv = str(rng.randint(2, 99)) if pk == "int" else rng.choice(["abc", "x", "Peter", "7"])
    pout = ("0:i=%s" % pv) if pk == "int" else ("0:s=%s" % G.hx(pv))
    pnone = "0:i=0" if pk == "int" else "0:s=-"
    kf = lambda: rng.choice(["-" + sf, "--" + lf] + (["--" + lf[:-1]] if abbr and len(lf) > 3 else []))
    kv = lambda: rng.choice(["-" + sv, "--" + lv])
    out = []

    def add(label, exp, ws):
        out.append("pa eval x-lbl=%s x-exp=%s -- %s" % (label, G.hx(exp), words_hex(ws)))

    def ok(p, f=0, g=0, n=0, v=(), w=()):
        return "ok %s 1:f=%d 2:f=%d 3:i=%d 4:v=[%s] 5:v=[%s]" % (p, f, g, n, ",".join(map(str, v)), ",".join(map(str, w)))
    a, b, c = rng.randint(1, 9), rng.randint(10, 19), rng.randint(20, 29)
    # the same assignment in every order
    add("pos-after-flag", ok(pout, f=1, v=(a, b)), [kv(), str(a), str(b), kf(), pv])
    add("pos-first", ok(pout, f=1, v=(a, b)), [pv, kv(), str(a), str(b), kf()])
    add("pos-middle", ok(pout, f=1, v=(a, b)), [kf(), pv, kv(), str(a), str(b)])
    add("pos-after-flag-group", ok(pout, f=1, g=1, v=(a,)), [kv(), str(a), "-" + sf + sg, pv])
    add("pos-after-value-arg", ok(pout, n=c, v=(a, b)), [kv(), str(a), str(b), "-" + sn, str(c), pv])
    add("pos-after-value-arg-eq", ok(pout, n=c, v=(a,)), [kv(), str(a), "--%s=%d" % (ln, c), pv])
    add("pos-after-glued", ok(pout, n=c), ["-%s%d" % (sn, c), pv])
    add("pos-after-plain-list", ok(pout, w=(a, b)), ["-" + sw, "%d,%d" % (a, b), pv])
    add("pos-alone", ok(pout), [pv])
    # a bare word directly behind the values of the multi-value list belongs to the list
    if pk == "int" or pv.isdigit():
        exp = "throw" if mand else ok(pnone, v=(a, b, int(pv)))
        add("pos-swallowed-by-list", exp, [kv(), str(a), str(b), pv])
    # a second positional value: cardinality of a scalar
    add("pos-twice", "throw", [pv, kf(), pv])
    add("pos-missing", "throw" if mand else ok(pnone, f=1), [kf()])
    rng.shuffle(out)
    return Case(cid, lines + out)


def onechar_long_case(rng, cid):
    """a long key of ONE character (definable by the specification `--c` only) beside the short key of the same
    character, as two arguments, in both definition orders; alone; and the short key alone.  `--c` reaches the argument
    with the long key c and never the one with the short key c, `-c` the other way round (C05's "an exact key selects
    its own argument", seen through the handler: the pinned code looked `--c` up as the short key — fix for the former
    finding one-char-long-key).  With abbreviations `--c` still is an exact key first and an abbreviation second."""
    c, s2 = rng.sample(G.SHORTS, 2)
    variant = rng.choice(["both", "both", "both-swapped", "long-only", "short-only"])
    abbr = rng.randint(0, 1)
    # a second long key; in the variants with the one-character long key it may start with the same character
    # (exact match wins over the abbreviation), in `short-only` it must not (else `--c` is its abbreviation)
    pool = [l for l in G.LONGS if variant != "short-only" or not l.startswith(c)]
    l2 = rng.choice(pool + ([c + "ore", c + "x"] if variant != "short-only" else []))
    lk = rng.choice(["int", "str"])
    defs = {"L": "pa arg key=--%s kind=%s" % (c, lk), "S": "pa arg key=%s kind=flag" % rng.choice([c, "-" + c]),
            "O": "pa arg key=%s,%s kind=int" % (s2, l2)}
    order = {"both": "LSO", "both-swapped": "SOL", "long-only": "OL", "short-only": "SO"}[variant]
    if rng.random() < 0.3:
        order = "".join(rng.sample(order, len(order)))
    lines = ["pa cfg begin abbr=%d" % abbr] + [defs[x] for x in order] + ["pa cfg end"]
    lv = str(rng.randint(2, 99)) if lk == "int" else rng.choice(["abc", "x", "Peter", "7"])
    n = rng.randint(1, 50)
    out = []

    def add(label, exp, ws):
        out.append("pa eval x-lbl=%s x-exp=%s -- %s" % (label, G.hx(exp), words_hex(ws)))

    def ok(L=None, S=0, O=0):
        parts = []
        for i, x in enumerate(order):
            if x == "L":
                parts.append(("%d:i=%s" % (i, L or "0")) if lk == "int" else ("%d:s=%s" % (i, G.hx(L) if L else "-")))
            elif x == "S":
                parts.append("%d:f=%d" % (i, S))
            else:
                parts.append("%d:i=%d" % (i, O))
        return "ok " + " ".join(parts)
    hasL, hasS = "L" in order, "S" in order
    other = rng.choice(["-" + s2, "--" + l2])
    add("long1-value", ok(L=lv) if hasL else "throw", ["--" + c, lv])
    add("long1-eq", ok(L=lv) if hasL else "throw", ["--%s=%s" % (c, lv)])
    add("long1-no-value", "throw", ["--" + c] + ([other, str(n)] if rng.random() < 0.5 else []))
    add("short-flag", ok(S=1) if hasS else "throw", ["-" + c])
    add("short-then-long1", ok(L=lv, S=1) if hasL and hasS else "throw", ["-" + c, "--" + c, lv])
    add("long1-then-short", ok(L=lv, S=1) if hasL and hasS else "throw", ["--" + c, lv, "-" + c])
    add("long1-other-short", ok(L=lv, S=1, O=n) if hasL and hasS else "throw", ["--" + c, lv, other, str(n), "-" + c])
    add("other-only", ok(O=n), [other, str(n)])
    # the short flag takes no value: `-c value` leaves a bare word without positional argument
    add("short-with-word", "throw", ["-" + c, lv])
    # three dashes: the name `-c` is the specification of the short key
    add("three-dashes", ok(S=1) if hasS else "throw", ["---" + c])
    rng.shuffle(out)
    return Case(cid, lines + out)


def value_constraint_case(rng, cid):
    """differ over three int arguments and disjoint over two list arguments, the constraint written through different
    key spellings; equal values in every pair (also equal only after conversion: 7 / +7 / 07), values given twice (the
    last one counts), common elements at every position of unsorted lists and against the initial content; the same
    lines through a group that keeps the partners together; and the set-up refusals of validValueArguments"""
    sp, sb, sq, sa, sc = rng.sample(G.SHORTS, 5)
    lp, lb, lq, la, lc = rng.sample(G.LONGS, 5)
    abbr = rng.randint(0, 1)
    ls = (lp, lb, lq, la, lc)
    if abbr and any(x != y and (x.startswith(y) or y.startswith(x)) for x in ls for y in ls):
        abbr = 0
    form = lambda s_, l_: rng.choice([s_, l_, "%s,%s" % (s_, l_)])
    init_a = [rng.randint(50, 59) for _ in range(rng.randint(0, 2))]
    strs = rng.random() < 0.35
    kind = "str" if strs else "int"
    lines = ["pa cfg begin abbr=%d" % abbr,
             "pa arg key=%s,%s kind=%s card=none" % (sp, lp, kind),
             "pa arg key=%s,%s kind=%s" % (sb, lb, kind),
             "pa arg key=%s,%s kind=%s" % (sq, lq, kind),
             "pa arg key=%s,%s kind=vec%s" % (sa, la, " init=" + ",".join(map(str, init_a)) if init_a else ""),
             "pa arg key=%s,%s kind=vec multi" % (sc, lc),
             "pa glob differ %s;%s;%s" % (form(sp, lp), form(sb, lb), form(sq, lq)),
             "pa glob disjoint %s;%s" % (form(sa, la), form(sc, lc)),
             "pa cfg end"]
    out = []
    key = lambda s_, l_: rng.choice(["-" + s_, "--" + l_])

    def sval(v):
        return "i=%d" % v if not strs else "s=%s" % G.hx(v)

    def zero():
        return 0 if not strs else ""

    def exp(p=None, b=None, q=None, va=(), vc=()):
        z = zero()
        return "ok 0:%s 1:%s 2:%s 3:v=[%s] 4:v=[%s]" % (
            sval(z if p is None else p), sval(z if b is None else b), sval(z if q is None else q),
            ",".join(map(str, init_a + list(va))), ",".join(map(str, vc)))

    def add(label, e, ws):
        out.append(("pa eval x-lbl=%s x-exp=%s -- %s" % (label, G.hx(e), words_hex(ws)), label, e, ws))
    if strs:
        x, y, z = rng.sample(["abc", "abd", "ab", "Abc", "x", "abc "[:3] + "c"], 3)
        tx = lambda v: v
        same = lambda v: v
    else:
        x, y, z = rng.sample(range(0, 30), 3)
        tx = lambda v: str(v)
        same = lambda v: rng.choice([str(v), "+%d" % v, "0%d" % v])
    kp, kb, kq = (lambda: key(sp, lp)), (lambda: key(sb, lb)), (lambda: key(sq, lq))
    add("vc-differ-ok", exp(x, y, z), [kp(), tx(x), kb(), tx(y), kq(), tx(z)])
    add("vc-differ-one", exp(p=x), [kp(), tx(x)])
    add("vc-differ-two", exp(b=y, q=x), [kq(), tx(x), kb(), tx(y)])
    for (k1, k2) in ((kp, kb), (kp, kq), (kb, kq), (kq, kp)):
        add("vc-differ-same", "throw", [k1(), tx(x), k2(), same(x)])
    add("vc-differ-same3", "throw", [kp(), tx(x), kb(), tx(y), kq(), same(x)])
    # the last value counts: first equal, then different → accepted; first different, then equal → refused
    add("vc-differ-last-ok", exp(p=z, b=x), [kp(), tx(x), kb(), tx(x), kp(), tx(z)])
    add("vc-differ-last-same", "throw", [kp(), tx(z), kb(), tx(x), kp(), same(x)])
    ka, kc = (lambda: key(sa, la)), (lambda: key(sc, lc))
    e1, e2, e3, e4 = rng.sample(range(1, 40), 4)
    add("vc-disjoint-ok", exp(va=[e3, e1], vc=[e4, e2]), [ka(), "%d,%d" % (e3, e1), kc(), "%d,%d" % (e4, e2)])
    add("vc-disjoint-one", exp(va=[e1]), [ka(), str(e1)])
    for la_, lc_ in (([e3, e1], [e1]), ([e1], [e2, e1]), ([e3, e1], [e4, e1]), ([e1, e3], [e3, e2]), ([e2, e3, e1], [e4, e2]),
                     ([e1], [e1])):
        ws = [ka(), ",".join(map(str, la_)), kc()] + [str(v) for v in lc_]      # -c is multi-value: free values
        add("vc-disjoint-common", "throw", ws)
        add("vc-disjoint-common", "throw", [kc(), ",".join(map(str, lc_)), ka(), ",".join(map(str, la_))])
    if init_a:
        add("vc-disjoint-init", "throw", [kc(), "%d,%d" % (e1, init_a[-1])])
        add("vc-disjoint-init-ok", exp(vc=[e1]), [kc(), str(e1)])
    rng.shuffle(out)
    res = [o[0] for o in out[:20]]
    # through a group: the differ partners in one member, the disjoint partners in one member
    for o in out[20:28]:
        mem = rng.choice(["00011/01", "11100/10", "00000/00", "00011/01"])
        od = "".join(rng.sample(sorted(set(mem.replace("/", ""))), len(set(mem.replace("/", "")))))
        res.append("pa group x-lbl=group-%s x-exp=%s members=%s order=%s -- %s" % (o[1], G.hx(o[2]), mem, od, words_hex(o[3])))
    case_lines = lines + res
    # set-up refusals (the model's set-up refuses the same definitions: compared line by line)
    bad = rng.choice(["differ %s" % sp, "differ %s;%s" % (sp, sa), "disjoint %s;%s" % (sp, sb) + ";" + sq,
                      "disjoint %s;%s" % (sa, sp), "differ %s;%s" % (sp, lp), "differ %s;nosuch" % sp,
                      "disjoint %s" % la])
    case_lines += ["pa cfg begin abbr=%d" % abbr] + lines[1:6] + ["pa glob " + bad, "pa cfg end"]
    return Case(cid, case_lines)


def pattern_case(rng, cid, which=None):
    """string arguments with a pattern check: every listed matching value must be accepted and stored, every listed
    non-matching value refused (std::regex_match: the whole value), through every key form"""
    idx = which if which is not None else rng.sample(range(len(G.PATTERNS)), min(3, len(G.PATTERNS)))
    shorts = rng.sample(G.SHORTS, len(idx))
    lines = ["pa cfg begin abbr=0"]
    for s_, i in zip(shorts, idx):
        lines.append("pa arg key=%s,p%d kind=str card=none check=pattern:%s" % (s_, i, G.hx(G.PATTERNS[i][0])))
    lines.append("pa cfg end")
    out = []
    for pos, (s_, i) in enumerate(zip(shorts, idx)):
        pat, good, badv = G.PATTERNS[i]

        def forms(v):
            fs = [["--p%d=%s" % (i, v)], ["-%s%s" % (s_, v)]]
            if G.next_word_ok(v):
                fs += [["-" + s_, v], ["--p%d" % i, v]]
            return fs
        for v in good:
            e = "ok " + " ".join("%d:s=%s" % (k, G.hx(v) if k == pos else "-") for k in range(len(idx)))
            for ws in forms(v):
                out.append("pa eval x-lbl=pattern-match x-exp=%s -- %s" % (G.hx(e), words_hex(ws)))
        for v in badv:
            for ws in forms(v):
                out.append("pa eval x-lbl=pattern-nomatch x-exp=%s -- %s" % (G.hx("throw"), words_hex(ws)))
    if which is None:
        rng.shuffle(out)
        out = out[:40]
    return Case(cid, lines + out)


def group_define_case(rng, cid):
    """definition-time cross check: the members are created first, then keys are defined in an arbitrary sequence
    over the members; a key that equals or mismatches a key defined earlier in ANOTHER (or the same) member must be
    refused, whichever member was created first — expectation computed here from the key sets alone"""
    n = rng.randint(2, 4)
    pool_s = rng.sample(G.SHORTS, 4)
    pool_l = rng.sample(G.LONGS, 4)
    specs = []
    for _ in range(rng.randint(3, 7)):
        r = rng.random()
        if r < 0.35:
            specs.append(rng.choice(pool_s))
        elif r < 0.6:
            specs.append(rng.choice(pool_l))
        else:
            specs.append(rng.choice(pool_s) + "," + rng.choice(pool_l))
    defs = [(rng.randrange(n), sp) for sp in specs]

    def parts(sp):
        ps = sp.split(",")
        sh = [x for x in ps if len(x) == 1]
        lg = [x for x in ps if len(x) > 1]
        return (sh[0] if sh else None, lg[0] if lg else None)

    def clash(a, b):
        (s1, l1), (s2, l2) = a, b
        if s1 and s2 and l1 and l2:
            return s1 == s2 or l1 == l2          # equal short keys, or a mismatch (exactly one part equal)
        if s1 and s2:
            return s1 == s2
        if l1 and l2:
            return l1 == l2
        return False
    seen = []
    exp = "ok"
    for idx, (m, sp) in enumerate(defs):
        k = parts(sp)
        if any(clash(k, o) for o in seen):
            exp = None          # the class and index are left to the model; the oracle only demands a refusal here
            bad = idx
            break
        seen.append(k)
    line = "pa gdef x-lbl=gdef members=%d %s-- %s" % (
        n, ("x-exp=" + G.hx("ok") + " ") if exp == "ok" else ("x-refuse=%d " % bad), " ".join("%d:%s" % d for d in defs))
    return Case(cid, ["pa cfg begin abbr=1", "pa arg key=Q kind=flag", "pa cfg end", " ".join(line.split())])


def source_multi_case(rng, cid):
    """a multi-value list argument with a finite maximum: values (key + free values, or one use per value) delivered
    by the file and/or the environment beyond the maximum, then the full share on the command line — accepted, because
    source values are not counted (first value of a use and free values; list elements after the first ARE counted:
    known finding, not used here)"""
    m = rng.randint(1, 4)
    sep = rng.choice([",", ";", ":"])
    card = rng.choice(["max:%d" % m, "range:1:%d" % m, "exact:%d" % m])
    short, long_ = rng.choice(G.SHORTS), rng.choice(G.LONGS)
    init = [rng.randint(0, 9) for _ in range(rng.randint(0, 2))]
    lines = ["pa cfg begin abbr=%d" % rng.randint(0, 1),
             "pa arg key=%s,%s kind=vec card=%s multi%s%s" % (short, long_, card, "" if sep == "," else " sep=" + G.hx(sep),
                                                            " init=" + ",".join(map(str, init)) if init else ""),
             "pa arg key=Q kind=flag", "pa cfg end"]
    keyforms = ["-" + short, "--" + long_]

    def deliver(vals):
        if rng.random() < 0.5:
            return [rng.choice(keyforms)] + [str(v) for v in vals]           # key + free values
        return [w for v in vals for w in (rng.choice(keyforms), str(v))]     # one use per value
    for _ in range(rng.randint(2, 4)):
        fvals = [rng.randint(0, 40) for _ in range(rng.choice([0, 0, m, m + 1, 2 * m + 1]))]
        evals = [rng.randint(0, 40) for _ in range(rng.choice([0, m, m + 1, 2 * m + 1]))]
        avals = [rng.randint(0, 40) for _ in range(m)]
        opts = []
        if fvals:
            # split over one or two file lines (the last-argument marker survives the line end)
            if len(fvals) > 1 and rng.random() < 0.4:
                k = rng.randint(1, len(fvals) - 1)
                fl = [" ".join(deliver(fvals[:k])), "# comment", " ".join(deliver(fvals[k:]))]
            else:
                fl = [" ".join(deliver(fvals))]
            opts.append("file=" + "|".join(G.hx(l) for l in fl))
        if evals:
            opts.append("env=" + G.hx(" ".join(deliver(evals))))
        aw = deliver(avals)
        if rng.random() < 0.3:
            aw = ["-Q"] + aw
            q = 1
        else:
            q = 0
        exp = "ok 0:v=[%s] 1:f=%d" % (",".join(map(str, init + fvals + evals + avals)), q)
        lines.append("pa eval x-lbl=source-multi x-exp=%s %s -- %s" % (G.hx(exp), " ".join(opts), words_hex(aw)))
        # and one value too many on the command line is still refused
        aw2 = deliver(avals + [1])
        lines.append("pa eval x-lbl=source-multi-toomany x-exp=%s %s -- %s" % (G.hx("throw"), " ".join(opts), words_hex(aw2)))
    # a value list that BEGINS in a source and is CONTINUED by free values at the start of the command line (the
    # last-argument marker survives the end of the file and of the environment value: the words are evaluated as
    # one sequence).  Own random stream, so that the cases above stay what they were (seeded change C07-5).
    r2 = random.Random("source-continued-%s" % cid)
    for _ in range(3):
        pre = [r2.randint(0, 40) for _ in range(r2.randint(1, 3))]
        rest = [r2.randint(0, 40) for _ in range(m)]
        key = r2.choice(keyforms)
        how = r2.choice(["env", "env", "file", "file+env"])
        if how == "file+env" and len(pre) < 2:
            how = "env"
        opts = []
        if how == "env":
            opts.append("env=" + G.hx(" ".join([key] + [str(v) for v in pre])))
        elif how == "file":
            fl = [" ".join([key] + [str(v) for v in pre])]
            if r2.random() < 0.5:
                fl = ["# comment"] + fl
            opts.append("file=" + "|".join(G.hx(l) for l in fl))
        else:
            k = r2.randint(1, len(pre) - 1)
            opts.append("file=" + G.hx(" ".join([key] + [str(v) for v in pre[:k]])))
            opts.append("env=" + G.hx(" ".join(str(v) for v in pre[k:])))
        q = 1 if r2.random() < 0.4 else 0
        aw = [str(v) for v in rest] + (["-Q"] if q else [])
        exp = "ok 0:v=[%s] 1:f=%d" % (",".join(map(str, init + pre + rest)), q)
        lines.append("pa eval x-lbl=source-continued x-exp=%s %s -- %s" % (G.hx(exp), " ".join(opts), words_hex(aw)))
    return Case(cid, [" ".join(l.split()) for l in lines])


BATCHES = {
    "C01": ["valid"],
    "C06": ["valid"],
    "C07": ["sources"],
    "C03": ["valid", "valid", "groups"],
    "C02": ["broken", "broken", "valid"],
    "C04": ["raw", "raw", "raw", "broken"],
    "C08": ["groups", "groups", "valid"],
}


EXH_VOCAB = ["-a", "-b", "-ab", "-ba", "-a5", "-ba5", "--alpha", "--al", "--alpha=5", "--al=", "--beta", "-m", "--multi=1,2",
             "5", "x", "7,8", "--", "-", "!", "(", "--nokey", "-v", "-vv", "--verbose",
             # one-character names behind two dashes: long keys (abbreviations of alpha / beta when allowed), never the
             # short keys a / b
             "--a", "--b"]
# C01-C03 only: forms of the declarative grammar SpellsPlus beyond Spells (C02_parse_faithful) — a dash inside a group
# of short keys (= separator / long name), a flag with '=value', an optional value behind `-v-`
EXH_VOCAB_PLUS = ["-b-", "-b-a", "-v--al", "--beta=x"]
EXH_CFGS = [
    ["pa cfg begin abbr=1", "pa arg key=a,alpha kind=int", "pa arg key=b,beta kind=flag", "pa arg key=m,multi kind=vec multi",
     "pa arg key=v,verbose kind=level", "pa cfg end"],
    ["pa cfg begin abbr=0", "pa arg key=a,alpha kind=int mandatory check=lower:5", "pa arg key=b,beta kind=flag excl=a",
     "pa arg key=m,multi kind=vec card=max:2 req=b", "pa arg key=v,verbose kind=level check=upper:2", "pa cfg end"],
    ["pa cfg begin abbr=1", "pa arg key=a,alpha kind=str card=max:2", "pa arg key=b,beta kind=flag req=alpha",
     "pa arg key=m,multi kind=vec multi card=exact:2", "pa arg key=v,verbose kind=level mix", "pa glob oneof a;m", "pa cfg end"],
]


def exhaustive_argv(prop, max_len):
    """every argument vector of up to max_len words over a fixed vocabulary of key forms, values and odd words, for
    three fixed configurations (evaluated singly; for C08 also through two group partitions in both orders)"""
    import itertools
    cases = []
    for ci, cfg in enumerate(EXH_CFGS):
        lines = list(cfg)
        for n in range(0, max_len + 1):
            for ws in itertools.product(EXH_VOCAB + (EXH_VOCAB_PLUS if prop in ("C01", "C02", "C03") else []), repeat=n):
                w = words_hex(ws)
                if prop == "C04":
                    lines.append("pa tokens " + w)
                    lines.append("pa rest " + w)
                if prop == "C08":
                    if ci == 2:
                        continue        # the handler constraint spans two members there
                    for mem, od in (("0101", "01"), ("0101", "10"), ("0011", "01")):
                        lines.append("pa group x-lbl=exh members=%s order=%s -- %s" % (mem, od, w))
                else:
                    lines.append("pa eval x-lbl=exh -- " + w)
                if len(lines) > 400:
                    cases.append(Case("exh%d-%d" % (ci, len(cases)), lines))
                    lines = list(cfg)
        if len(lines) > len(cfg):
            cases.append(Case("exh%d-%d" % (ci, len(cases)), lines))
    return cases


def generate(prop, tier, seed, scale=1):
    rng = random.Random("%s-%s" % (prop, seed))
    n = (600 if tier == "quick" else 100000) * scale
    cases = []
    for i in range(n):
        what = {rng.choice(BATCHES[prop])}
        if rng.random() < 0.15:
            what.add(rng.choice(["valid", "broken", "sources", "groups", "raw"]))
        c = make_case(rng, "%s-%d" % (prop, i), what)
        if c is not None and len(c.lines) > 2:
            cases.append(c)
    yield "generated", cases
    if prop in ("C01", "C02", "C03"):
        yield "exhaustive: every pattern of the fixed list x every listed matching / non-matching value x every key form", \
            [pattern_case(rng, "pat-%d" % k, which=[k]) for k in range(len(G.PATTERNS))]
    if prop in ("C01", "C02", "C03", "C04", "C08"):
        n = 2 if tier == "quick" else 3
        yield "exhaustive argv of <= %d words over a %d-word vocabulary x 3 configurations" % (
            n, len(EXH_VOCAB) + (len(EXH_VOCAB_PLUS) if prop in ("C01", "C02", "C03") else 0)), \
            exhaustive_argv(prop, n)


def annotation(line, key):
    for t in line.split(" "):
        if t == "--":
            break
        if t.startswith(key + "="):
            return t[len(key) + 1:]
    return None


def judge(prop, case, impl, model):
    probs = vlib.default_judge(case, impl, model)
    if prop != "C04":
        # `pa argc0` (evalArguments with the EMPTY argv, corpus/progargs/argc0_empty_argv.ops) speaks about C04 alone
        # (known finding argc0-reads-outside-argv); the other properties are stated for an argv with a program name
        # and do not judge that line (the corpus is shared by all properties of the component)
        probs = [p for p in probs if not (p.kind == "diff" and p.line.startswith("pa argc0"))]
    ops = ["case " + case.cid] + case.lines
    first = probs[0].index if probs else len(ops)
    for idx, op in enumerate(ops):
        if idx >= len(impl) or idx > first:
            break
        rf = annotation(op, "x-refuse")
        if rf is not None:
            got = impl[idx]
            if not (got.startswith("throw ") and got.endswith(" at " + rf)):
                return [Problem("oracle", case, idx, op, got, model[idx] if idx < len(model) else None,
                                detail="generator expectation: definition %s must be refused (a key of another or the same "
                                       "member is taken)" % rf)]
            continue
        e = annotation(op, "x-exp")
        if e is None:
            continue
        want = bytes.fromhex(e).decode("latin-1")
        got = impl[idx]
        good = got.startswith("throw ") if want == "throw" else got == want
        if not good:
            return [Problem("oracle", case, idx, op, got, model[idx] if idx < len(model) else None,
                            detail="generator expectation (%s): %s" % (annotation(op, "x-lbl"), want))]
    return probs


def shrink_keep(line):
    return line.startswith("pa cfg") or line.startswith("pa arg") or line.startswith("pa glob") or line.startswith("pa sub")


def nontrivial_key(op, result):
    w = op.split(" ")
    r = (result or "").split(" ")
    res = " ".join(r[:2]) if r and r[0] == "throw" else (r[0] if r else "")
    lbl = annotation(op, "x-lbl") or ""
    return (" ".join(w[:2]), lbl, res)


def diff_is_failure(prop, p):
    """a model/implementation difference on an evaluation whose outcome class (accepted with which destinations /
    rejected) differs is a failure of the functional properties; differing exception *classes* alone are tie-only"""
    a, b = (p.impl or ""), (p.model or "")
    if p.line.startswith("pa rest"):
        return True          # argsAsString(): the strings (and which call throws) are determined by argv alone
    if p.line.startswith("pa argc0"):
        return a.startswith("crash")    # evalArguments( 0, argv) ended in a sanitizer report / signal: C04 itself fails
    if a.startswith("throw ") and b.startswith("throw "):
        return False
    if PROPERTIES[prop]["kind"] == "functional":
        return True
    # relational (C02, C04): the implementation accepting what the proved model rejects is a failure
    return a.startswith("ok") and b.startswith("throw")


def problem_rank(prop, p):
    """which of several failing inputs is reported: the one that speaks about the property itself first
    (C02: a rule-breaking line that was accepted; C03: a rule-obeying line that was refused; C04: a crash)"""
    a = p.impl or ""
    want = None
    e = annotation(p.line, "x-exp")
    if e is not None:
        want = bytes.fromhex(e).decode("latin-1")
    elif p.model:
        want = p.model
    if prop == "C04":
        return 0 if p.kind == "crash" else 1
    if prop == "C02":
        return 0 if a.startswith("ok") and want is not None and want.startswith("throw") else 1
    if prop == "C03":
        return 0 if a.startswith("throw") and want is not None and want.startswith("ok") else 1
    return 0


def finding_matches(finding, p):
    """custom matcher of the finding `group-abbreviation-shadows-exact`: an oracle failure or difference of a group
    evaluation in a configuration (abbreviations on) where a long key of one member is a proper prefix of a long key
    of a different member"""
    if finding.get("match", {}).get("custom") != "group-abbreviation-shadows-exact":
        return False
    if not p.line.startswith("pa group") or p.kind not in ("oracle", "diff"):
        return False
    if not any(l.startswith("pa cfg begin") and "abbr=1" in l for l in p.case.lines):
        return False
    longs = []
    for l in p.case.lines:
        if l.startswith("pa arg "):
            key = annotation(l, "key") or ""
            parts = [x.lstrip("-") for x in key.split(",")]
            lg = [x for x in parts if len(x) > 1]
            longs.append(lg[0] if lg else None)
    mem = (annotation(p.line, "members") or "").split("/")[0]
    if len(mem) != len(longs):
        return False
    for i, x in enumerate(longs):
        for j, y in enumerate(longs):
            if x and y and i != j and y.startswith(x) and mem[i] != mem[j]:
                return True
    return False


# ---- C08 audit follow-up (appended): list values through a group -------------------------------------------------
# `C08_group_equiv_partial` now covers command lines with commas everywhere except inside a typed long key
# (`ArgvPlain`): value words `1,2,3` / `1,-2`, values attached to a long key `--list=1,-2,3`, values attached to a
# short key `-m4,-5`, free values that are lists themselves.  This batch sends exactly these spellings through a
# single handler and through groups (several partitions, both registration orders) with the expectation computed here.

def group_listvalue_case(rng, cid):
    sm, so = rng.sample(G.SHORTS, 2)
    lm, lo = rng.sample(G.LONGS, 2)
    lines = ["pa cfg begin abbr=0",
             "pa arg key=%s,%s kind=vec multi" % (sm, lm),
             "pa arg key=%s,%s kind=str" % (so, lo),
             "pa arg key=Q kind=flag", "pa cfg end"]

    def ints(k):
        return [rng.choice([rng.randint(0, 40), -rng.randint(1, 40)]) for _ in range(k)]
    out = []
    for _ in range(rng.randint(2, 4)):
        vals, words = [], []
        for _u in range(rng.randint(1, 3)):
            v = ints(rng.randint(1, 3))
            form = rng.randrange(3)
            if form == 0:
                if v[0] < 0:
                    v[0] = -v[0]          # a separate value word must not start with a dash
                words += [rng.choice(["-" + sm, "--" + lm]), ",".join(map(str, v))]
            elif form == 1:
                words += ["--%s=%s" % (lm, ",".join(map(str, v)))]
            else:
                if v[0] < 0:
                    v[0] = -v[0]          # `-m-1,2` would read `-1,2` as a long key
                words += ["-%s%s" % (sm, ",".join(map(str, v)))]
            vals += v
            # free values behind it, lists themselves
            for _f in range(rng.randint(0, 2)):
                fv = ints(rng.randint(1, 3))
                fv[0] = abs(fv[0])
                words.append(",".join(map(str, fv)))
                vals += fv
        sval = rng.choice(["a,b", "x,", ",", "1,2,3", "v1"])
        swords = rng.choice([["--%s=%s" % (lo, sval)], ["-" + so, sval], ["--" + lo, sval], ["-%s%s" % (so, sval)]])
        q = rng.randint(0, 1)
        ws = (["-Q"] if q else []) + (swords + words if rng.random() < 0.5 else words + swords)
        exp = "ok 0:v=[%s] 1:s=%s 2:f=%d" % (",".join(map(str, vals)), G.hx(sval), q)
        out.append("pa eval x-lbl=glist-single x-exp=%s -- %s" % (G.hx(exp), words_hex(ws)))
        for mem in ("010", "011", "100", "012", "021"):
            ms = sorted(set(mem))
            for od in ("".join(ms), "".join(reversed(ms))):
                if rng.random() < 0.5:
                    out.append("pa group x-lbl=glist-group x-exp=%s members=%s order=%s -- %s" % (G.hx(exp), mem, od, words_hex(ws)))
    return Case(cid, lines + out)


SG_EXH_PLAIN = [G.SgArg("m", "main", "flag"), G.SgArg(None, "out", "str")]
SG_EXH_SUBS = [G.SgSub("s", "output", [G.SgArg("a", None, "flag"), G.SgArg("n", "num", "int"), G.SgArg("l", None, "vec")], abbr=1)]
SG_EXH_VOCAB = ["-s", "--output", "--outp", "--out", "--ou", "-a", "-n", "3", "-sa", "-m", "--bogus", "-l", "--", "x"]


def exhaustive_subgroup(prop, max_len):
    """one fixed configuration with a sub-group argument (main: -m,--main flag, --out string; sub-group argument
    -s,--output whose handler has -a flag, -n,--num int, -l multi-value list) x every argument vector of up to
    max_len words over SG_EXH_VOCAB; every line without the word `--` also carries the expectation of the word-level
    reading (gen_progargs.sg_expect).  C08: through groups (the plain key `out` and the sub-group key `output` in one
    member: the cross-member prefix is the known open finding), both registration orders"""
    import itertools
    cfg = ["pa cfg begin abbr=1"] + [a.line() for a in SG_EXH_PLAIN] + SG_EXH_SUBS[0].lines() + ["pa cfg end"]
    cases, lines = [], list(cfg)
    for n in range(0, max_len + 1):
        for ws in itertools.product(SG_EXH_VOCAB, repeat=n):
            ann = "x-lbl=exh-sg"
            if "--" not in ws:
                ann += " x-exp=" + G.hx(G.sg_expect(SG_EXH_PLAIN, SG_EXH_SUBS, 1, ws)[0])
            w = words_hex(ws)
            if prop == "C08":
                for am, sm, od in (("00", "0", "0"), ("01", "1", "01"), ("01", "1", "10"), ("10", "0", "01")):
                    lines.append("pa group %s members=%s submembers=%s order=%s -- %s" % (ann, am, sm, od, w))
            else:
                lines.append("pa eval %s -- %s" % (ann, w))
            if len(lines) > 400:
                cases.append(Case("exhsg-%d" % len(cases), [" ".join(l.split()) for l in lines]))
                lines = list(cfg)
    if len(lines) > len(cfg):
        cases.append(Case("exhsg-%d" % len(cases), [" ".join(l.split()) for l in lines]))
    return cases


_generate_before_glist = generate


def generate(prop, tier, seed, scale=1):
    for label, cases in _generate_before_glist(prop, tier, seed, scale):
        yield label, cases
    if prop in ("C01", "C02", "C03"):
        rng = random.Random("%s-long1-%s" % (prop, seed))
        n = (25 if tier == "quick" else 1500) * scale
        yield "generated", [onechar_long_case(rng, "long1-%d" % k) for k in range(n)]
    if prop in ("C01", "C02", "C03", "C04", "C08"):
        n = 2 if tier == "quick" else 3
        yield "exhaustive argv of <= %d words over a %d-word vocabulary x the fixed sub-group configuration" % (
            n, len(SG_EXH_VOCAB)), exhaustive_subgroup(prop, n)
    if prop == "C08":
        rng = random.Random("C08-glist-%s" % seed)
        n = (40 if tier == "quick" else 3000) * scale
        yield "generated", [group_listvalue_case(rng, "glist-%d" % k) for k in range(n)]


# ---- `pa gdef` with SUB-GROUP argument definitions (appended) ----------------------------------------------------
# item `<m>s:<keyspec>`: Handler::addArgument( spec, Handler& subGroup, desc) on member m with a fresh sub handler.
# The key tables of a group are ONE name space: a key (or a key that mismatches: exactly one of short / long equal)
# that any member holds in either container (plain arguments, sub-group arguments) must be refused at the definition
# that brings it in - /repo fixes b870f06 (sub-group definition against another member) and 2dd61bc (plain and
# sub-group argument of ONE handler).  The expectation is computed here from the keys alone, container-blind.

def _gdef_parts(sp):
    ps = sp.split(",")
    sh = [x for x in ps if len(x) == 1]
    lg = [x for x in ps if len(x) > 1]
    return (sh[0] if sh else None, lg[0] if lg else None)


def _gdef_clash(a, b):
    (s1, l1), (s2, l2) = a, b
    if s1 and s2 and l1 and l2:
        return s1 == s2 or l1 == l2          # equal, or a mismatch (exactly one part equal)
    if s1 and s2:
        return s1 == s2
    if l1 and l2:
        return l1 == l2
    return False


def gdef_sub_line(n, defs, label):
    """defs: [(member, is a sub-group argument, key spec)] -> the `pa gdef` line with its expectation: the first
    definition whose key clashes with ANY key defined before it in the group (whichever member, whichever container)
    must be refused (`x-refuse=<idx>`), a history without such a definition accepted (`x-exp=ok`)"""
    seen, ann = [], "x-exp=" + G.hx("ok")
    for idx, (_m, _s, sp) in enumerate(defs):
        k = _gdef_parts(sp)
        if any(_gdef_clash(k, o) for o in seen):
            ann = "x-refuse=%d" % idx
            break
        seen.append(k)
    return "pa gdef x-lbl=%s %s members=%d -- %s" % (
        label, ann, n, " ".join("%d%s:%s" % (m, "s" if s else "", sp) for m, s, sp in defs))


GDEF_SUB_SCENARIOS = ["plain-sub-other", "sub-plain-other", "sub-sub-other", "plain-sub-same", "sub-plain-same",
                      "sub-sub-same", "mismatch-long", "mismatch-short", "part-equal", "accepted", "accepted", "random"]


def group_define_sub_history(rng, scen):
    """(members, [(member, is_sub, spec)]) of one scenario: a clashing pair placed among definitions with fresh keys"""
    n = rng.randint(2, 4)
    shorts = rng.sample(G.SHORTS, 10)
    longs = rng.sample(G.LONGS, 10)

    def fresh(both=False):
        r = rng.random()
        if not both and r < 0.35:
            return shorts.pop()
        if not both and r < 0.6:
            return longs.pop()
        return shorts.pop() + "," + longs.pop()
    if scen == "random":
        # small pools, every definition a plain or a sub-group argument: clashes of every kind at any index
        ps, pl = [shorts.pop() for _ in range(4)], [longs.pop() for _ in range(4)]
        defs = []
        for _ in range(rng.randint(3, 7)):
            r = rng.random()
            sp = rng.choice(ps) if r < 0.35 else rng.choice(pl) if r < 0.6 else rng.choice(ps) + "," + rng.choice(pl)
            defs.append((rng.randrange(n), rng.random() < 0.5, sp))
        if not any(d[1] for d in defs):
            q = rng.randrange(len(defs))
            defs[q] = (defs[q][0], True, defs[q][2])
        return n, defs
    fill = [(rng.randrange(n), rng.random() < 0.5, fresh()) for _ in range(rng.randint(0, 4))]
    if scen == "accepted":
        # several sub-group definitions (at least two, in one member or in several), nothing clashes
        fill += [(rng.randrange(n), True, fresh()) for _ in range(rng.randint(2, 3))]
        rng.shuffle(fill)
        return n, fill
    ma = rng.randrange(n)
    mb = rng.choice([m for m in range(n) if m != ma])
    if scen.endswith("-same"):
        mb = ma
    if scen.startswith("plain-sub"):
        ca, cb = False, True
    elif scen.startswith("sub-plain"):
        ca, cb = True, False
    elif scen.startswith("sub-sub"):
        ca, cb = True, True
    else:
        ca, cb = rng.choice([(False, True), (True, False), (True, True)])
        if rng.random() < 0.3:
            mb = ma
    if scen == "mismatch-long":          # a,xyz against a,other
        s_ = shorts.pop()
        ka, kb = s_ + "," + longs.pop(), s_ + "," + longs.pop()
    elif scen == "mismatch-short":       # b,xyz against a,xyz
        l_ = longs.pop()
        ka, kb = shorts.pop() + "," + l_, shorts.pop() + "," + l_
    elif scen == "part-equal":           # a,xyz against a / xyz against b,xyz ...
        s_, l_ = shorts.pop(), longs.pop()
        ka, kb = rng.choice([(s_ + "," + l_, s_), (s_ + "," + l_, l_), (s_, s_ + "," + l_), (l_, s_ + "," + l_)])
    else:
        ka = kb = fresh()
    i = rng.randint(0, len(fill))
    fill.insert(i, (ma, ca, ka))
    j = rng.randint(i + 1, len(fill))
    fill.insert(j, (mb, cb, kb))
    return n, fill


def group_define_sub_case(rng, cid):
    """definition histories WITH sub-group argument definitions: the same key plain in member A then sub-group in
    member B (b870f06), sub-group then plain, sub-group twice, plain + sub-group in the same member (2dd61bc),
    mismatching pairs, accepted histories with several sub-group definitions, random histories"""
    lines = ["pa cfg begin abbr=1", "pa arg key=Q kind=flag", "pa cfg end"]
    for _ in range(rng.randint(1, 3)):
        scen = rng.choice(GDEF_SUB_SCENARIOS)
        n, defs = group_define_sub_history(rng, scen)
        lines.append(gdef_sub_line(n, defs, "gdef-sub-" + scen))
    return Case(cid, lines)


GDEF_EXH_SPECS = ["a", "xyz", "a,xyz", "a,other", "b,xyz"]


def exhaustive_gdef_sub(max_len):
    """2 members x {plain, sub-group} x GDEF_EXH_SPECS: every history of 1..max_len definitions"""
    import itertools
    items = [(m, s, sp) for m in (0, 1) for s in (False, True) for sp in GDEF_EXH_SPECS]
    head = ["pa cfg begin abbr=1", "pa arg key=Q kind=flag", "pa cfg end"]
    cases, lines = [], list(head)
    for k in range(1, max_len + 1):
        for defs in itertools.product(items, repeat=k):
            lines.append(gdef_sub_line(2, list(defs), "exh-gdef-sub"))
            if len(lines) > 400:
                cases.append(Case("exhgdef-%d" % len(cases), lines))
                lines = list(head)
    if len(lines) > len(head):
        cases.append(Case("exhgdef-%d" % len(cases), lines))
    return cases


_generate_before_gdef_sub = generate


def generate(prop, tier, seed, scale=1):
    for label, cases in _generate_before_gdef_sub(prop, tier, seed, scale):
        yield label, cases
    if prop == "C08":
        rng = random.Random("C08-gdefsub-%s" % seed)
        n = (40 if tier == "quick" else 3000) * scale
        yield "generated", [group_define_sub_case(rng, "gdefsub-%d" % k) for k in range(n)]
        k = 2 if tier == "quick" else 3
        yield "exhaustive gdef-sub: 2 members x {plain, sub-group} x %d key specifications, histories of <= %d definitions" % (
            len(GDEF_EXH_SPECS), k), exhaustive_gdef_sub(k)


# ---- second audit follow-up (appended): rule-breaking lines delivered THROUGH THE SOURCES ---------------------------
# `C02_parse_faithful_sources`, `C02_sound_sources_partial` and the `…_refused_wide` theorems of Props/C02b.lean speak
# about the words of file lines and of the environment value.  This batch delivers the rule-breaking mutations of a
# valid line (all kinds but the cardinality ones: a value from a source is not counted by design, C07) wholly through
# the argument file (alone, or between comment / empty lines) or the environment variable, and expects an exception
# from the implementation alone.  Also: an unknown key behind a flag in one word (`-qx`), behind a word like
# `--name=-` that is no separator, and a missing value at the end of a file line that is followed by another line.

def broken_source_case(rng, cid):
    for _ in range(50):
        args, globs, abbr = G.gen_config(rng)
        uses = G.gen_uses(rng, args, globs)
        if uses is not None:
            break
    else:
        return None
    lines = G.cfg_lines(args, globs, abbr)
    ncfg = len(lines)
    for _ in range(rng.randint(3, 6)):
        r = G.break_rule(rng, args, globs, uses, abbr)
        if r is None or r[1] is None or r[0] in ("too_many", "too_few"):
            continue
        q = [G.quote_word(rng, w) for w in r[1]]
        if any(x is None for x in q):
            continue
        text = " ".join(q)
        mode = rng.random()
        if mode < 0.35:
            opt = file_opt(rng, [text])
        elif mode < 0.65:
            opt = "env=" + G.hx(text)
        else:
            opt = file_opt(rng, [rng.choice(["# a comment", "", "#-x 5"]), text, rng.choice(["", "# end"])])
        lines.append("pa eval x-lbl=broken-src:%s x-exp=%s %s --" % (r[0], G.hx("throw"), opt))
    # wide refusal forms on argv and in a file line: unknown key character behind a flag in the same word
    used_s = set(a.short for a in args if a.short)
    flags = [a.short for a in args if a.kind == "flag" and a.short and not a.cons
             and not any(i_ in tgt for i_, b_ in enumerate(args) if b_ is a for c_ in args for _, tgt, _s in c_.cons)]
    cand = [c for c in "ehxHQZ" if c not in used_s]
    if flags and cand:
        w = "-" + rng.choice(flags) + rng.choice(cand)
        lines.append("pa eval x-lbl=broken-wide:group x-exp=%s -- %s" % (G.hx("throw"), words_hex([w])))
        lines.append("pa eval x-lbl=broken-wide:group-file x-exp=%s %s --" % (G.hx("throw"), file_opt(rng, [w])))
    return Case(cid, lines) if len(lines) > ncfg else None


_generate_before_broken_src = generate


def generate(prop, tier, seed, scale=1):
    for label, cases in _generate_before_broken_src(prop, tier, seed, scale):
        yield label, cases
    if prop in ("C02", "C07"):
        rng = random.Random("%s-brokensrc-%s" % (prop, seed))
        n = (60 if tier == "quick" else 4000) * scale
        cs = [broken_source_case(rng, "bsrc-%d" % k) for k in range(n)]
        yield "generated", [c for c in cs if c is not None]


# ---- fourth seeded round (appended): three generator families, each in a module of its own ---------------------------
# gen_pa_lineends.line_end_case   (C07): argument-file lines whose last word ends in a blank (backslash-escaped or
#     quoted), lines with leading / trailing blanks, blank-only lines, '#' not in column 0, a trailing CR
# gen_pa_valuelist.value_list_case (C06, also C01/C02): multi-value argument, then a sub-group argument (0..2 arguments
#     of the sub handler), then free words, with and without a positional argument
# gen_pa_formats.format_case       (C03, also C01/C02): case formatters on string (and int) arguments combined with
#     mandatory / checks / cardinality / constraints

_generate_before_round4 = generate


def _round4(modname, fname):
    try:
        return getattr(__import__(modname), fname)
    except ImportError:
        return None


def generate(prop, tier, seed, scale=1):
    for label, cases in _generate_before_round4(prop, tier, seed, scale):
        yield label, cases
    fams = {"C07": [("gen_pa_lineends", "line_end_case", 80)],
            "C06": [("gen_pa_valuelist", "value_list_case", 150)],
            "C01": [("gen_pa_valuelist", "value_list_case", 40), ("gen_pa_formats", "format_case", 40)],
            "C02": [("gen_pa_valuelist", "value_list_case", 40), ("gen_pa_formats", "format_case", 40)],
            "C03": [("gen_pa_formats", "format_case", 80), ("gen_pa_valuelist", "value_list_case", 25)]}
    for modname, fname, nq in fams.get(prop, []):
        f = _round4(modname, fname)
        if f is None:
            continue
        rng = random.Random("%s-%s-%s" % (prop, fname, seed))
        n = (nq if tier == "quick" else nq * 60) * scale
        cs = [f(rng, "%s-%d" % (fname.replace("_case", ""), k)) for k in range(n)]
        yield "generated", [c for c in cs if c is not None and len(c.lines) > 2]
