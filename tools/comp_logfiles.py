"""component plugin: rolling log files, Counted / MaxSize policies through files::Handler (C15)"""
import itertools
import random

import vlib
from vlib import Case, Problem

COMPONENT = "logfiles"
DRIVER = "model-logfiles"

# link closure of harness/log_files.cpp in /repo/src (found by linking; nothing from test/, test_output/)
REPO_SOURCES = [
    "src/library/log/files/policy_base.cpp",
    "src/library/log/files/counted.cpp",
    "src/library/log/files/max_size.cpp",
    "src/library/log/filename/builder.cpp",
    "src/library/log/filename/creator.cpp",
    "src/library/common/file_operations.cpp",
    "src/library/common/detail/file_funcs_os.cpp",
    "src/library/common/exception_base.cpp",
    "src/library/common/extract_funcname.cpp",
    "src/library/log/detail/i_log_dest.cpp",
    "src/library/log/detail/log_msg.cpp",
    "src/library/log/detail/format_stream_default.cpp",
    "src/library/log/filter/filters.cpp",
    "src/library/log/filter/detail/duplicate_policy_factory.cpp",
    "src/library/log/filter/detail/log_filter_classes.cpp",
]

PROPERTIES = {
    "C15": {
        "lean_module": "CelmaVerif.Props.C15",
        "kind": "functional",
        "trusted": [
            "hand-written model CelmaVerif/Model/LogFiles.lean of PolicyBase::open/writeMessage/reOpenFile, "
            "Counted/MaxSize::openCheck/rollFiles/writeCheck/written, Handler ctor/message, tied by the correspondence "
            "run (harness/log_files.cpp: the real Counted/MaxSize through files::Handler on real files, ASan+UBSan) "
            "on every invocation; the harness also evaluates the property itself on the directory content after "
            "every event ('!!' lines)",
            "std::ofstream open modes as modelled: out|app|ate keeps the file and tellp() is its size, out|trunc "
            "empties it; ::rename replaces the destination, fails (ignored) when the source is missing; "
            "std::endl writes '\\n' and flushes",
            "filename::Builder maps generation numbers to distinct file names (only the pattern "
            "<dir>/log.<2-digit number>.txt is exercised)",
        ],
        "assumptions": [
            "crash points are at message granularity only: a restart happens between two writeMessage() calls; a "
            "torn line (crash in the middle of operator<<) and OS buffering cannot be exhibited",
            "limit >= 1; messages of any length, also longer than a whole generation (the limit clause then reads: a "
            "generation respects the limit or consists of exactly one message); for the entry-counted policy no "
            "newline inside a message (the count of an existing file is its number of lines; the harness oracle and "
            "diff_is_failure skip histories with newlines for both policies); outside this domain model and code are "
            "still compared but no property is claimed",
            "nothing else writes to, renames or removes files of the log directory; the directory exists and is "
            "writable; no I/O errors; size_t arithmetic does not wrap",
            "generation count below 100 (two-digit number part in the exercised file name pattern)",
        ],
    }
}

RULE = ("cases are independent histories in a fresh directory; one evaluation = one event (start/write/restart) run "
        "on the real policy and on the Lean model, comparing the content of every generation file afterwards; "
        "distinct_nontrivial = distinct (event kind, result class, number of files, newest generation empty or "
        "not, number of bytes in the oldest generation capped at 8)")


def build_harness(work, prop):
    return vlib.build_harness(work, "harness/log_files.cpp", REPO_SOURCES)


# ---------------------------------------------------------------------------------------------
# judging


def msg_len(line):
    hx = line.split(" ")[1]
    return 0 if hx == "-" else len(hx) // 2


def in_domain(case):
    """limit >= 1, no newline in any message.  Messages that are longer than a whole generation are in the
    domain (theorems C15_* with `Writable`, limit clause `GenOk`)."""
    if not case.lines or not case.lines[0].startswith("start "):
        return False
    w = case.lines[0].split(" ")
    limit = int(w[2])
    if limit < 1:
        return False
    for l in case.lines[1:]:
        if l.startswith("write "):
            hx = l.split(" ")[1]
            if "0a" in [hx[i:i + 2] for i in range(0, len(hx), 2)]:
                return False
    return True


def overlong_into_empty(case, index):
    """is operation `index` (0 = the `case` line) the write of a message that does not fit a generation on its
    own while the current generation is empty, on the specified behaviour up to there?"""
    w = case.lines[0].split(" ")
    kind, limit = w[1], int(w[2])
    if kind != "maxsize" or index < 2 or index - 1 >= len(case.lines):
        return False
    op = case.lines[index - 1]
    if not op.startswith("write ") or msg_len(op) + 1 <= limit:
        return False
    sim = Sim(kind, limit)
    for l in case.lines[1:index - 1]:
        if l == "restart":
            sim.restart()
        elif l.startswith("write "):
            sim.write(msg_len(l))
    return sim.cur == 0


KNOWN_LOST = "!! the most recent message is not retained (0 of "
KNOWN_ID = "single-file-restart-loses-all"


def _known_registered():
    import json
    import os
    try:
        d = json.load(open(os.path.join(os.path.dirname(os.path.abspath(__file__)), "..", "known_findings.d",
                                        "logfiles.json")))
        return any(f.get("id") == KNOWN_ID for f in d.get("findings", []))
    except (OSError, ValueError):
        return False


KNOWN_REGISTERED = _known_registered()


def single_file(case):
    for l in case.lines:
        w = l.split(" ")
        if w[0] == "start" and len(w) == 4:
            try:
                return int(w[3]) <= 1
            except ValueError:
                return False
    return False


def judge(prop, case, impl, model):
    """an oracle failure ('!!': the property itself, evaluated on the directory) anywhere in the case wins over
    a model/implementation difference; otherwise line-by-line equality.  The one recorded finding
    (`single-file-restart-loses-all`: max_gen <= 1, a restart empties the only file) is reported as an oracle
    problem of its own - check.py matches it against known_findings.d - and the listing behind " :: " is still
    compared with the model, so that the rest of such a case stays under the differential comparison."""
    ops = ["case " + case.cid] + case.lines
    known = []
    impl2 = list(impl)
    for i, op in enumerate(ops):
        a = impl[i] if i < len(impl) else None
        if a is not None and a.startswith("!!"):
            p = Problem("oracle", case, i, op, a, model[i] if i < len(model) else None)
            # only where the model agrees that the restart found the file full and the directory is empty now;
            # the same oracle line with a different model answer is a different violation
            if (KNOWN_REGISTERED and a.startswith(KNOWN_LOST) and " :: " in a and op == "restart"
                    and single_file(case) and i < len(model) and model[i] == a.split(" :: ", 1)[1]):
                # a kind of its own: the shrinker must not turn a genuine oracle failure of another case
                # into this recorded one (it accepts any problem of the same kind)
                p.kind = "known-oracle"
                known.append(p)
                impl2[i] = a.split(" :: ", 1)[1]
                continue
            return [p]
    return known[:1] + vlib.default_judge(case, impl2, model)


def diff_is_failure(prop, p):
    """On the domain of the theorems (which includes messages longer than a whole generation) the model is
    proved to satisfy the property and never to throw, and the content of the files is then determined except
    for two freedoms the statement leaves:
    * whether a generation in which no further message fits (exactly full, or one over-long message) is left
      alone or already replaced by an empty one when the process restarts;
    * whether a message that does not fit a generation on its own, arriving while the current generation is
      still empty, is put into that empty generation or into a new one (the code and the model start a new one:
      "the next message would exceed it" is true; either way the message ends up alone in its generation).
    A difference that first shows at such a point with both sides `ok` (and no `!!` line anywhere in the case,
    see `judge`) is only a broken tie; every other difference is a failing input: appending to a generation
    although the message does not fit, or starting one although it fits, contradicts the property also when
    over-long messages are in the history."""
    if not in_domain(p.case):
        return False
    a, b = (p.impl or ""), (p.model or "")
    if a.startswith("ok") and b.startswith("ok"):
        if p.line == "restart":
            return False
        if overlong_into_empty(p.case, p.index):
            return False
    return True


def nontrivial_key(op, result):
    w = op.split(" ")
    r = (result or "").split(" ")
    if not r or r[0] not in ("ok", "throw", "!!"):
        return (w[0], r[0] if r else "")
    cls = r[0] if r[0] != "throw" else "throw " + (r[1] if len(r) > 1 else "")
    n = next((x for x in r if x.startswith("n=")), "")
    files = r[-1].split("|") if n and n != "n=0" and not r[-1].startswith("n=") else []
    newest_empty = bool(files) and files[-1] == "-"
    oldest = min(len(files[0]) // 2, 8) if files and files[0] != "-" else 0
    return (w[0], w[1] if w[0] == "start" else "", cls, n, newest_empty, oldest)


def shrink_keep(line):
    return line.startswith("start ")


# ---------------------------------------------------------------------------------------------
# generation


def hexmsg(counter, n):
    """n bytes, no newline, different for consecutive messages"""
    a = 0x41 + counter % 26
    return "".join("%02x" % (a if i % 2 == 0 else 0x30 + (counter // 26 + i) % 10) for i in range(n)) or "-"


class Sim:
    """size of the current generation as the repaired code tracks it (only used to aim at the boundaries)"""

    def __init__(self, kind, limit):
        self.kind, self.limit, self.cur = kind, limit, 0

    def cost(self, n):
        return 1 if self.kind == "counted" else n + 1

    def write(self, n):
        c = self.cost(n)
        self.cur = c if self.cur + c > self.limit else self.cur + c

    def restart(self):
        if self.cur >= self.limit:
            self.cur = 0

    def room(self):
        return max(self.limit - self.cur, 0)


def history(rng, cid, kind, limit, gens, nev, p_restart, off_domain=False, p_over=0.0):
    """p_over: probability that a MaxSize message is chosen longer than a whole generation (length + 1 > limit);
    such a message is followed by 1-3 further writes (short, or aimed at the limit), with or without a restart
    directly behind it, before the ordinary mix continues"""
    sim = Sim(kind, limit)
    lines = ["start %s %d %d" % (kind, limit, gens)]
    k = 0
    if kind == "maxsize" and limit == 0:          # construction throws; only restarts make sense
        return Case(cid, lines + ["restart"] * rng.randint(0, 2))
    forced = []                                   # events scheduled behind an over-long message
    ev = 0
    while ev < nev or forced:
        ev += 1
        f = forced.pop(0) if forced else None
        if f == "r" or (f is None and rng.random() < p_restart):
            lines.append("restart")
            sim.restart()
            continue
        if kind == "counted":
            n = rng.choice([0, 1, 1, 2, 3, 6])
        elif f is not None:
            n = f
        else:
            room = sim.room()
            n = rng.choice([room - 1, room - 1, room, room - 2, 0, 1, 2, limit - 1, limit - 1, rng.randint(0, max(limit - 1, 0))])
            if off_domain and rng.random() < 0.3:
                n = rng.choice([limit, limit + 1, 2 * limit])
            elif rng.random() < p_over:
                n = rng.choice([limit, limit, limit + 1, limit + 2, 2 * limit + 1, limit + rng.randint(0, 6)])
                forced = ["r"] if rng.random() < 0.35 else []
                forced += [rng.choice([0, 0, 1, 2, limit - 2, limit - 1, limit, rng.randint(0, limit)])
                           for _ in range(rng.randint(1, 3))]
                if rng.random() < 0.2:
                    forced.insert(rng.randint(1, len(forced)), "r")
            elif not off_domain:
                n = min(n, limit - 1)
            n = max(n, 0)
        hx = hexmsg(k, n)
        if off_domain and n > 0 and rng.random() < 0.3:      # a newline inside the message
            pos = rng.randrange(n)
            hx = hx[:2 * pos] + "0a" + hx[2 * pos + 2:]
        k += 1
        lines.append("write " + hx)
        sim.write(n)
    return Case(cid, lines)


def exhaustive(kind, limits, gens_list, lens, length, prefix=None):
    """every history of exactly `length` events (each prefix is checked too: the directory is compared after
    every event) over write(len in lens) / restart"""
    cases = []
    alphabet = list(lens) + ["r"]
    k = 0
    for limit in limits:
        for gens in gens_list:
            for seq in itertools.product(alphabet, repeat=length):
                k += 1
                lines = ["start %s %d %d" % (kind, limit, gens)]
                c = 0
                for e in seq:
                    if e == "r":
                        lines.append("restart")
                    else:
                        lines.append("write " + hexmsg(c, e))
                        c += 1
                cases.append(Case("%s%d" % (prefix or "x" + kind[0], k), lines))
    return cases


def generate(prop, tier, seed, scale=1):
    rng = random.Random("%s-%s" % (prop, seed))
    ncases = (1500 if tier == "quick" else 12000) * scale
    cases = []
    for i in range(ncases):
        kind = "counted" if i % 2 else "maxsize"
        if kind == "counted":
            limit = rng.choice([1, 1, 2, 2, 3, 4, 5, 7])
        else:
            limit = rng.choice([1, 2, 3, 8, 9, 12, 16, 24, 31])
        gens = rng.choice([1, 2, 2, 3, 3, 4, 6])
        cases.append(history(rng, "g%d" % i, kind, limit, gens, rng.randint(4, 30), rng.choice([0.05, 0.15, 0.3]),
                             p_over=rng.choice([0.0, 0.0, 0.05])))
    yield "generated", cases
    # messages longer than a whole generation (in the theorems' domain: limit clause GenOk): limits 3..40 bytes,
    # lengths around and above the limit, each over-long message followed by 1-3 more writes with and without a
    # restart in between
    cases = []
    for i in range(ncases // 3):
        limit = rng.choice([3, 4, 5, 8, rng.randint(3, 40), rng.randint(3, 40)])
        gens = rng.choice([1, 2, 2, 3, 3, 4])
        cases.append(history(rng, "v%d" % i, "maxsize", limit, gens, rng.randint(2, 14), rng.choice([0.05, 0.2]),
                             p_over=rng.choice([0.15, 0.3, 0.5])))
    yield "generated over-long messages", cases
    # outside the theorems' domain (tie only): newlines inside messages, limit 0; plus max_gen 0 and over-long
    # messages (in the domain when the rest of the history is)
    cases = []
    for i in range(ncases // 5):
        kind = "counted" if i % 2 else "maxsize"
        limit = rng.choice([0, 1, 2, 3, 5]) if kind == "counted" else rng.choice([0, 1, 4, 8, 13])
        gens = rng.choice([0, 1, 2, 3])
        cases.append(history(rng, "o%d" % i, kind, limit, gens, rng.randint(2, 16), 0.2, off_domain=True))
    yield "generated off-domain", cases
    # exhaustive spaces: every history of the given length over write(len) / restart (all prefixes are
    # checked on the way).  The harness works on real files (~0.3-0.5 ms per event on this disk), which bounds
    # the thorough space: the full product limits 8..24 x lengths 1..6 x length 9 is out of reach.
    if tier == "quick":
        yield "exhaustive counted limit 1..3 gens 1..3 len 7", exhaustive("counted", [1, 2, 3], [1, 2, 3], [1], 7)
        yield "exhaustive maxsize limit 8,10 gens 2..3 lens 1,3,6 len 5", exhaustive("maxsize", [8, 10], [2, 3], [1, 3, 6], 5)
        for limit, gl in ((3, [1, 2, 3]), (5, [2])):
            lens = [0, 1, limit - 1, limit, limit + 2]          # cost 1, 2, = limit, limit + 1, limit + 3
            yield ("exhaustive maxsize over-long limit %d gens %s lens %s len 4"
                   % (limit, ",".join(map(str, gl)), ",".join(map(str, lens))),
                   exhaustive("maxsize", [limit], gl, lens, 4, "y%d" % limit))
    else:
        yield "exhaustive counted limit 1..4 gens 2..3 len 9", exhaustive("counted", [1, 2, 3, 4], [2, 3], [1], 9)
        yield "exhaustive counted limit 1..4 gens 1..3 lens 1,6 len 7", exhaustive("counted", [1, 2, 3, 4], [1, 2, 3], [1, 6], 7)
        yield ("exhaustive maxsize limit 8..24 gens 2..3 lens 1..6 len 4",
               exhaustive("maxsize", list(range(8, 25)), [2, 3], [1, 2, 3, 4, 5, 6], 4))
        yield ("exhaustive maxsize limit 8,9,12 gens 2..3 lens 1,3,6 len 6",
               exhaustive("maxsize", [8, 9, 12], [2, 3], [1, 3, 6], 6))
        yield ("exhaustive maxsize limit 8 gens 2..3 lens 1,3,6 len 7",
               exhaustive("maxsize", [8], [2, 3], [1, 3, 6], 7))
        for limit in (3, 4, 5, 6):
            lens = list(range(0, limit + 2))                    # every cost 1 .. limit + 2
            yield ("exhaustive maxsize over-long limit %d gens 1..3 lens 0..%d len 4" % (limit, limit + 1),
                   exhaustive("maxsize", [limit], [1, 2, 3], lens, 4, "y%d" % limit))
        for limit in (3, 8):
            lens = [0, 1, limit - 1, limit, limit + 2]
            yield ("exhaustive maxsize over-long limit %d gens 1..3 lens %s len 5" % (limit, ",".join(map(str, lens))),
                   exhaustive("maxsize", [limit], [1, 2, 3], lens, 5, "z%d" % limit))
