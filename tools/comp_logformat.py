"""component plugin: log message formatting (C16)

Creator (stream syntax -> field list), Format (field list x message x attributes -> text),
LogMsg, LogAttributes / LogAttributesContainer, ScopedAttribute, StreamLog attribute lookup.
"""
import itertools
import random
import time

import vlib
from vlib import Case

COMPONENT = "logformat"
DRIVER = "model-logformat"

# link closure of the harness below /repo/src/library (found with nm over a scratch build)
SOURCES = """log/formatting/format.cpp log/formatting/creator.cpp log/detail/log_msg.cpp
log/detail/log_attributes_container.cpp log/log_attributes.cpp log/detail/log_scoped_attribute.cpp
log/detail/stream_log.cpp log/detail/log_dest_stream.cpp log/detail/format_stream_default.cpp
log/detail/i_log_dest.cpp log/detail/log.cpp log/detail/log_data.cpp log/detail/log_dest_data.cpp
log/filter/detail/duplicate_policy_factory.cpp log/filter/detail/log_filter_classes.cpp log/filter/filters.cpp
log/logging.cpp common/exception_base.cpp common/extract_funcname.cpp""".split()

PROPERTIES = {
    "C16": {
        "lean_module": "CelmaVerif.Props.C16",
        "kind": "functional",
        "trusted": [
            "hand-written model CelmaVerif/Model/LogFormat.lean of creator.cpp / format.cpp / log_msg.cpp / "
            "log_attributes*.cpp / log_scoped_attribute.cpp / StreamLog::addAttribute, tied by the correspondence "
            "run (harness/log_format.cpp, in-process, ASan+UBSan, TZ=UTC) on every invocation",
            "strftime is a parameter of the model (nothing is proved about it); the run feeds the model the C "
            "library's results for the (format, timestamp) pairs used, cross-checked by the harness",
            "operator<<(ostream&, string) with setw/left/right as modelled by OStream.put (pad, never truncate, "
            "width reset); std::to_string(int), setw(3)/setfill('0'), std::hex as modelled",
            "extractFuncname() is the identity on plain identifiers (not anchored; only such names are generated)",
        ],
        "assumptions": [
            "the destination stream has default formatting state when format() is called (no width, not "
            "left-adjusted, fill ' ')",
            "format strings and separators contain no NUL byte (they travel as C strings); localtime() succeeds",
        ],
    }
}

RULE = ("cases are independent histories (fresh Definition/Creator, Logging singleton reset); one evaluation = one "
        "operation line run on both the real classes and the Lean model; distinct_nontrivial = distinct "
        "(operation, signature) pairs where the signature of `def end` is the set of (field type, width class, "
        "alignment) triples of the definition, of `format`/`slog` the length class of the rendered text, of "
        "other operations the result class")


def build_harness(work, prop):
    return vlib.build_harness(work, "harness/log_format.cpp", ["src/library/" + s for s in SOURCES])


def diff_is_failure(prop, p):
    """Functional property: the model is proved to be the specified rendering, so a differing `def end`
    (field list), `format`/`slog` (text) or `attr get` (lookup) line is a failing input.  Only the function
    name a LogMsg derives from __PRETTY_FUNCTION__ is outside the model (extractFuncname is not anchored)."""
    if p.line.startswith("msg"):
        strip = lambda s: " ".join(x for x in (s or "").split(" ") if not x.startswith("func="))
        return strip(p.impl) != strip(p.model)
    return True


def nontrivial_key(op, result):
    w = op.split(" ")
    r = (result or "").split(" ")
    if w[:2] == ["def", "end"] and len(r) >= 3 and r[2].startswith("fields="):
        sig = set()
        for f in r[2][7:].split(","):
            q = f.split("/")
            if len(q) == 4:
                wd = int(q[2])
                sig.add((q[0], "w-" if wd < 0 else "w0" if wd == 0 else "w+", q[3], "c" if q[1] != "-" else ""))
        return ("def end", tuple(sorted(sig)))
    if w[0] in ("format", "slog"):
        n = len(r[1]) // 2 if len(r) > 1 and r[1] != "-" else 0
        return (w[0], w[1] if len(w) > 1 and w[0] == "format" else "", r[0], min(n, 200) // 4)
    return (" ".join(w[:2]), " ".join(r[:2]) if r and r[0] == "throw" else r[0] if r else "")


def shrink_keep(line):
    return False


# --------------------------------------------------------------------------
# generators


def hx(b):
    if isinstance(b, str):
        b = b.encode("latin-1")
    return b.hex() or "-"


KINDS = ["date", "time", "time_ms", "time_us", "date_time", "pid", "thread_id", "line", "func", "file", "level",
         "class", "errnr", "text"]
DEFAULT_FMTS = ["%F", "%T", "%F %T"]
DATE_FMTS = ["", "%d", "%H:%M", "%Y-%m-%dT%H:%M:%S", "now: %c", "%A %B " * 12, "%%", "%j", "%e.%m.%y", "%r", "%D %R",
             "x", " ", "%a, %d %b %Y", "%U/%W/%V/%G", "%I %p", "%A" * 20, "a" * 126, "b" * 127, "c" * 128, "%n%t"]
SEPS = ["|", " | ", ":", ", ", "", "--"]
CONSTS = ["", "|", " ", "[", "]", "abc", "two words", "tab\there", "nul\x00in", "\xe4\xf6", " lead", "trail ", "x" * 21]
NAMES = ["a", "b", "shade", "color", "", "a b", "A"]
VALUES = ["", "x", "light", "dark", "blue", "two words", " ", "0", "v" * 22]
FILES = ["", "file.cpp", "/a/b/file.cpp", "dir/", "/", "a//b", "noslash", "./x.cpp", "../src/library/log/x.cpp",
         "a/b/", "//", "sp ace/f g.cpp"]
FUNCS = ["f", "main", "test_one", "Class::method", "ns::f2", "_x"]
TEXTS = ["", "x", "hello world", "a b  c", "line1\nline2", "nul\x00in", "\xfc\xff", " ", "t" * 20, "t" * 21, "0123456789"]
INTS = [0, 1, -1, 13, 1234, -2147483648, 2147483647, 99999, 100000, -99999, 42]
PIDS = [0, 1, 77, 4194304, 2147483647, -5, 99999, 100000, 12345]
TIDS = [0, 1, 255, 256, 18446744073709551615, 140737488355327, 4096, 0xdeadbeef]
DAY = 86400
TIMES = [0, 1, DAY - 1, DAY, DAY + 1, 1506525448, 951782399, 951782400, 951868799, 951868800, 2147483647, 2147483648,
         4102444799, 4102444800, 1704067199, 1704067200, 1709251199, 1709251200, 59, 60, 3599, 3600, 43199, 43200]
USECS = [0, 1, 999, 1000, 1001, 999999, 12345, 500000, 99999, 100000, 9999, 10000]
WIDTHS = list(range(-2, 24)) + [0, 0, 1, 5, 6, 7, 10, 11, 12, 15, 19, 20, 21, 30, 64, 200]


def strftime_ref(fmt, ts):
    """the C library's strftime (through Python), UTC; every entry is re-checked by the harness"""
    return time.strftime(fmt, time.gmtime(ts)) if fmt else ""


def tf_table(fmts, ts):
    ent = []
    for f in fmts:
        if f == "":
            continue
        ent.append("%s:%s" % (hx(f), hx(strftime_ref(f, ts))))
    return ",".join(ent) or "-"


def gen_def_tokens(rng, fmts_used, n=None, simple=False):
    """a random stream expression as `def ...` lines"""
    lines = []
    n = rng.randint(0, 9) if n is None else n
    for _ in range(n):
        # pending options, each possibly several times (the last one wins / left accumulates)
        for _ in range(rng.choice([0, 0, 1, 1, 2, 3])):
            o = rng.random()
            if o < 0.45:
                lines.append("def width %d" % rng.choice(WIDTHS))
            elif o < 0.7:
                lines.append("def left")
            elif o < 0.88:
                f = rng.choice(DATE_FMTS)
                fmts_used.add(f)
                lines.append("def datefmt " + hx(f))
            else:
                lines.append("def sep " + rng.choice(["null"] + [hx(s) for s in SEPS]))
        a = rng.random()
        if a < 0.55:
            lines.append("def field " + rng.choice(KINDS))
        elif a < 0.75:
            lines.append("def const " + hx(rng.choice(CONSTS)))
        elif a < 0.93:
            lines.append("def attr " + hx(rng.choice(NAMES)))
        elif a < 0.97:
            lines.append("def field " + rng.choice(["constant", "attribute"]))   # Creator::field() directly
        else:
            lines.append("def creator" + rng.choice(["", " null", " " + hx(rng.choice(SEPS))]))
    return lines


def gen_msg(rng, fmts_used, slog=False):
    ts = rng.choice(TIMES + [rng.randint(0, 4102444800)])
    chain = []
    for _ in range(rng.choice([0, 0, 1, 1, 1, 2, 3])):
        chain.append(",".join("%s:%s" % (hx(rng.choice(NAMES)), hx(rng.choice(VALUES)))
                              for _ in range(rng.choice([0, 1, 1, 2, 3]))) or "-")
    attrs = ";".join(chain) or "-"
    common = "level=%d class=%d errnr=%d line=%d file=%s func=%s" % (
        rng.randint(0, 8), rng.randint(0, 8), rng.choice(INTS + [rng.randint(-10 ** 6, 10 ** 6)]),
        rng.choice(INTS + [rng.randint(0, 10 ** 5)]), hx(rng.choice(FILES)), rng.choice(FUNCS))
    if slog:
        parts = []
        for _ in range(rng.choice([0, 1, 2, 3, 4])):
            parts.append(("t:" + hx(rng.choice(TEXTS))) if rng.random() < 0.6 else ("a:" + hx(rng.choice(NAMES))))
        return "slog %s attrs=%s parts=%s" % (common, attrs, ",".join(parts) or "-")
    return "msg %s pid=%d tid=%d time=%d us=%d text=%s attrs=%s tf=%s" % (
        common, rng.choice(PIDS), rng.choice(TIDS), ts, rng.choice(USECS + [rng.randint(0, 999999)]),
        hx(rng.choice(TEXTS)), attrs, tf_table(sorted(fmts_used | set(DEFAULT_FMTS)), ts))


def gen_attr_ops(rng, depth, k):
    """k random operations on the global attributes; depth = number of live scopes (list of one int)"""
    out = []
    for _ in range(k):
        o = rng.random()
        if o < 0.35:
            out.append("scope push %s %s" % (hx(rng.choice(NAMES)), hx(rng.choice(VALUES))))
            depth[0] += 1
        elif o < 0.55 and depth[0] > 0:
            out.append("scope pop")
            depth[0] -= 1
        elif o < 0.6 and depth[0] > 0:
            # a scope object that does not die in reverse order of construction (heap, other thread)
            out.append("scope drop %d" % rng.randrange(depth[0]))
            depth[0] -= 1
        elif o < 0.63 and depth[0] > 0:
            # a copy of a live scope object is made and dies at once: removeAttributeEntry( id of the original)
            out.append("scope copydrop %d" % rng.randrange(depth[0]))
        elif o < 0.8:
            out.append("attr global %s %s" % (hx(rng.choice(NAMES)), hx(rng.choice(VALUES))))
            depth[1] += 1
        elif o < 0.84 and depth[1] > 0:
            # the application removes an entry by the id addAttribute returned (possibly removed already)
            out.append("attr removeentry %d" % rng.randrange(depth[1]))
        elif o < 0.85:
            out.append("attr removeunknown")
        elif o < 0.92:
            out.append("attr remove " + hx(rng.choice(NAMES)))
        else:
            out.append("attr get " + hx(rng.choice(NAMES)))
    return out


def random_case(rng, cid):
    fmts = set()
    lines = ["def begin" + rng.choice(["", "", " null", " " + hx(rng.choice(SEPS))])]
    lines += gen_def_tokens(rng, fmts)
    lines.append("def end")
    depth = [0, 0]      # live scopes, addAttribute calls so far
    volatile = any(l.startswith("def field") and l.split(" ")[2] in
                   ("date", "time", "time_ms", "time_us", "date_time", "pid", "thread_id") for l in lines)
    for _ in range(rng.randint(1, 4)):
        lines += gen_attr_ops(rng, depth, rng.choice([0, 1, 2, 4]))
        if not volatile and rng.random() < 0.25:
            lines.append(gen_msg(rng, fmts, slog=True))
            continue
        lines.append(gen_msg(rng, fmts))
        lines.append(rng.choice(["format", "format", "format dest"]))
        if rng.random() < 0.4:
            # the same message again after the attribute environment changed
            lines += gen_attr_ops(rng, depth, rng.choice([1, 2, 3]))
            lines.append("format")
        if rng.random() < 0.15:
            # the definition is extended after it was used (test_fields does this)
            more = gen_def_tokens(rng, fmts, n=rng.randint(1, 2))
            if any(l.startswith("def field") and l.split(" ")[2] in
                   ("date", "time", "time_ms", "time_us", "date_time", "pid", "thread_id") for l in more):
                volatile = True
            lines += more + ["def end", gen_msg(rng, fmts), "format"]
    return Case(cid, lines)


def scope_case(rng, cid):
    """well-bracketed scope nestings around one attribute-only definition: the lookup result after a scope
    ends must be the one before it began"""
    names = rng.sample(NAMES, 3)
    lines = ["def begin " + hx("|")] + ["def attr " + hx(n) for n in names] + ["def end"]
    for n in names:
        if rng.random() < 0.6:
            lines.append("attr global %s %s" % (hx(n), hx(rng.choice(VALUES))))
    lines.append("msg text=%s attrs=%s" % (hx("t"), rng.choice(["-", "%s:%s" % (hx(names[0]), hx(rng.choice(VALUES)))])))
    lines.append("format")

    def nest(d):
        out = []
        for _ in range(rng.choice([1, 1, 2, 3]) if d < 4 else 0):
            out.append("scope push %s %s" % (hx(rng.choice(names)), hx(rng.choice(VALUES))))
            out.append("format")
            if rng.random() < 0.6:
                out += nest(d + 1)
            out.append("scope pop")
            out.append("format")
        return out

    lines += nest(0)
    return Case(cid, lines)


def scope_mix_case(rng, cid):
    """scopes with permanent addAttribute / removeAttribute calls of the *same* names inside them and scopes
    ended out of order, the lookup result observed after every event (Logging::getAttribute and a rendering):
    a scope end must take away the scope's own entry and nothing else"""
    names = rng.sample(NAMES, 2)
    lines = ["def begin " + hx("|")] + ["def attr " + hx(n) for n in names] + ["def end"]
    lines.append("msg text=%s attrs=-" % hx("t"))
    depth = 0
    nglob = 0
    for _ in range(rng.randint(3, 12)):
        n = names[0] if rng.random() < 0.75 else names[1]
        o = rng.random()
        if o < 0.3:
            lines.append("scope push %s %s" % (hx(n), hx(rng.choice(VALUES))))
            depth += 1
        elif o < 0.5 and depth:
            lines.append("scope pop")
            depth -= 1
        elif o < 0.58 and depth:
            lines.append("scope drop %d" % rng.randrange(depth))
            depth -= 1
        elif o < 0.64 and depth:
            lines.append("scope copydrop %d" % rng.randrange(depth))
        elif o < 0.82:
            lines.append("attr global %s %s" % (hx(n), hx(rng.choice(VALUES))))
            nglob += 1
        elif o < 0.88 and nglob:
            lines.append("attr removeentry %d" % rng.randrange(nglob))
        elif o < 0.89:
            lines.append("attr removeunknown")
        else:
            lines.append("attr remove " + hx(n))
        lines.append("attr get " + hx(names[0]))
        if rng.random() < 0.5:
            lines.append("format")
    while depth:
        lines.append("scope pop")
        depth -= 1
        lines.append("attr get " + hx(names[0]))
    lines.append("format")
    return Case(cid, lines)


def scope_exhaustive_cases():
    """every history of <= 5 events over one name: push, pop, drop of the oldest live scope, permanent add,
    remove by name; the lookup is observed after every event"""
    evs = ["P", "p", "d", "G", "R"]
    cases = []
    n = hx("a")
    k = 0
    for length in range(1, 6):
        for combo in itertools.product(evs, repeat=length):
            depth, lines, ok, val = 0, [], True, 0
            for e in combo:
                val += 1
                if e == "P":
                    lines.append("scope push %s %s" % (n, hx("s%d" % val)))
                    depth += 1
                elif e == "G":
                    lines.append("attr global %s %s" % (n, hx("g%d" % val)))
                elif e == "R":
                    lines.append("attr remove " + n)
                elif e == "p":
                    if not depth:
                        ok = False
                        break
                    lines.append("scope pop")
                    depth -= 1
                else:
                    if depth < 2:      # drop of the oldest of at least two (otherwise it is a pop)
                        ok = False
                        break
                    lines.append("scope drop %d" % (depth - 1))
                    depth -= 1
                lines.append("attr get " + n)
            if ok:
                k += 1
                cases.append(Case("sx%d" % k, lines))
    return cases


def scope_id_exhaustive_cases():
    """every history of <= 5 events over one name with removal by id: push, pop, permanent add, remove by name,
    a copy of the newest / of the oldest live scope object dying, removeAttributeEntry of the id of the first /
    of the latest addAttribute call; the lookup is observed after every event"""
    evs = ["P", "p", "G", "R", "Cn", "Co", "Ef", "El"]
    cases = []
    n = hx("a")
    k = 0
    for length in range(1, 6):
        for combo in itertools.product(evs, repeat=length):
            if not any(e in ("Cn", "Co", "Ef", "El") for e in combo):
                continue        # covered by scope_exhaustive_cases
            depth, nglob, lines, ok, val = 0, 0, [], True, 0
            for e in combo:
                val += 1
                if e == "P":
                    lines.append("scope push %s %s" % (n, hx("s%d" % val)))
                    depth += 1
                elif e == "G":
                    lines.append("attr global %s %s" % (n, hx("g%d" % val)))
                    nglob += 1
                elif e == "R":
                    lines.append("attr remove " + n)
                elif e == "p":
                    if not depth:
                        ok = False
                        break
                    lines.append("scope pop")
                    depth -= 1
                elif e in ("Cn", "Co"):
                    if not depth or (e == "Co" and depth < 2):
                        ok = False
                        break
                    lines.append("scope copydrop %d" % (0 if e == "Cn" else depth - 1))
                else:
                    if not nglob or (e == "Ef" and nglob < 2):
                        ok = False
                        break
                    lines.append("attr removeentry %d" % (0 if e == "Ef" else nglob - 1))
                lines.append("attr get " + n)
            if ok:
                while depth:
                    lines.append("scope pop")
                    depth -= 1
                    lines.append("attr get " + n)
                k += 1
                cases.append(Case("si%d" % k, lines))
    return cases


EX_FIELDS = {
    "level": "def field level", "text": "def field text", "const": "def const " + hx("ab"),
    "attr": "def attr " + hx("a"), "date": "def field date", "line": "def field line",
}


def exhaustive_cases(kinds, widths, max_fields, per_case=12):
    """every definition of <= max_fields fields over `kinds` x `widths` x {right, left}, with and without an
    automatic separator, rendered for one message whose level/text are exactly 7 bytes long"""
    opts = [(k, w, l) for k in kinds for w in widths for l in (False, True)]
    ts = 951782399
    msg = ("msg level=3 class=4 errnr=13 line=1234 file=%s func=f pid=77 tid=255 time=%d us=12345 text=%s attrs=%s tf=%s"
           % (hx("a/f.cpp"), ts, hx("hello w"), "%s:%s" % (hx("a"), hx("light")), tf_table(DEFAULT_FMTS, ts)))
    cases, cur, k = [], [], 0
    for sep in (None, "|"):
        for n in range(1, max_fields + 1):
            for combo in itertools.product(opts, repeat=n):
                if not cur:
                    cur = [msg]
                cur.append("def begin" + ("" if sep is None else " " + hx(sep)))
                for kind, w, left in combo:
                    if w:
                        cur.append("def width %d" % w)
                    if left:
                        cur.append("def left")
                    cur.append(EX_FIELDS[kind])
                cur += ["def end", "format"]
                k += 1
                if k % per_case == 0:
                    cases.append(Case("x%d" % k, cur))
                    cur = []
    if cur:
        cases.append(Case("x%d" % k, cur))
    return cases


def generate(prop, tier, seed, scale=1):
    rng = random.Random("%s-%s" % (prop, seed))
    n = (6000 if tier == "quick" else 150000) * scale
    cases = []
    for i in range(n):
        cases.append(scope_case(rng, "s%d" % i) if i % 8 == 7 else
                     scope_mix_case(rng, "m%d" % i) if i % 8 == 3 else random_case(rng, "g%d" % i))
    yield "generated", cases
    yield "exhaustive scope histories <=5 events {push, pop, drop oldest, addAttribute, removeAttribute} on one name", \
        scope_exhaustive_cases()
    yield "exhaustive scope histories <=5 events with removal by id {push, pop, addAttribute, removeAttribute, copy of " \
          "newest/oldest live scope dies, removeAttributeEntry(id of first/latest addAttribute)} on one name", \
        scope_id_exhaustive_cases()
    if tier == "quick":
        yield "exhaustive <=3 fields {level,text,const,attr} x width {0,7} x {right,left} x sep {none,'|'}", \
            exhaustive_cases(["level", "text", "const", "attr"], [0, 7], 3)
    else:
        yield "exhaustive <=3 fields {level,text,const,attr,date,line} x width {0,4,7,12} x {right,left} x sep {none,'|'}", \
            exhaustive_cases(["level", "text", "const", "attr", "date", "line"], [0, 4, 7, 12], 3)
