// shared helpers of the correspondence harnesses (line protocol, canonical printing)
#pragma once
#include <cstdio>
#include <cstdlib>
#include <cstring>
#include <functional>
#include <iostream>
#include <sstream>
#include <stdexcept>
#include <string>
#include <typeinfo>
#include <vector>

namespace vh {

struct Eof : public std::exception {
   const char* what() const noexcept override { return "eof"; }
};

inline std::vector<std::string> tokens(const std::string& line) {
   std::vector<std::string> out;
   std::istringstream is(line);
   std::string t;
   while (is >> t) out.push_back(t);
   return out;
}

inline std::string hexOut(const unsigned char* p, size_t n) {
   if (n == 0) return "-";
   static const char* d = "0123456789abcdef";
   std::string s;
   s.reserve(2 * n);
   for (size_t i = 0; i < n; ++i) { s += d[p[i] >> 4]; s += d[p[i] & 15]; }
   return s;
}
inline std::string hexOut(const std::string& s) {
   return hexOut(reinterpret_cast<const unsigned char*>(s.data()), s.size());
}
inline std::string hexOut(const std::vector<unsigned char>& v) { return hexOut(v.data(), v.size()); }

inline int hv(char c) {
   if (c >= '0' && c <= '9') return c - '0';
   if (c >= 'a' && c <= 'f') return c - 'a' + 10;
   if (c >= 'A' && c <= 'F') return c - 'A' + 10;
   return -1;
}
inline bool hexDecode(const std::string& s, std::vector<unsigned char>& out) {
   out.clear();
   if (s == "-") return true;
   if (s.size() % 2) return false;
   for (size_t i = 0; i < s.size(); i += 2) {
      int a = hv(s[i]), b = hv(s[i + 1]);
      if (a < 0 || b < 0) return false;
      out.push_back(static_cast<unsigned char>(a * 16 + b));
   }
   return true;
}
inline bool hexDecodeStr(const std::string& s, std::string& out) {
   std::vector<unsigned char> v;
   if (!hexDecode(s, v)) return false;
   out.assign(v.begin(), v.end());
   return true;
}

inline std::string kv(const std::vector<std::string>& toks, const std::string& key, const std::string& dflt = "") {
   for (auto& t : toks)
      if (t.compare(0, key.size() + 1, key + "=") == 0) return t.substr(key.size() + 1);
   return dflt;
}

inline std::vector<size_t> natList(const std::string& s) {
   std::vector<size_t> out;
   if (s == "-" || s.empty()) return out;
   std::istringstream is(s);
   std::string t;
   while (std::getline(is, t, ',')) out.push_back(std::stoull(t));
   return out;
}

/// runs f; returns "" when it returned normally, otherwise "throw <class>"
inline std::string guarded(const std::function<void()>& f) {
   try { f(); return ""; }
   catch (const Eof&) { return "throw eof"; }
   catch (const std::invalid_argument&) { return "throw invalid_argument"; }
   catch (const std::domain_error&) { return "throw domain_error"; }
   catch (const std::length_error&) { return "throw length_error"; }
   catch (const std::out_of_range&) { return "throw out_of_range"; }
   catch (const std::logic_error&) { return "throw logic_error"; }
   catch (const std::range_error&) { return "throw range_error"; }
   catch (const std::overflow_error&) { return "throw overflow_error"; }
   catch (const std::underflow_error&) { return "throw underflow_error"; }
   catch (const std::runtime_error&) { return "throw runtime_error"; }
   catch (const std::bad_cast&) { return "throw bad_cast"; }
   catch (const std::exception&) { return "throw other"; }
   catch (...) { return "throw non_std"; }
}

/// main loop: one input line -> one output line (comments and empty lines skipped)
inline int run(const std::function<std::string(const std::vector<std::string>&, const std::string&)>& step) {
   std::string line;
   while (std::getline(std::cin, line)) {
      size_t a = line.find_first_not_of(" \t\r");
      if (a == std::string::npos || line[a] == '#') continue;
      auto toks = tokens(line);
      std::string out = step(toks, line);
      std::fputs(out.c_str(), stdout);
      std::fputc('\n', stdout);
      std::fflush(stdout);   // a sanitizer abort must not lose the lines before it
   }
   return 0;
}

}  // namespace vh
