// correspondence harness for the log message formatting (C16):
// celma::log::formatting::Creator / Definition / Format, detail::LogMsg, LogAttributes,
// detail::ScopedAttribute, Logging::add/get/removeAttribute, detail::LogDestStream, detail::StreamLog
#include "common.hpp"
#include <pthread.h>
#include <chrono>
#include <ctime>
#include <memory>
#include <sstream>
#include <string>
#include <vector>
#include "celma/common/exception_base.hpp"
#include "celma/log/detail/log_defs.hpp"
#include "celma/log/log_attributes.hpp"
// LogMsg has no setter for process id, thread id and sub-second time: open the class for the harness
// (everything log_msg.hpp includes is already included above, so only LogMsg itself is affected;
// access specifiers do not change the object layout).
#define private public
#include "celma/log/detail/log_msg.hpp"
#undef private
#include "celma/log/detail/log.hpp"
#include "celma/log/detail/log_dest_stream.hpp"
#include "celma/log/detail/log_scoped_attribute.hpp"
#include "celma/log/detail/stream_log.hpp"
#include "celma/log/formatting/creator.hpp"
#include "celma/log/formatting/format.hpp"
#include "celma/log/logging.hpp"

namespace clf = celma::log::formatting;
using celma::log::detail::LogMsg;
using FT = clf::Definition::FieldTypes;

/// gives read access to the protected field list
class DefAccess : public clf::Definition {
public:
   std::string dump() const {
      std::string out = "ok n=" + std::to_string(mFields.size()) + " fields=";
      if (mFields.empty()) out += "-";
      for (size_t i = 0; i < mFields.size(); ++i) {
         auto const& f = mFields[i];
         if (i) out += ",";
         out += std::to_string(static_cast<int>(f.mType)) + "/" + vh::hexOut(f.mConstant) + "/" +
                std::to_string(f.mFixedWidth) + "/" + (f.mAlignLeft ? "L" : "R");
      }
      return out;
   }
   /// effective strftime format strings of the date/time fields (for the table check)
   std::vector<std::string> timeFormats() const {
      std::vector<std::string> out;
      for (auto const& f : mFields) {
         const char* d = f.mType == FT::date ? "%F" : f.mType == FT::time ? "%T" : f.mType == FT::dateTime ? "%F %T" : nullptr;
         if (d) out.push_back(f.mConstant.empty() ? std::string(d) : f.mConstant);
      }
      return out;
   }
   bool hasVolatileField() const {   // fields a StreamLog-created message fills from the environment
      for (auto const& f : mFields)
         switch (f.mType) {
         case FT::date: case FT::time: case FT::dateTime: case FT::time_ms: case FT::time_us: case FT::pid: case FT::threadId:
            return true;
         default: break;
         }
      return false;
   }
};

static bool fieldKind(const std::string& s, FT& out) {
   static const std::pair<const char*, FT> tab[] = {
      {"constant", FT::constant}, {"date", FT::date}, {"time", FT::time}, {"time_ms", FT::time_ms},
      {"time_us", FT::time_us}, {"date_time", FT::dateTime}, {"pid", FT::pid}, {"thread_id", FT::threadId},
      {"line", FT::lineNbr}, {"func", FT::functionName}, {"file", FT::fileName}, {"level", FT::msgLevel},
      {"class", FT::msgClass}, {"errnr", FT::errorNbr}, {"text", FT::text}, {"attribute", FT::attribute}};
   for (auto& p : tab)
      if (s == p.first) { out = p.second; return true; }
   return false;
}

/// the stream manipulator for a field kind, where one exists (otherwise Creator::field() is called)
static clf::Creator& (*manip(FT t))(clf::Creator&) {
   switch (t) {
   case FT::date: return clf::date;
   case FT::time: return clf::time;
   case FT::time_ms: return clf::time_ms;
   case FT::time_us: return clf::time_us;
   case FT::dateTime: return clf::date_time;
   case FT::pid: return clf::pid;
   case FT::threadId: return clf::thread_id;
   case FT::lineNbr: return clf::line_nbr;
   case FT::functionName: return clf::func_name;
   case FT::fileName: return clf::filename;
   case FT::msgLevel: return clf::level;
   case FT::msgClass: return clf::log_class;
   case FT::errorNbr: return clf::error_nbr;
   case FT::text: return clf::text;
   default: return nullptr;
   }
}

struct State {
   std::unique_ptr<DefAccess> def;
   std::unique_ptr<clf::Creator> creator;
   std::vector<std::unique_ptr<celma::log::detail::ScopedAttribute>> scopes;
   std::vector<celma::log::detail::LogAttributesContainer::attr_id_t> gids;   // ids addAttribute returned
   std::vector<std::unique_ptr<celma::log::LogAttributes>> chain;   // outermost first
   std::unique_ptr<LogMsg> msg;
   time_t msgTime = 0;
   std::vector<std::pair<std::string, std::string>> tf;   // strftime table given with the message
   std::ostringstream slogDest;

   void reset() {
      while (!scopes.empty()) scopes.pop_back();   // newest first
      gids.clear();
      msg.reset();
      chain.clear();
      creator.reset();
      def.reset();
      tf.clear();
      celma::log::Logging::reset();
   }
};

/// "n:v,n:v;n:v" (containers separated by ';', innermost first) -> LogAttributes chain
using Chain = std::vector<std::unique_ptr<celma::log::LogAttributes>>;
static bool buildChain(Chain& chain, const std::string& spec) {
   chain.clear();
   if (spec.empty() || spec == "-") return true;
   std::vector<std::string> conts;
   {
      std::string cur;
      for (char c : spec) { if (c == ';') { conts.push_back(cur); cur.clear(); } else cur += c; }
      conts.push_back(cur);
   }
   // construct from the outermost (last) to the innermost (first)
   for (size_t k = conts.size(); k-- > 0;) {
      const celma::log::LogAttributes* outer = chain.empty() ? nullptr : chain.back().get();
      chain.emplace_back(outer ? new celma::log::LogAttributes(outer) : new celma::log::LogAttributes());
      std::istringstream is(conts[k]);
      std::string pair;
      while (std::getline(is, pair, ',')) {
         if (pair.empty() || pair == "-") continue;
         auto colon = pair.find(':');
         if (colon == std::string::npos) return false;
         std::string n, v;
         if (!vh::hexDecodeStr(pair.substr(0, colon), n) || !vh::hexDecodeStr(pair.substr(colon + 1), v)) return false;
         chain.back()->addAttribute(n, v);
      }
   }
   return true;
}

/// independent reference for the strftime table handed to the model
static std::string refStrftime(const std::string& fmt, time_t t) {
   std::vector<char> buf(256);
   struct tm tmv;
   ::localtime_r(&t, &tmv);
   const std::string f2 = "x" + fmt;   // never an empty result
   for (;;) {
      size_t n = ::strftime(buf.data(), buf.size(), f2.c_str(), &tmv);
      if (n > 0) return std::string(buf.data() + 1, n - 1);
      buf.resize(buf.size() * 2);
   }
}

int main() {
   State st;
   return vh::run([&](const std::vector<std::string>& t, const std::string&) -> std::string {
      if (t.size() == 2 && t[0] == "case") { st.reset(); return "ok"; }

      // ---- definition builder ----
      if (t.size() >= 2 && t[0] == "def") {
         const std::string& op = t[1];
         if (op == "begin" || op == "creator") {
            if (op == "begin") { st.creator.reset(); st.def.reset(new DefAccess()); }
            if (!st.def) return "bad-op";
            std::string sep;
            if (t.size() == 3 && t[2] != "null") {
               if (!vh::hexDecodeStr(t[2], sep)) return "bad-op";
               st.creator.reset(new clf::Creator(*st.def, sep.c_str()));
            } else if (t.size() == 2 || t.size() == 3) {
               st.creator.reset(new clf::Creator(*st.def));
            } else return "bad-op";
            return "ok";
         }
         if (op == "end" && t.size() == 2 && st.def) return st.def->dump();
         if (!st.creator) return "bad-op";
         clf::Creator& c = *st.creator;
         std::string s;
         if (op == "width" && t.size() == 3) { c << std::stoi(t[2]); return "ok"; }
         if (op == "left" && t.size() == 2) { c << clf::left; return "ok"; }
         if (op == "sep" && t.size() == 3) {
            if (t[2] == "null") { c << clf::separator(nullptr); return "ok"; }
            if (!vh::hexDecodeStr(t[2], s)) return "bad-op";
            c << clf::separator(s.c_str());
            return "ok";
         }
         if (op == "datefmt" && t.size() == 3) {
            if (!vh::hexDecodeStr(t[2], s)) return "bad-op";
            c << clf::formatString(s);
            return "ok";
         }
         if (op == "field" && t.size() == 3) {
            FT ft;
            if (!fieldKind(t[2], ft)) return "bad-op";
            if (auto m = manip(ft)) c << m; else c.field(ft);
            return "ok";
         }
         if (op == "const" && t.size() == 3) {
            if (!vh::hexDecodeStr(t[2], s)) return "bad-op";
            c << s;
            return "ok";
         }
         if (op == "attr" && t.size() == 3) {
            if (!vh::hexDecodeStr(t[2], s)) return "bad-op";
            c << clf::attribute(s);
            return "ok";
         }
         return "bad-op";
      }

      // ---- global and scoped attributes ----
      if (t.size() == 4 && t[0] == "attr" && t[1] == "global") {
         std::string n, v;
         if (!vh::hexDecodeStr(t[2], n) || !vh::hexDecodeStr(t[3], v)) return "bad-op";
         st.gids.push_back(celma::log::Logging::instance().addAttribute(n, v));
         return "ok";
      }
      if (t.size() == 3 && t[0] == "attr" && t[1] == "removeentry") {   // the id the j-th addAttribute call returned
         const size_t j = static_cast<size_t>(std::stoull(t[2]));
         if (j >= st.gids.size()) return "bad-op";
         celma::log::Logging::instance().removeAttributeEntry(st.gids[j]);
         return "ok";
      }
      if (t.size() == 2 && t[0] == "attr" && t[1] == "removeunknown") {   // an id that was never handed out
         celma::log::Logging::instance().removeAttributeEntry(
            static_cast<celma::log::detail::LogAttributesContainer::attr_id_t>(-1) - 1000);
         return "ok";
      }
      if (t.size() == 3 && t[0] == "scope" && t[1] == "copydrop") {   // copy of live scope i, destroyed at once
         const size_t i = static_cast<size_t>(std::stoull(t[2]));
         if (i >= st.scopes.size()) return "bad-op";
         { celma::log::detail::ScopedAttribute copy(*st.scopes[st.scopes.size() - 1 - i]); }
         return "ok";
      }
      if (t.size() == 3 && t[0] == "attr" && t[1] == "remove") {
         std::string n;
         if (!vh::hexDecodeStr(t[2], n)) return "bad-op";
         celma::log::Logging::instance().removeAttribute(n);
         return "ok";
      }
      if (t.size() == 4 && t[0] == "scope" && t[1] == "push") {
         std::string n, v;
         if (!vh::hexDecodeStr(t[2], n) || !vh::hexDecodeStr(t[3], v)) return "bad-op";
         st.scopes.emplace_back(new celma::log::detail::ScopedAttribute(n, v));
         return "ok";
      }
      if (t.size() == 2 && t[0] == "scope" && t[1] == "pop") {
         if (st.scopes.empty()) return "bad-op";
         st.scopes.pop_back();
         return "ok";
      }
      if (t.size() == 3 && t[0] == "scope" && t[1] == "drop") {   // live scope number i, 0 = newest
         const size_t i = static_cast<size_t>(std::stoull(t[2]));
         if (i >= st.scopes.size()) return "bad-op";
         st.scopes.erase(st.scopes.end() - 1 - static_cast<std::ptrdiff_t>(i));
         return "ok";
      }
      if (t.size() == 3 && t[0] == "attr" && t[1] == "get") {   // Logging::getAttribute
         std::string n;
         if (!vh::hexDecodeStr(t[2], n)) return "bad-op";
         return "ok " + vh::hexOut(celma::log::Logging::instance().getAttribute(n));
      }

      // ---- message ----
      if (t.size() >= 1 && t[0] == "msg") {
         std::string file, text, func = vh::kv(t, "func", "f");
         if (!vh::hexDecodeStr(vh::kv(t, "file", "-"), file) || !vh::hexDecodeStr(vh::kv(t, "text", "-"), text)) return "bad-op";
         st.msg.reset();
         if (!buildChain(st.chain, vh::kv(t, "attrs", "-"))) return "bad-op";
         st.msg.reset(new LogMsg(file, func.c_str(), std::stoi(vh::kv(t, "line", "0"))));
         LogMsg& m = *st.msg;
         m.setLevel(static_cast<celma::log::LogLevel>(std::stoi(vh::kv(t, "level", "0"))));
         m.setClass(static_cast<celma::log::LogClass>(std::stoi(vh::kv(t, "class", "0"))));
         m.setErrorNumber(std::stoi(vh::kv(t, "errnr", "0")));
         m.setText(text);
         st.msgTime = static_cast<time_t>(std::stoll(vh::kv(t, "time", "0")));
         m.setTimestamp(st.msgTime);
         m.mTimestamp += std::chrono::microseconds(std::stoll(vh::kv(t, "us", "0")));
         m.mProcessId = static_cast<pid_t>(std::stoi(vh::kv(t, "pid", "0")));
         m.mThreadId = static_cast<pthread_t>(std::stoull(vh::kv(t, "tid", "0")));
         if (!st.chain.empty()) m.setAttributes(*st.chain.back());
         // strftime table for the model: check every entry against the C library
         st.tf.clear();
         std::string tfs = vh::kv(t, "tf", "-");
         if (tfs != "-") {
            std::istringstream is(tfs);
            std::string pair;
            while (std::getline(is, pair, ',')) {
               auto colon = pair.find(':');
               std::string f, r;
               if (colon == std::string::npos || !vh::hexDecodeStr(pair.substr(0, colon), f) ||
                   !vh::hexDecodeStr(pair.substr(colon + 1), r))
                  return "bad-op";
               if (refStrftime(f, st.msgTime) != r) return "bad-op strftime table entry differs from the C library: " + pair;
               st.tf.emplace_back(f, r);
            }
         }
         return "ok file=" + vh::hexOut(m.getFileName()) + " func=" + vh::hexOut(m.getFunctionName());
      }

      // ---- rendering ----
      if ((t.size() == 1 || (t.size() == 2 && t[1] == "dest")) && t[0] == "format") {
         if (!st.def || !st.msg) return "bad-op";
         for (auto const& f : st.def->timeFormats()) {
            bool found = false;
            for (auto const& p : st.tf) found = found || p.first == f;
            if (!found) return "bad-op no strftime table entry for " + vh::hexOut(f);
         }
         std::ostringstream oss;
         std::string err;
         if (t.size() == 1) {
            clf::Format fmt(*st.def);
            err = vh::guarded([&] { fmt.formatMsg(oss, *st.msg); });
         } else {
            celma::log::detail::LogDestStream dest(oss);
            dest.setFormatter(new clf::Format(*st.def));
            err = vh::guarded([&] { dest.handleMessage(*st.msg); });
         }
         if (!err.empty()) return err;
         return "ok " + vh::hexOut(oss.str());
      }

      // attribute lookup of the text part of a stream log message: StreamLog::addAttribute
      // `slog level=.. class=.. errnr=.. line=.. file=.. func=.. attrs=.. parts=t:<hex>,a:<namehex>,...`
      // sends the message through Logging to a stream destination using the current definition
      if (t.size() >= 1 && t[0] == "slog") {
         if (!st.def || st.def->hasVolatileField()) return "bad-op";
         std::string file, func = vh::kv(t, "func", "f");
         if (!vh::hexDecodeStr(vh::kv(t, "file", "-"), file)) return "bad-op";
         Chain chain;
         if (!buildChain(chain, vh::kv(t, "attrs", "-"))) return "bad-op";
         auto& lg = celma::log::Logging::instance();
         std::ostringstream oss;
         std::string err = vh::guarded([&] {
            const auto id = lg.findCreateLog("vh");
            auto* log = lg.getLog(id);
            log->removeDestination("d");
            auto* dest = log->addDestination("d", new celma::log::detail::LogDestStream(oss));
            dest->setFormatter(new clf::Format(*st.def));
            {
               celma::log::detail::StreamLog sl(id, file, func.c_str(), std::stoi(vh::kv(t, "line", "0")));
               sl << static_cast<celma::log::LogLevel>(std::stoi(vh::kv(t, "level", "0")))
                  << static_cast<celma::log::LogClass>(std::stoi(vh::kv(t, "class", "0")));
               sl << celma::log::detail::errnbr << std::stoi(vh::kv(t, "errnr", "0"));
               if (!chain.empty()) sl << *chain.back();
               std::string partSpec = vh::kv(t, "parts", "-");
               std::istringstream is(partSpec == "-" ? std::string() : partSpec);
               std::string part;
               while (std::getline(is, part, ',')) {
                  std::string s;
                  if (part.size() < 2 || part[1] != ':' || !vh::hexDecodeStr(part.substr(2), s)) throw std::domain_error("part");
                  if (part[0] == 't') sl << s;
                  else sl << celma::log::attributeValue(s);
               }
            }   // ~StreamLog delivers the message
            log->removeDestination("d");
         });
         if (!err.empty()) return err;
         return "ok " + vh::hexOut(oss.str());
      }
      return "bad-op";
   });
}
