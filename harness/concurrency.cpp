// correspondence harness for celma::common::Singleton<T>::instance() and celma::common::ManagedThread (C20)
//
// Built twice by tools/comp_concurrency.py:
//  * with -DCELMA_VERIF (ASan+UBSan): the sync points of celma/common/detail/verif_hooks.hpp call
//    sch::hook(), which blocks the calling thread until the scheduler releases it.  A schedule is a
//    list of thread ids; each entry releases that thread from the sync point it is waiting at and
//    waits until it has arrived at its next one (or has finished).  Printed: the event trace
//    (thread:sync point), and the outcome.
//  * without the guard, with -fsanitize=thread (binary `concurrency_tsan`): free-running soak of the
//    un-hooked code; the first binary starts it for the `conc soak` operations.
#include "common.hpp"
#include <atomic>
#include <chrono>
#include <condition_variable>
#include <memory>
#include <mutex>
#include <new>
#include <thread>
#include <unistd.h>
#include "celma/common/singleton.hpp"
#include "celma/common/managed_thread.hpp"

using celma::common::ManagedThread;

static std::atomic<int> g_built{0};
static std::atomic<int> g_ctorDelayUs{0};   // mixed-signature soak: the constructor takes a moment (wide first-access window)
// address of the k-th constructed object (k mod 64): identity of an object WITHOUT dereferencing it, for runs in which a
// second construction may already have destroyed the object a thread was handed (the `!!` line instead of an ASan abort)
static std::atomic<const void*> g_objAddr[64];
static std::atomic<bool> g_doubleEntry{false};
static int serialOfAddr(const void* p) {
   int n = g_built.load();
   for (int k = (n > 64 ? 64 : n) - 1; k >= 0; --k) if (g_objAddr[k].load() == p) return k;
   return -1;
}

/// the singleton under test; `serial` is the identity of the object (its construction number).  The constructor has a
/// parameter with a default, so that the object can be requested through several instantiations of the member template
/// `Singleton<T>::instance< Args...>()`: `instance()` (Args = {}), `instance( 32)` (Args = {int}) and
/// `instance( lvalue)` (Args = {int&}) -- three different functions, one object, one class-wide mutex.
class Obj : public celma::common::Singleton<Obj> {
   friend class celma::common::Singleton<Obj>;
public:
   int serial;
   int size;
protected:
   explicit Obj(int sz = 16) : serial(g_built.fetch_add(1, std::memory_order_relaxed)), size(sz) {
      g_objAddr[serial % 64].store(this);
      if (int us = g_ctorDelayUs.load(std::memory_order_relaxed)) std::this_thread::sleep_for(std::chrono::microseconds(us));
   }
};

/// the call signature ("sig") a thread uses for the first access: 0 `instance()`, 1 `instance( 32)`, 2 `instance( lvalue)`
static const Obj& instanceBySig(int sig) {
   int lvalue = 32;
   switch (sig) {
   case 1: return Obj::instance(32);
   case 2: return Obj::instance(lvalue);
   default: return Obj::instance();
   }
}

static const char* sigName(int sig) { return sig == 1 ? "instance(32)" : sig == 2 ? "instance(lvalue)" : "instance()"; }

/// `sig=<s0>,<s1>,...` (every entry 0..2, 1..64 entries); thread i uses entry i mod length
static bool parseSigs(const std::string& tok, std::vector<int>& out) {
   out.clear();
   if (tok.compare(0, 4, "sig=") != 0) return false;
   const std::string s = tok.substr(4);
   if (s.empty() || s == "-") return false;
   for (char c : s) if (!(std::isdigit(static_cast<unsigned char>(c)) || c == ',')) return false;
   if (s.front() == ',' || s.back() == ',' || s.find(",,") != std::string::npos) return false;
   try { for (size_t v : vh::natList(s)) { if (v > 2) return false; out.push_back(static_cast<int>(v)); } }
   catch (...) { return false; }
   return !out.empty() && out.size() <= 64;
}

#ifdef CELMA_VERIF
// ============================================================================ forced schedules

namespace sch {

constexpr int MAXT = 64;
struct Th {
   std::string at;          // sync point the thread is waiting at (without the component prefix)
   bool waiting = false;    // blocked in hook()
   bool go = false;         // released by the scheduler
   bool done = false;       // thread function has returned
   bool known = false;
};
std::mutex m;
std::condition_variable cv;
Th th[MAXT];
bool freeRun = true;
thread_local int tid = -1;

void markDone(int t) {
   std::lock_guard<std::mutex> lk(m);
   th[t].done = true;
   th[t].waiting = false;
   cv.notify_all();
}
/// tells the scheduler that a thread it did not create itself (the one inside ManagedThread) ended
struct ExitNote {
   int t = -1;
   ~ExitNote() { if (t >= 0) markDone(t); }
};
thread_local ExitNote exitNote;

void hook(const char* name) {
   std::unique_lock<std::mutex> lk(m);
   if (freeRun) return;
   if (tid < 0) {
      if (std::strncmp(name, "managed.", 8) != 0) return;
      tid = 1;             // the thread started by the ManagedThread constructor
      exitNote.t = 1;
   }
   Th& t = th[tid];
   const char* dot = std::strchr(name, '.');
   t.at = dot ? dot + 1 : name;
   t.known = true;
   t.waiting = true;
   t.go = false;
   cv.notify_all();
   cv.wait(lk, [&] { return t.go || freeRun; });
   t.waiting = false;
}

/// Wall-clock limits must not turn machine load into a failure of the property: they grow with the load
/// (1-minute load average per hardware thread, never below 1).
inline double loadFactor() {
   double l[1] = {0.0};
   if (getloadavg(l, 1) != 1) return 1.0;
   unsigned hc = std::thread::hardware_concurrency();
   double f = l[0] / (hc ? hc : 1u);
   return f < 1.0 ? 1.0 : f;
}
/// how long a released thread may take to reach its next sync point before the run is declared stuck
inline std::chrono::seconds stuckLimit() {
   double s = 20.0 * loadFactor();
   return std::chrono::seconds(static_cast<long>(s > 600.0 ? 600.0 : s));
}

[[noreturn]] void stuck(const std::string& what) {
   std::printf("!! stuck: %s\n", what.c_str());
   std::fflush(stdout);
   _exit(3);
}

void reset() {
   std::lock_guard<std::mutex> lk(m);
   for (auto& t : th) t = Th();
   freeRun = false;
}
void waitArrive(int t) {
   std::unique_lock<std::mutex> lk(m);
   if (!cv.wait_for(lk, stuckLimit(), [&] { return th[t].waiting || th[t].done; }))
      stuck("thread " + std::to_string(t) + " never reached a sync point");
}
/// release thread t and wait until it is at its next sync point or has finished
void grant(int t) {
   std::unique_lock<std::mutex> lk(m);
   Th& x = th[t];
   x.go = true;
   cv.notify_all();
   if (!cv.wait_for(lk, stuckLimit(), [&] { return (x.waiting && !x.go) || x.done; }))
      stuck("thread " + std::to_string(t) + " released from '" + x.at + "' did not reach another sync point");
}
/// release thread t, expect it NOT to arrive anywhere within `ms`; true when it stayed away
bool releaseExpectBlocked(int t, int ms) {
   std::unique_lock<std::mutex> lk(m);
   Th& x = th[t];
   x.go = true;
   cv.notify_all();
   return !cv.wait_for(lk, std::chrono::milliseconds(ms), [&] { return (x.waiting && !x.go) || x.done; });
}
void letGo() {
   std::lock_guard<std::mutex> lk(m);
   freeRun = true;
   cv.notify_all();
}
std::string at(int t) { std::lock_guard<std::mutex> lk(m); return th[t].at; }
bool done(int t) { std::lock_guard<std::mutex> lk(m); return th[t].done; }
bool known(int t) { std::lock_guard<std::mutex> lk(m); return th[t].known; }

}  // namespace sch

static std::string joinStr(const std::vector<std::string>& v) {
   if (v.empty()) return "-";
   std::string s;
   for (size_t i = 0; i < v.size(); ++i) { if (i) s += ","; s += v[i]; }
   return s;
}

static bool parseSched(const std::string& s, std::vector<int>& out) {
   out.clear();
   if (s == "-") return true;
   try { for (size_t v : vh::natList(s)) out.push_back(static_cast<int>(v)); }
   catch (...) { return false; }
   return true;
}

// ---------------------------------------------------------------------------- singleton

/// `sigs` empty: every thread calls `instance()` and the scheduler's own bookkeeping (from the lock / unlock sync points)
/// says who holds the mutex.  `sigs` given (mixed call signatures): the bookkeeping is NOT trusted for the first thread that
/// wants the mutex while another one is inside: it is really released into lock() and must not arrive at `read2` within
/// PROBE_MS (the model: `blocked`).  It then sits in lock() ("pending") and gets the mutex when the holder unlocks; its
/// next schedule entry is the model's `lock` step.  One pending thread at a time; while there is one, every other thread
/// at `lock` is `blocked` by bookkeeping, also between the holder's unlock and the pending thread's `lock` entry (the real
/// mutex is already taken then -- printed as `reserved`, the generated schedules avoid it).
static std::string runSingleton(int n, const std::vector<int>& sched, const std::vector<int>& sigs = {}) {
   constexpr int PROBE_MS = 80;
   Obj::reset();
   g_built = 0;
   g_doubleEntry = false;
   sch::reset();
   std::vector<int> got(n, -1);
   std::vector<const Obj*> addr(n, nullptr);
   std::vector<std::thread> ws;
   for (int i = 0; i < n; ++i)
      ws.emplace_back([&, i] {
         sch::tid = i;
         const Obj& o = sigs.empty() ? Obj::instance() : instanceBySig(sigs[i % sigs.size()]);
         addr[i] = &o;
         // two threads were seen inside the locked part / a second object exists: the object may be gone already
         got[i] = (g_doubleEntry.load() || g_built.load() > 1) ? serialOfAddr(&o) : o.serial;
         sch::markDone(i);
      });
   for (int i = 0; i < n; ++i) sch::waitArrive(i);
   int holder = -1;
   int pending = -1;          // thread released into lock() while the mutex was held (mixed signatures only)
   int twoInside = -1;        // ... and it came out of lock() although another thread was inside
   int twoInsideHolder = -1;
   bool conflict = false;
   auto chk = [&] {   // store into the cell enabled together with the unlocked first read of another thread
      bool st = false, r1 = false;
      int ws_ = -1;
      for (int i = 0; i < n; ++i) if (!sch::done(i) && sch::at(i) == "store") { st = true; ws_ = i; }
      for (int i = 0; i < n; ++i) if (i != ws_ && !sch::done(i) && sch::at(i) == "read1") r1 = true;
      if (st && r1) conflict = true;
   };
   chk();
   std::vector<std::string> trace;
   for (int t : sched) {
      std::string ev;
      if (t < 0 || t >= n || sch::done(t)) ev = "-";
      else {
         std::string a = sch::at(t);
         if (t == pending) {
            // sits in lock() (or, once the holder has unlocked, at read2 with the mutex)
            if (holder >= 0) ev = "blocked";
            else { sch::waitArrive(t); ev = "lock"; holder = t; pending = -1; }
         } else if (a == "lock" && holder >= 0) {
            if (sigs.empty() || pending >= 0 || twoInside >= 0) ev = "blocked";
            else if (sch::releaseExpectBlocked(t, PROBE_MS)) { ev = "blocked"; pending = t; }
            else { ev = "lock"; twoInside = t; twoInsideHolder = holder; g_doubleEntry = true; }      // the real mutex did not exclude: two threads in the locked part
         } else if (a == "lock" && pending >= 0) ev = "reserved";
         else {
            ev = a;
            sch::grant(t);
            if (a == "lock") holder = t;
            if (a == "unlock" && holder == t) holder = -1;
         }
      }
      trace.push_back(std::to_string(t) + ":" + ev);
      chk();
   }
   int built = g_built.load();
   std::vector<std::string> ids;
   bool same = true;
   const Obj* first = nullptr;
   for (int i = 0; i < n; ++i) {
      if (sch::done(i)) {
         ids.push_back(std::to_string(got[i]));
         if (first == nullptr) first = addr[i];
         if (addr[i] != first) same = false;
      } else ids.push_back("-");
   }
   sch::letGo();
   for (auto& w : ws) w.join();
   int builtEnd = g_built.load();
   bool sameEnd = true;
   for (int i = 0; i < n; ++i) if (addr[i] != addr[0] || got[i] != got[0]) sameEnd = false;
   std::string res = "trace=" + joinStr(trace) + " built=" + std::to_string(built) + " ids=" + joinStr(ids) +
                     " conflict=" + (conflict ? "1" : "0");
   if (twoInside >= 0)
      res = "thread " + std::to_string(twoInside) + " (" + sigName(sigs[twoInside % sigs.size()]) + ") entered the locked part of "
            "instance() while thread " + std::to_string(twoInsideHolder) + " (" + sigName(sigs[twoInsideHolder % sigs.size()]) +
            ") was inside; after all threads returned: built=" + std::to_string(builtEnd) + " same=" + (sameEnd ? "1" : "0") + " " + res;
   if (built > 1 || !same) return "!! constructed more than once or different objects handed out: " + res;
   if (twoInside >= 0) return "!! two threads inside the locked scope of instance() at once: " + res;
   if (n > 0 && (builtEnd != 1 || !sameEnd))
      return "!! after all threads returned: built=" + std::to_string(builtEnd) + " same=" + (sameEnd ? "1" : "0") + " " + res;
   return "ok " + res;
}

/// the mutex really excludes: thread 0 inside the locked scope, thread 1 released into lock() must not arrive
/// `sigs` given: the two threads use these call signatures (two instantiations of instance< Args...>(), one mutex)
static std::string probeLock(const std::vector<int>& sigs = {}) {
   Obj::reset();
   g_built = 0;
   sch::reset();
   std::vector<std::thread> ws;
   for (int i = 0; i < 2; ++i)
      ws.emplace_back([i, &sigs] {
         sch::tid = i;
         if (sigs.empty()) (void) Obj::instance(); else (void) instanceBySig(sigs[i % sigs.size()]);
         sch::markDone(i);
      });
   for (int i = 0; i < 2; ++i) sch::waitArrive(i);
   std::string res = "ok excluded";
   sch::grant(0);                       // read1 -> lock
   sch::grant(1);                       // read1 -> lock
   if (sch::at(0) != "lock" || sch::at(1) != "lock") res = "!! probe: both threads should be about to lock, are at " + sch::at(0) + "/" + sch::at(1);
   else {
      sch::grant(0);                    // holds the mutex now
      if (!sch::releaseExpectBlocked(1, 60)) res = "!! two threads inside the locked scope of instance() at once";
      else {
         int guard = 0;
         while (!sch::done(0) && guard++ < 20) sch::grant(0);
         sch::waitArrive(1);
         if (sch::at(1) != "read2") res = "!! probe: waiter did not enter the locked scope after unlock, is at " + sch::at(1);
      }
   }
   sch::letGo();
   for (auto& w : ws) w.join();
   if (g_built.load() != 1) res = "!! probe: built=" + std::to_string(g_built.load());
   return res;
}

// ---------------------------------------------------------------------------- managed thread

static std::atomic<int> g_fState{0};   // 0 not started, 1 running, 2 returned: the observer's own channel
static std::atomic<int> g_moved{0};    // the callable was copied/moved: the thread is being started

struct Fn {
   Fn() = default;
   Fn(const Fn&) { g_moved.fetch_add(1); }
   Fn(Fn&&) noexcept { g_moved.fetch_add(1); }
   void operator()() const {
      g_fState.store(1);
      sch::hook("managed.in_f");
      g_fState.store(2);
   }
};

static std::string runManaged(int nobs, const std::vector<int>& sched) {
   sch::reset();
   g_fState = 0;
   g_moved = 0;
   alignas(ManagedThread) static unsigned char storage[sizeof(ManagedThread)];
   ManagedThread* obj = reinterpret_cast<ManagedThread*>(storage);
   std::thread parent([&] {
      sch::tid = 0;
      sch::hook("parent.begin");
      new (storage) ManagedThread(Fn{});
      sch::hook("parent.live");
      obj->join();
      sch::hook("parent.joined");
      obj->~ManagedThread();
      sch::markDone(0);
   });
   sch::waitArrive(0);
   std::vector<std::string> trace, samples;
   bool bad = false;
   for (int t : sched) {
      std::string ev = "-";
      if (t == 0) {
         std::string a = sch::at(0);
         if (sch::done(0) || a == "joined") ev = "-";
         else if (a == "live" && !(sch::known(1) && sch::done(1))) ev = "blocked";
         else {
            ev = a;
            sch::grant(0);
            if (g_moved.load() > 0 && !sch::known(1)) sch::waitArrive(1);   // the thread was started: it registers
         }
      } else if (t == 1) {
         if (sch::known(1) && !sch::done(1)) { ev = sch::at(1); sch::grant(1); }
      } else if (t >= 2 && t - 2 < nobs) {
         std::string a = sch::at(0);
         if (!sch::done(0) && (a == "live" || a == "joined")) {
            int fs = g_fState.load();
            bool v = obj->isActive();
            bool joined = (a == "joined");
            ev = "load";
            samples.push_back(std::to_string(t) + ":" + (fs == 0 ? "before" : fs == 1 ? "during" : "after") + ":" +
                              (joined ? "1" : "0") + ":" + (v ? "1" : "0"));
            if (fs == 1 && !v) bad = true;
            if (joined && v) bad = true;
         }
      }
      trace.push_back(std::to_string(t) + ":" + ev);
   }
   sch::letGo();
   parent.join();
   std::string res = "trace=" + joinStr(trace) + " samples=" + joinStr(samples);
   if (bad) return "!! isActive() false while the function runs, or true after join: " + res;
   return "ok " + res;
}

// ---------------------------------------------------------------------------- TSan soak (second binary)

/// one run of the un-hooked TSan binary on `line`, killed after `limit` seconds; exit code in `code`
static std::string soakOnce(const std::string& b, const std::string& line, long limit, int& code, std::string& summary) {
   std::string cmd = "printf '%s\\n' '" + line + "' | timeout -s KILL " + std::to_string(limit) + " " + b + " 2>soak_tsan.log";
   FILE* p = popen(cmd.c_str(), "r");
   if (!p) { code = -2; return ""; }
   char buf[1024];
   std::string out;
   while (std::fgets(buf, sizeof buf, p)) out += buf;
   int st = pclose(p);
   while (!out.empty() && (out.back() == '\n' || out.back() == '\r')) out.pop_back();
   if (out.find('\n') != std::string::npos) out = out.substr(0, out.find('\n'));
   code = WIFEXITED(st) ? WEXITSTATUS(st) : -1;
   summary.clear();
   if (code != 0) {
      if (FILE* f = std::fopen("soak_tsan.log", "r")) {
         while (std::fgets(buf, sizeof buf, f)) {
            std::string l = buf;
            if (l.find("SUMMARY:") != std::string::npos) { summary = l; break; }
            if (summary.empty() && l.find("WARNING: ThreadSanitizer") != std::string::npos) summary = l;
         }
         std::fclose(f);
      }
      while (!summary.empty() && summary.back() == '\n') summary.pop_back();
   }
   return out;
}

static std::string runSoak(const std::string& line) {
   const char* bin = std::getenv("CELMA_CONC_TSAN");
   std::string b = bin ? bin : "./concurrency_tsan";
   if (access(b.c_str(), X_OK) != 0) return "bad-op soak binary " + b + " missing";
   // a mutated tree may corrupt the heap and hang: bounded run time.  The bound grows with the machine load, and a
   // soak that was killed is run once more (this process does nothing else meanwhile) with a ten times longer bound:
   // only a hang that shows twice is a failure; a slow machine is not.
   const double lf = sch::loadFactor();
   const char* base = std::getenv("CELMA_CONC_SOAK_LIMIT");     // seconds, for testing the retry path
   const double b0 = base ? std::atof(base) : 60.0;
   const long limit = static_cast<long>(b0 * lf > 900.0 ? 900.0 : (b0 * lf < 1.0 ? 1.0 : b0 * lf));
   int code = 0;
   std::string summary;
   std::string out = soakOnce(b, line, limit, code, summary);
   if (code == -2) return "bad-op popen";
   if (code == 137 || code == 124) {
      const long retry = limit * 10 > 3600 ? 3600 : (limit * 10 < 600 ? 600 : limit * 10);
      out = soakOnce(b, line, retry, code, summary);
      if (code == 137 || code == 124)
         return "!! soak did not finish within " + std::to_string(limit) + " s and, run again, not within " +
                std::to_string(retry) + " s (hang reproduced twice) [" + out + "]";
      if (FILE* f = std::fopen("soak_retry.notes", "a")) {
         std::fprintf(f, "TSan soak `%s` did not finish within %ld s (load factor %.1f) and was killed; run again with a "
                         "limit of %ld s it finished (exit=%d)\n", line.c_str(), limit, lf, retry, code);
         std::fclose(f);
      }
   }
   if (code == 0) return out.empty() ? "bad-op soak printed nothing" : out;
   if (out.rfind("!!", 0) == 0) return out;
   return "!! soak exit=" + std::to_string(code) + " " + summary + " [" + out + "]";
}

int main() {
   celma::common::detail::verifSyncSlot().store(&sch::hook);
   return vh::run([&](const std::vector<std::string>& t, const std::string& line) -> std::string {
      if (t.size() == 2 && t[0] == "case") return "ok";
      if (t.size() < 2 || t[0] != "conc") return "bad-op";
      std::vector<int> sched;
      if (t[1] == "singleton" && (t.size() == 4 || t.size() == 5)) {
         int n = std::atoi(t[2].c_str());
         if (n < 0 || n > sch::MAXT || !parseSched(t[3], sched)) return "bad-op";
         std::vector<int> sigs;
         if (t.size() == 5 && !parseSigs(t[4], sigs)) return "bad-op";
         return runSingleton(n, sched, sigs);
      }
      if (t[1] == "managed" && t.size() == 4) {
         int nobs = std::atoi(t[2].c_str());
         if (nobs < 0 || nobs > sch::MAXT - 2 || !parseSched(t[3], sched)) return "bad-op";
         return runManaged(nobs, sched);
      }
      if (t[1] == "probe-lock" && t.size() == 2) return probeLock();
      if (t[1] == "probe-lock" && t.size() == 3) {
         std::vector<int> sigs;
         if (!parseSigs(t[2], sigs)) return "bad-op";
         return probeLock(sigs);
      }
      if (t[1] == "soak") {
         for (char c : line) if (!(std::isalnum(static_cast<unsigned char>(c)) || c == ' ' || c == '-' || c == '=' || c == ',')) return "bad-op";
         std::vector<int> sigs;
         if (t.size() == 6 && (t[2] != "singleton" || !parseSigs(t[5], sigs))) return "bad-op";
         return runSoak(line);
      }
      return "bad-op";
   });
}

#else
// ============================================================================ un-hooked soak

/// waiting loops sleep instead of spinning: 16 spinning threads under TSan starve a loaded machine
static inline void nap() { std::this_thread::sleep_for(std::chrono::microseconds(20)); }

/// `sigs` given: thread i requests the object through call signature sigs[i mod length] (mixed instantiations of the member
/// template instance< Args...>(); seeded/C20-4: a function-local static mutex is one mutex PER instantiation) and the
/// constructor takes 300 us, so that the other threads arrive while the first one is still inside the locked part
static std::string soakSingleton(int nthreads, int rounds, const std::vector<int>& sigs = {}) {
   bool okBuilt = true, okSame = true;
   g_ctorDelayUs.store(sigs.empty() ? 0 : 300, std::memory_order_relaxed);
   for (int r = 0; r < rounds; ++r) {
      Obj::reset();
      g_built.store(0, std::memory_order_relaxed);
      std::atomic<int> ready{0}, go{0}, finished{0};
      std::vector<const Obj*> addr(nthreads, nullptr);
      std::vector<int> got(nthreads, -1);
      std::vector<std::thread> ws;
      for (int i = 0; i < nthreads; ++i)
         ws.emplace_back([&, i] {
            ready.fetch_add(1, std::memory_order_relaxed);
            // tight start: spin briefly so that the first accesses really collide, then sleep
            for (int spin = 0; go.load(std::memory_order_relaxed) == 0; ++spin) if (spin > 4000) nap();
            // the last thread is late on purpose: it arrives when the object exists and takes the fast path
            if (i == nthreads - 1 && nthreads > 1 && (r % 2) == 0)
               while (finished.load(std::memory_order_relaxed) == 0) nap();
            const Obj& o = sigs.empty() ? Obj::instance() : instanceBySig(sigs[i % sigs.size()]);
            addr[i] = &o;
            got[i] = o.serial;
            finished.fetch_add(1, std::memory_order_relaxed);
         });
      while (ready.load(std::memory_order_relaxed) < nthreads) nap();
      go.store(1, std::memory_order_relaxed);
      for (auto& w : ws) w.join();
      if (g_built.load() != 1) okBuilt = false;
      for (int i = 0; i < nthreads; ++i) if (addr[i] != addr[0] || got[i] != 0) okSame = false;
   }
   g_ctorDelayUs.store(0, std::memory_order_relaxed);
   std::string res = "soak singleton threads=" + std::to_string(nthreads) + " rounds=" + std::to_string(rounds) +
                     " built=" + (okBuilt ? "1" : "X") + " same=" + (okSame ? "1" : "0");
   return ((okBuilt && okSame) ? "ok " : "!! ") + res;
}

static std::string soakManaged(int nobservers, int rounds) {
   bool okActive = true, okInactive = true;
   for (int r = 0; r < rounds; ++r) {
      std::atomic<int> st{0};
      std::atomic<bool> release{false};
      std::atomic<int> wrong{0};
      {
         ManagedThread mt([&] {
            st.store(1, std::memory_order_relaxed);
            while (!release.load(std::memory_order_relaxed)) nap();
            st.store(2, std::memory_order_relaxed);
         });
         std::vector<std::thread> obs;
         for (int i = 0; i < nobservers; ++i)
            obs.emplace_back([&] {
               while (st.load(std::memory_order_relaxed) < 1) nap();
               // has seen "started"; the function cannot finish before `release`
               for (int k = 0; k < 3; ++k) if (!mt.isActive()) wrong.fetch_add(1, std::memory_order_relaxed);
            });
         for (auto& o : obs) o.join();
         release.store(true, std::memory_order_relaxed);
         while (st.load(std::memory_order_relaxed) < 2) nap();
         mt.join();
         if (mt.isActive()) okInactive = false;
      }
      if (wrong.load() != 0) okActive = false;
   }
   std::string res = "soak managed threads=" + std::to_string(nobservers) + " rounds=" + std::to_string(rounds) +
                     " active=" + (okActive ? "1" : "0") + " inactive=" + (okInactive ? "1" : "0");
   return ((okActive && okInactive) ? "ok " : "!! ") + res;
}

int main() {
   return vh::run([&](const std::vector<std::string>& t, const std::string&) -> std::string {
      if (t.size() == 2 && t[0] == "case") return "ok";
      if ((t.size() == 5 || t.size() == 6) && t[0] == "conc" && t[1] == "soak") {
         int n = std::atoi(t[3].c_str()), r = std::atoi(t[4].c_str());
         if (n < 1 || n > 64 || r < 1 || r > 100000) return "bad-op";
         std::vector<int> sigs;
         if (t.size() == 6 && (t[2] != "singleton" || !parseSigs(t[5], sigs))) return "bad-op";
         if (t[2] == "singleton") return soakSingleton(n, r, sigs);
         if (t[2] == "managed") return soakManaged(n, r);
      }
      return "bad-op";
   });
}
#endif
