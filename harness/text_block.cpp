// correspondence harness for celma::format::TextBlock (C17)
//
//   tb format indent=<n> width=<n> first=<0|1> text=<hex>
//      -> ok out=<hex of exactly what TextBlock::format() wrote>
//      -> !! <failed clauses> out=<hex>      the property's own oracle, evaluated on the real output alone
//      -> throw <class>
//
// The oracle checks only what the property states (see design_notes/textblock.md):
//   words   the words of the output (maximal runs of characters other than ' ' and '\n'), in order,
//           are the words of the input without the "nn" tokens
//   indent  every output line but the first starts with <indent> blanks; the first one does when first=1,
//           and is empty or starts with a non-blank when first=0
//   newline the word that follows an input newline is the first word of its output line
//   width   a line longer than <width> holds at most one word; if it holds one, that word does not fit
//           behind the line's leading blanks; if it holds none, the indentation itself exceeds the width
//           (indent >= width)
#include "common.hpp"
#include <limits>
#include "celma/format/text_block.hpp"

using Words = std::vector<std::string>;

static Words wordsOf(const std::string& s) {
   Words out;
   std::string cur;
   for (char c : s) {
      if (c == ' ' || c == '\n') {
         if (!cur.empty()) out.push_back(cur);
         cur.clear();
      } else
         cur += c;
   }
   if (!cur.empty()) out.push_back(cur);
   return out;
}

static std::vector<std::string> linesOf(const std::string& s) {
   std::vector<std::string> out;
   if (s.empty()) return out;   // nothing written: no output line
   std::string cur;
   for (char c : s) {
      if (c == '\n') { out.push_back(cur); cur.clear(); }
      else cur += c;
   }
   out.push_back(cur);
   return out;
}

static bool parseNat(const std::string& s, int& v) {
   if (s.empty() || s.size() > 9) return false;
   for (char c : s) if (c < '0' || c > '9') return false;
   v = std::stoi(s);
   return true;
}

static std::string oracle(int indent, int width, bool first, const std::string& txt, const std::string& out) {
   std::string bad;
   // --- words
   Words win;
   for (auto& w : wordsOf(txt)) if (w != "nn") win.push_back(w);
   const Words wout = wordsOf(out);
   if (win != wout) bad += " words";
   // --- indentation
   const auto lines = linesOf(out);
   const std::string ind(static_cast<size_t>(indent), ' ');
   bool indOk = true;
   for (size_t i = 0; i < lines.size(); ++i) {
      const bool starts = lines[i].compare(0, ind.size(), ind) == 0 && lines[i].size() >= ind.size();
      if (i > 0 || first) { if (!starts) indOk = false; }
      else if (!lines[i].empty() && lines[i][0] == ' ') indOk = false;
   }
   if (!indOk) bad += " indent";
   // --- newlines: the word after an input newline starts an output line
   if (win == wout) {
      std::vector<bool> startsLine;   // per output word: first word of its line?
      for (auto& l : lines) {
         const size_t n = wordsOf(l).size();
         for (size_t k = 0; k < n; ++k) startsLine.push_back(k == 0);
      }
      bool nlOk = startsLine.size() == wout.size();
      for (size_t p = 0; nlOk && p < txt.size(); ++p) {
         if (txt[p] != '\n') continue;
         size_t k = 0;
         for (auto& w : wordsOf(txt.substr(0, p))) if (w != "nn") ++k;
         if (k > 0 && k < wout.size() && !startsLine[k]) nlOk = false;
      }
      if (!nlOk) bad += " newline";
   }
   // --- width
   bool wOk = true;
   for (auto& l : lines) {
      if (l.size() <= static_cast<size_t>(width)) continue;
      const Words lw = wordsOf(l);
      if (lw.size() > 1) { wOk = false; continue; }
      if (lw.size() == 1) {
         // the single word must be what makes the line too long: it does not fit behind the
         // line's leading blanks (blanks after it do not count as "a word that cannot fit")
         const size_t end = l.find_last_not_of(' ');
         if (end + 1 <= static_cast<size_t>(width)) wOk = false;
      } else if (indent < width) {
         wOk = false;   // a word-less line may exceed the width only when the indentation itself does
      }
   }
   if (!wOk) bad += " width";
   return bad;
}

int main() {
   return vh::run([&](const std::vector<std::string>& t, const std::string&) -> std::string {
      if (t.size() == 2 && t[0] == "case") return "ok";
      if (t.size() == 6 && t[0] == "tb" && t[1] == "format") {
         int indent = 0, width = 0, first = 0;
         std::string txt;
         if (!parseNat(vh::kv(t, "indent", "x"), indent) || !parseNat(vh::kv(t, "width", "x"), width)
             || !parseNat(vh::kv(t, "first", "x"), first) || first > 1
             || !vh::hexDecodeStr(vh::kv(t, "text", "x"), txt))
            return "bad-op";
         std::ostringstream os;
         const std::string thrown = vh::guarded([&] {
            celma::format::TextBlock tb(indent, width, first == 1);
            tb.format(os, txt);
         });
         if (!thrown.empty()) return thrown;
         const std::string out = os.str();
         const std::string bad = oracle(indent, width, first == 1, txt, out);
         if (!bad.empty()) return "!!" + bad + " out=" + vh::hexOut(out);
         return "ok out=" + vh::hexOut(out);
      }
      return "bad-op";
   });
}
