// correspondence + oracle harness for celma::format::int2string / grouped_int2string (C13)
//
// protocol (one output line per input line), see tools/BUILDER_PREAMBLE.md for the conventions:
//   case <id>
//   i2s str     <type> <value> <g>
//   i2s buf     <type> <value> <g> <extra>
//   i2s sweep   <str|buf> <type> <lo> <hi> <g>
//   i2s rsweep  <str|buf> <type> <seed> <count> <g>
//   i2s xsweep  <type> <g>                      (C++ only, exhaustive, 8/16/32 bit types)
//   i2s xrsweep <type> <seed> <count> <g>       (C++ only, random stream of rsweep)
// <type>: u8 i8 u16 i16 u32 i32 u64 i64
// <g>:    '-' plain int2string, 'd' grouped with the default group character,
//         0..255 grouped with that byte as group character
//
// The harness does not special-case any value: the signed minimum of the 32 and 64 bit types
// is expected to abort under UBSan inside the library ("const uintN_t abs_value = -value;").
#include "common.hpp"
#include <algorithm>
#include <atomic>
#include <cerrno>
#include <cstdint>
#include <limits>
#include <memory>
#include <mutex>
#include <thread>
#include <type_traits>
#include "celma/format/int2string.hpp"
// int2string.hpp leaks these two helper macros (no #undef); grouped_int2string.hpp redefines them
#undef FUNCTION_ENABLED
#undef BUFFER_FUNCTION_ENABLED
#include "celma/format/grouped_int2string.hpp"
#include "celma/format/string_to.hpp"

namespace cf = celma::format;

namespace {

using ull = unsigned long long;
using sll = long long;

// ---------------------------------------------------------------- group token

struct Group {
   int mode = 0;             // 0 plain, 1 grouped default argument, 2 grouped explicit byte
   unsigned char gb = 39;    // effective group byte (reference side)
   bool grouped() const { return mode != 0; }
};

bool parseGroup(const std::string& s, Group& g) {
   if (s == "-") { g.mode = 0; g.gb = 39; return true; }
   if (s == "d") { g.mode = 1; g.gb = 39; return true; }
   if (s.empty() || s.size() > 3) return false;
   unsigned v = 0;
   for (char c : s) {
      if (c < '0' || c > '9') return false;
      v = v * 10 + static_cast<unsigned>(c - '0');
   }
   if (v > 255) return false;
   g.mode = 2;
   g.gb = static_cast<unsigned char>(v);
   return true;
}

// ---------------------------------------------------------------- calls into the code under test

template <class T> std::string callStr(T v, const Group& g) {
   switch (g.mode) {
   case 0: return cf::int2string(v);
   case 1: return cf::grouped_int2string(v);
   default: return cf::grouped_int2string(v, static_cast<char>(g.gb));
   }
}

template <class T> int callBuf(char* buffer, T v, const Group& g) {
   switch (g.mode) {
   case 0: return cf::int2string(buffer, v);
   case 1: return cf::grouped_int2string(buffer, v);
   default: return cf::grouped_int2string(buffer, v, static_cast<char>(g.gb));
   }
}

// ---------------------------------------------------------------- printing

/// text printing T(bytes)
std::string T_(const std::string& s) {
   bool raw = !s.empty();
   for (unsigned char c : s)
      if (c < 33 || c > 126) { raw = false; break; }
   if (raw) return s;
   static const char* d = "0123456789abcdef";
   std::string out = "hex:";
   for (unsigned char c : s) { out += d[c >> 4]; out += d[c & 15]; }
   return out;
}

template <class T> std::string valStr(T v) {
   if (std::is_signed<T>::value) return std::to_string(static_cast<sll>(v));
   return std::to_string(static_cast<ull>(v));
}

// ---------------------------------------------------------------- reference

/// inserts gb between every three digits counted from the right, never next to the sign
std::string groupText(const std::string& plain, unsigned char gb) {
   const size_t start = (!plain.empty() && plain[0] == '-') ? 1 : 0;
   const size_t nd = plain.size() - start;
   std::string out = plain.substr(0, start);
   for (size_t i = 0; i < nd; ++i) {
      if (i > 0 && (nd - i) % 3 == 0) out += static_cast<char>(gb);
      out += plain[start + i];
   }
   return out;
}

template <class T> std::string want(T v, const Group& g) {
   char tmp[32];
   if (std::is_signed<T>::value) std::snprintf(tmp, sizeof tmp, "%lld", static_cast<sll>(v));
   else std::snprintf(tmp, sizeof tmp, "%llu", static_cast<ull>(v));
   std::string plain(tmp);
   return g.grouped() ? groupText(plain, g.gb) : plain;
}

// ---------------------------------------------------------------- value token

template <class T> bool parseVal(const std::string& s, T& out) {
   if (s.empty()) return false;
   errno = 0;
   char* e = nullptr;
   if (std::is_signed<T>::value) {
      const sll x = std::strtoll(s.c_str(), &e, 10);
      if (errno != 0 || e == s.c_str() || *e != '\0') return false;
      if (x < static_cast<sll>(std::numeric_limits<T>::min()) || x > static_cast<sll>(std::numeric_limits<T>::max()))
         return false;
      out = static_cast<T>(x);
   } else {
      if (s[0] == '-') return false;
      const ull x = std::strtoull(s.c_str(), &e, 10);
      if (errno != 0 || e == s.c_str() || *e != '\0') return false;
      if (x > static_cast<ull>(std::numeric_limits<T>::max())) return false;
      out = static_cast<T>(x);
   }
   return true;
}

bool parseU64(const std::string& s, uint64_t& out) {
   if (s.empty() || s[0] == '-') return false;
   errno = 0;
   char* e = nullptr;
   const ull x = std::strtoull(s.c_str(), &e, 10);
   if (errno != 0 || e == s.c_str() || *e != '\0') return false;
   out = x;
   return true;
}

// ---------------------------------------------------------------- buffer overload in a guarded arena

struct BufRun {
   int status = 0;      // 0 ok, 1 frame damaged, 2 no NUL, 3 text/length mismatch
   long frameOff = 0;   // status 1: offset relative to the buffer
   int ret = 0;
   std::string text;    // first ret bytes (empty when ret is out of range)
};

inline unsigned char arenaFill(size_t i) { return static_cast<unsigned char>((0xA5u ^ (i * 7u)) & 0xFFu); }

/// runs the buffer overload at arena+32 with cap bytes "owned" and 32 guard bytes on each side
template <class T> BufRun runArena(std::vector<unsigned char>& arena, T v, const Group& g, size_t cap, const std::string& w) {
   BufRun res;
   const size_t total = 32 + cap + 32;
   arena.resize(total);
   for (size_t i = 0; i < total; ++i) arena[i] = arenaFill(i);
   char* buffer = reinterpret_cast<char*>(arena.data()) + 32;
   const int r = callBuf<T>(buffer, v, g);
   res.ret = r;
   const long lim = static_cast<long>(cap + 32);   // bytes available from buffer on
   if (r < 0 || r >= lim) {   // nothing sensible to look at
      res.status = 3;
      return res;
   }
   res.text.assign(buffer, static_cast<size_t>(r));
   for (long k = -32; k < lim; ++k) {
      if (k >= 0 && k <= r) continue;
      if (arena[static_cast<size_t>(k + 32)] != arenaFill(static_cast<size_t>(k + 32))) {
         res.status = 1;
         res.frameOff = k;
         return res;
      }
   }
   if (buffer[r] != '\0') { res.status = 2; return res; }
   if (res.text != w || static_cast<size_t>(r) != w.size()) res.status = 3;
   return res;
}

// ---------------------------------------------------------------- hashing / random stream

struct Fnv {
   uint64_t h = 14695981039346656037ULL;
   void byte(unsigned b) { h = (h ^ static_cast<uint64_t>(b & 0xFFu)) * 1099511628211ULL; }
   void value(const std::string& text, unsigned n) {
      for (unsigned char c : text) byte(c);
      byte((0x80u + n) & 0xFFu);
   }
   std::string hex() const {
      char tmp[24];
      std::snprintf(tmp, sizeof tmp, "%016llx", static_cast<ull>(h));
      return tmp;
   }
};

struct SplitMix {
   uint64_t s;
   uint64_t next() {
      s += 0x9E3779B97F4A7C15ULL;
      uint64_t z = s;
      z = (z ^ (z >> 30)) * 0xBF58476D1CE4E5B9ULL;
      z = (z ^ (z >> 27)) * 0x94D049BB133111EBULL;
      return z ^ (z >> 31);
   }
};

template <class T> T rndValue(SplitMix& sm) {
   using UT = std::make_unsigned_t<T>;
   constexpr unsigned bits = sizeof(T) * 8;
   const uint64_t r1 = sm.next();
   const uint64_t r2 = sm.next();
   const unsigned k = static_cast<unsigned>(r1 % (bits + 1));
   const uint64_t m = (k >= 64) ? r2 : (r2 & ((1ULL << k) - 1));
   if (!std::is_signed<T>::value) return static_cast<T>(m);
   const uint64_t mask = (bits >= 64) ? ~0ULL : ((1ULL << bits) - 1);
   uint64_t u = m;
   if ((r1 >> 32) & 1) u = (~u + 1) & mask;
   return static_cast<T>(static_cast<UT>(u));
}

// ---------------------------------------------------------------- ops 1, 2

template <class T> std::string opStr(const std::vector<std::string>& t) {
   T v;
   Group g;
   if (!parseVal<T>(t[3], v) || !parseGroup(t[4], g)) return "bad-op";
   const std::string id = t[2] + " " + t[3] + " " + t[4];
   const std::string text = callStr<T>(v, g);
   const std::string w = want<T>(v, g);
   if (text != w) return "!! str " + id + ": got=" + T_(text) + " want=" + T_(w);
   const bool sepOk = !g.grouped() || !((g.gb >= '0' && g.gb <= '9') || g.gb == '-');
   if (sepOk) {
      std::string s = text;
      if (g.grouped()) s.erase(std::remove(s.begin(), s.end(), static_cast<char>(g.gb)), s.end());
      bool good = false;
      try { good = cf::stringTo<T>(s) == v; }
      catch (...) { good = false; }
      if (!good) return "!! roundtrip " + id + ": text=" + T_(text);
   }
   return "ok " + T_(text) + " len=" + std::to_string(text.size());
}

template <class T> std::string opBuf(const std::vector<std::string>& t) {
   T v;
   Group g;
   uint64_t extra = 0;
   if (!parseVal<T>(t[3], v) || !parseGroup(t[4], g) || !parseU64(t[5], extra) || extra > (1u << 20)) return "bad-op";
   const std::string id = t[2] + " " + t[3] + " " + t[4];
   const std::string w = want<T>(v, g);
   const size_t cap = w.size() + 1 + static_cast<size_t>(extra);
   // (a) guarded arena
   std::vector<unsigned char> arena;
   const BufRun a = runArena<T>(arena, v, g, cap, w);
   // (b) exact-size heap block: ASan reports any write beyond cap
   std::unique_ptr<char[]> exact(new char[cap]);
   for (size_t i = 0; i < cap; ++i) exact[i] = static_cast<char>(arenaFill(i + 32));
   const int r2 = callBuf<T>(exact.get(), v, g);
   std::string text2;
   if (r2 >= 0 && static_cast<size_t>(r2) < cap) text2.assign(exact.get(), static_cast<size_t>(r2));
   if (a.status == 1) return "!! buf " + id + ": frame damaged at offset " + std::to_string(a.frameOff);
   if (a.status == 2) return "!! buf " + id + ": no NUL at " + std::to_string(a.ret);
   if (a.status == 3) return "!! buf " + id + ": got=" + T_(a.text) + " ret=" + std::to_string(a.ret) + " want=" + T_(w);
   if (r2 != a.ret || text2 != a.text || exact[static_cast<size_t>(r2)] != '\0') return "!! buf " + id + ": runs differ";
   return "ok " + T_(a.text) + " ret=" + std::to_string(a.ret) + " tail=ok";
}

// ---------------------------------------------------------------- ops 3, 4

template <class T> struct Folder {
   bool useBuf;
   Group g;
   std::vector<unsigned char> arena;
   Fnv fnv;
   uint64_t n = 0, mism = 0;
   std::string firstVal, firstGot, firstWant;

   void feed(T v) {
      const std::string w = want<T>(v, g);
      std::string text;
      unsigned len;
      bool good;
      if (useBuf) {
         BufRun a = runArena<T>(arena, v, g, w.size() + 1, w);
         good = a.status == 0;
         len = static_cast<unsigned>(a.ret);
         text.swap(a.text);
      } else {
         text = callStr<T>(v, g);
         len = static_cast<unsigned>(text.size());
         good = text == w;
      }
      fnv.value(text, len);
      ++n;
      if (!good && mism++ == 0) { firstVal = valStr(v); firstGot = text; firstWant = w; }
   }

   std::string result(const std::string& op, const std::string& variant, const std::string& ty, const std::string& gtok) const {
      if (mism != 0)
         return "!! " + op + " " + variant + " " + ty + " " + gtok + ": " + std::to_string(mism) + " mismatches, first value=" +
                firstVal + " got=" + T_(firstGot) + " want=" + T_(firstWant);
      return "ok n=" + std::to_string(n) + " fnv=" + fnv.hex();
   }
};

template <class T> std::string opSweep(const std::vector<std::string>& t) {
   // i2s sweep <str|buf> <type> <lo> <hi> <g>
   T lo, hi;
   Folder<T> f;
   if (!parseVal<T>(t[4], lo) || !parseVal<T>(t[5], hi) || !parseGroup(t[6], f.g)) return "bad-op";
   f.useBuf = t[2] == "buf";
   if (lo <= hi) {
      for (T v = lo;; ++v) {   // no wrap: leaves before incrementing past hi
         f.feed(v);
         if (v == hi) break;
      }
   }
   return f.result("sweep", t[2], t[3], t[6]);
}

template <class T> std::string opRsweep(const std::vector<std::string>& t) {
   // i2s rsweep <str|buf> <type> <seed> <count> <g>
   uint64_t seed = 0, count = 0;
   Folder<T> f;
   if (!parseU64(t[4], seed) || !parseU64(t[5], count) || !parseGroup(t[6], f.g)) return "bad-op";
   f.useBuf = t[2] == "buf";
   SplitMix sm{seed};
   for (uint64_t i = 0; i < count; ++i) f.feed(rndValue<T>(sm));
   return f.result("rsweep", t[2], t[3], t[6]);
}

// ---------------------------------------------------------------- ops 5, 6 (C++ only oracles)

/// collects the mismatch with the smallest key, so that the report does not depend on scheduling
struct FirstMismatch {
   std::mutex mu;
   std::atomic<uint64_t> count{0};
   bool have = false;
   uint64_t key = 0;
   std::string value, variant, got, want;

   void note(uint64_t k, const std::string& val, const char* var, const std::string& g, const std::string& w) {
      count.fetch_add(1, std::memory_order_relaxed);
      std::lock_guard<std::mutex> lock(mu);
      if (have && key <= k) return;
      have = true; key = k; value = val; variant = var; got = g; want = w;
   }

   std::string result(const std::string& op, const std::string& ty, const std::string& gtok, uint64_t n) {
      const uint64_t m = count.load();
      if (m != 0)
         return "!! " + op + " " + ty + " " + gtok + ": " + std::to_string(m) + " mismatches, first value=" + value +
                " variant=" + variant + " got=" + T_(got) + " want=" + T_(want);
      return "ok n=" + std::to_string(n) + " mismatches=0";
   }
};

const char kFives[64] = {
   0x5A, 0x5A, 0x5A, 0x5A, 0x5A, 0x5A, 0x5A, 0x5A, 0x5A, 0x5A, 0x5A, 0x5A, 0x5A, 0x5A, 0x5A, 0x5A,
   0x5A, 0x5A, 0x5A, 0x5A, 0x5A, 0x5A, 0x5A, 0x5A, 0x5A, 0x5A, 0x5A, 0x5A, 0x5A, 0x5A, 0x5A, 0x5A,
   0x5A, 0x5A, 0x5A, 0x5A, 0x5A, 0x5A, 0x5A, 0x5A, 0x5A, 0x5A, 0x5A, 0x5A, 0x5A, 0x5A, 0x5A, 0x5A,
   0x5A, 0x5A, 0x5A, 0x5A, 0x5A, 0x5A, 0x5A, 0x5A, 0x5A, 0x5A, 0x5A, 0x5A, 0x5A, 0x5A, 0x5A, 0x5A};

/// checks both overloads for one value against the expected text w[0..wl)
/// (buffer overload: char[64] pre-filled with 0x5A; ret, NUL and the whole tail behind the NUL are checked)
template <class T> inline void checkBoth(T v, const Group& g, const char* w, size_t wl, uint64_t key, FirstMismatch& fm) {
   {
      const std::string s = callStr<T>(v, g);
      if (s.size() != wl || std::memcmp(s.data(), w, wl) != 0) fm.note(key, valStr(v), "str", s, std::string(w, wl));
   }
   {
      char b[64];
      std::memcpy(b, kFives, sizeof b);
      const int r = callBuf<T>(b, v, g);
      bool good = r >= 0 && r <= 62 && static_cast<size_t>(r) == wl;
      if (good) good = b[r] == '\0' && std::memcmp(b, w, wl) == 0 && std::memcmp(b + r + 1, kFives, static_cast<size_t>(63 - r)) == 0;
      if (!good) {
         std::string got;
         if (r >= 0 && r <= 62) {
            got.assign(b, static_cast<size_t>(r));
            if (b[r] != '\0') got += "<no-NUL>";
            else if (std::memcmp(b + r + 1, kFives, static_cast<size_t>(63 - r)) != 0) got += "<tail-damaged>";
         } else {
            got = "<ret=" + std::to_string(r) + ">";
         }
         fm.note(key + 1, valStr(v), "buf", got, std::string(w, wl));
      }
   }
}

/// decimal odometer: the digits of a magnitude, incremented in place
struct Odometer {
   char d[24];
   int first = 23;   // digits are d[first..23)
   void init(uint64_t m) {
      char tmp[24];
      const int n = std::snprintf(tmp, sizeof tmp, "%llu", static_cast<ull>(m));
      first = 23 - n;
      std::memcpy(d + first, tmp, static_cast<size_t>(n));
   }
   int len() const { return 23 - first; }
   const char* digits() const { return d + first; }
   void inc() {
      int i = 22;
      while (i >= first && d[i] == '9') d[i--] = '0';
      if (i >= first) ++d[i];
      else d[--first] = '1';
   }
   bool equals(uint64_t m) const {
      char tmp[24];
      const int n = std::snprintf(tmp, sizeof tmp, "%llu", static_cast<ull>(m));
      return n == len() && std::memcmp(tmp, digits(), static_cast<size_t>(n)) == 0;
   }
};

/// expected text of (sign, odometer magnitude): writes to w, returns the length
inline size_t buildWant(const Odometer& od, bool neg, bool grouped, char gb, char* w) {
   const char* dg = od.digits();
   const int nd = od.len();
   size_t wl = 0;
   if (neg) w[wl++] = '-';
   int tillSep = grouped ? (nd % 3 == 0 ? 3 : nd % 3) : nd;   // digits before the next separator
   for (int i = 0; i < nd; ++i) {
      if (tillSep == 0) { w[wl++] = gb; tillSep = 3; }
      w[wl++] = dg[i];
      --tillSep;
   }
   return wl;
}

unsigned threadCount() {
   const unsigned n = std::thread::hardware_concurrency();
   return n == 0 ? 1 : n;
}

template <class T> std::string opXsweep(const std::string& ty, const std::string& gtok, const Group& g) {
   constexpr unsigned bits = sizeof(T) * 8;
   constexpr bool sgn = std::is_signed<T>::value;
   static_assert(bits <= 32, "exhaustive sweep only up to 32 bits");
   const uint64_t CH = 65536;
   const uint64_t total = 1ULL << bits;
   const uint64_t half = total >> 1;
   const uint64_t posCount = sgn ? half : total;              // magnitudes 0 .. posCount-1
   const uint64_t posChunks = (posCount + CH - 1) / CH;
   const uint64_t negChunks = sgn ? (half + CH - 1) / CH : 0;  // magnitudes 1 .. half
   const uint64_t nChunks = posChunks + negChunks;
   std::atomic<uint64_t> nextChunk{0}, checked{0}, odoBad{0}, odoBadAt{0};
   FirstMismatch fm;

   auto worker = [&]() {
      for (;;) {
         const uint64_t c = nextChunk.fetch_add(1);
         if (c >= nChunks) break;
         const bool neg = c >= posChunks;
         const uint64_t ci = neg ? c - posChunks : c;
         const uint64_t start = ci * CH + (neg ? 1 : 0);
         const uint64_t end = std::min(start + CH, neg ? half + 1 : posCount);   // exclusive
         Odometer od;
         od.init(start);
         if (!od.equals(start)) { odoBad.fetch_add(1); odoBadAt.store(start); }
         char w[40];
         for (uint64_t m = start; m < end; ++m) {
            const size_t wl = buildWant(od, neg, g.grouped(), static_cast<char>(g.gb), w);
            const T v = neg ? static_cast<T>(-static_cast<sll>(m)) : static_cast<T>(m);
            checkBoth<T>(v, g, w, wl, (c << 18) | ((m - start) << 1), fm);
            if (m + 1 < end) od.inc();
         }
         if (!od.equals(end - 1)) { odoBad.fetch_add(1); odoBadAt.store(end - 1); }
         checked.fetch_add(end - start);
      }
   };

   const unsigned nt = static_cast<unsigned>(std::min<uint64_t>(threadCount(), nChunks));
   std::vector<std::thread> th;
   for (unsigned i = 1; i < nt; ++i) th.emplace_back(worker);
   worker();
   for (auto& x : th) x.join();
   if (odoBad.load() != 0)
      return "!! xsweep " + ty + " " + gtok + ": odometer self-check failed at magnitude " + std::to_string(odoBadAt.load());
   return fm.result("xsweep", ty, gtok, checked.load());
}

template <class T> std::string opXrsweep(const std::vector<std::string>& t) {
   // i2s xrsweep <type> <seed> <count> <g>
   uint64_t seed = 0, count = 0;
   Group g;
   if (!parseU64(t[3], seed) || !parseU64(t[4], count) || !parseGroup(t[5], g)) return "bad-op";
   const uint64_t BLOCK = 1ULL << 22;
   const unsigned nt = threadCount();
   SplitMix sm{seed};
   FirstMismatch fm;
   std::vector<T> vals;
   uint64_t done = 0;
   while (done < count) {
      // one generator thread (this one) keeps the value stream identical to rsweep
      const uint64_t nb = std::min(BLOCK, count - done);
      vals.resize(static_cast<size_t>(nb));
      for (uint64_t i = 0; i < nb; ++i) vals[static_cast<size_t>(i)] = rndValue<T>(sm);
      auto check = [&](uint64_t a, uint64_t b) {
         for (uint64_t i = a; i < b; ++i) {
            const T v = vals[static_cast<size_t>(i)];
            const std::string w = want<T>(v, g);
            checkBoth<T>(v, g, w.data(), w.size(), (done + i) << 1, fm);
         }
      };
      const uint64_t per = (nb + nt - 1) / nt;
      std::vector<std::thread> th;
      for (unsigned k = 1; k < nt; ++k) {
         const uint64_t a = std::min<uint64_t>(nb, k * per), b = std::min<uint64_t>(nb, (k + 1) * per);
         if (a < b) th.emplace_back(check, a, b);
      }
      check(0, std::min(nb, per));
      for (auto& x : th) x.join();
      done += nb;
   }
   return fm.result("xrsweep", t[2], t[5], done);
}

// ---------------------------------------------------------------- type dispatch

template <class F> std::string withType(const std::string& ty, F&& f) {
   if (ty == "u8") return f(uint8_t{});
   if (ty == "i8") return f(int8_t{});
   if (ty == "u16") return f(uint16_t{});
   if (ty == "i16") return f(int16_t{});
   if (ty == "u32") return f(uint32_t{});
   if (ty == "i32") return f(int32_t{});
   if (ty == "u64") return f(uint64_t{});
   if (ty == "i64") return f(int64_t{});
   return "bad-op";
}

template <class T, bool Small = (sizeof(T) <= 4)> struct Xsweep {
   static std::string run(const std::string& ty, const std::string& gtok, const Group& g) { return opXsweep<T>(ty, gtok, g); }
};
template <class T> struct Xsweep<T, false> {
   static std::string run(const std::string&, const std::string&, const Group&) { return "bad-op"; }
};

}  // namespace

int main() {
   return vh::run([&](const std::vector<std::string>& t, const std::string&) -> std::string {
      if (t.size() == 2 && t[0] == "case") return "ok";
      if (t.size() < 2 || t[0] != "i2s") return "bad-op";
      const std::string& op = t[1];
      if (op == "str" && t.size() == 5)
         return withType(t[2], [&](auto tag) { return opStr<decltype(tag)>(t); });
      if (op == "buf" && t.size() == 6)
         return withType(t[2], [&](auto tag) { return opBuf<decltype(tag)>(t); });
      if ((op == "sweep" || op == "rsweep") && t.size() == 7 && (t[2] == "str" || t[2] == "buf")) {
         if (op == "sweep") return withType(t[3], [&](auto tag) { return opSweep<decltype(tag)>(t); });
         return withType(t[3], [&](auto tag) { return opRsweep<decltype(tag)>(t); });
      }
      if (op == "xsweep" && t.size() == 4) {
         Group g;
         if (!parseGroup(t[3], g)) return "bad-op";
         return withType(t[2], [&](auto tag) { return Xsweep<decltype(tag)>::run(t[2], t[3], g); });
      }
      if (op == "xrsweep" && t.size() == 6)
         return withType(t[2], [&](auto tag) { return opXrsweep<decltype(tag)>(t); });
      return "bad-op";
   });
}
