// correspondence harness for the argument handler (C01-C04, C07 sources, C08):
// builds a real celma::prog_args::Handler (or Groups) from configuration lines and evaluates
// argument vectors given as hex words.
#include "common.hpp"

#include <deque>
#include <fstream>
#include <memory>
#include <libgen.h>
#include <sys/stat.h>
#include <unistd.h>

#include "celma/prog_args.hpp"
#include "celma/prog_args/groups.hpp"
#include "celma/prog_args/detail/arg_list_parser.hpp"

using celma::prog_args::Groups;
using celma::prog_args::Handler;
using celma::prog_args::LevelCounter;
namespace cpa = celma::prog_args;

struct ArgSpec {
   std::string key, kind;
   bool mandatory = false, multi = false, deprecated = false, mix = false;
   std::string vmode;                         // "" = default of the kind
   std::string card;                          // "" = default, none, max:n, exact:n, range:lo:hi
   std::vector<std::string> checks;           // lower:3 upper:9 range:1:5 values:<csv>[:ic] minlen:n maxlen:n pattern:<hex>
   std::vector<std::pair<char, std::string>> constraints;   // ('r'|'x', "k1;k2")
   char sep = 0;
   std::string init;                          // initial value (int: decimal, flag: 0/1, str: hex, vec: csv)
};

struct GlobSpec { std::string kind, keys; };

struct Dest {                                 // destination variables of one evaluation
   bool f = false;
   int i = 0;
   std::string s;
   LevelCounter l;
   std::vector<int> v;
};

struct Config {
   bool abbr = true;
   std::vector<ArgSpec> args;
   std::vector<GlobSpec> globs;
};

static std::vector<int> csvInts(const std::string& s) {
   std::vector<int> out;
   if (s.empty() || s == "-") return out;
   std::istringstream is(s);
   std::string t;
   while (std::getline(is, t, ',')) out.push_back(std::stoi(t));
   return out;
}

static void initDest(const ArgSpec& a, Dest& d) {
   if (a.init.empty()) return;
   if (a.kind == "flag") d.f = a.init == "1";
   else if (a.kind == "int") d.i = std::stoi(a.init);
   else if (a.kind == "str") vh::hexDecodeStr(a.init, d.s);
   else if (a.kind == "level") d.l = LevelCounter(std::stoi(a.init));
   else if (a.kind == "vec") d.v = csvInts(a.init);
}

static void defineArg(Handler& h, const ArgSpec& a, Dest& d) {
   cpa::detail::TypedArgBase* t = nullptr;
   if (a.kind == "flag") t = h.addArgument(a.key, cpa::destination(d.f, "f"), "desc");
   else if (a.kind == "int") t = h.addArgument(a.key, cpa::destination(d.i, "i"), "desc");
   else if (a.kind == "str") t = h.addArgument(a.key, cpa::destination(d.s, "s"), "desc");
   else if (a.kind == "level") t = h.addArgument(a.key, cpa::destination(d.l, "l"), "desc");
   else if (a.kind == "vec") t = h.addArgument(a.key, cpa::destination(d.v, "v"), "desc");
   else throw std::logic_error("harness: unknown kind " + a.kind);
   if (a.mandatory) t->setIsMandatory();
   if (a.vmode == "required") t->setValueMode(Handler::ValueMode::required);
   else if (a.vmode == "optional") t->setValueMode(Handler::ValueMode::optional);
   if (!a.card.empty()) {
      auto p = a.card.find(':');
      std::string k = a.card.substr(0, p);
      if (k == "none") t->setCardinality();
      else if (k == "max") t->setCardinality(cpa::cardinality_max(std::stoi(a.card.substr(p + 1))));
      else if (k == "exact") t->setCardinality(cpa::cardinality_exact(std::stoi(a.card.substr(p + 1))));
      else if (k == "range") {
         auto q = a.card.find(':', p + 1);
         t->setCardinality(cpa::cardinality_range(std::stoi(a.card.substr(p + 1, q - p - 1)), std::stoi(a.card.substr(q + 1))));
      }
   }
   for (auto& c : a.checks) {
      auto p = c.find(':');
      std::string k = c.substr(0, p), r = c.substr(p + 1);
      if (k == "lower") t->addCheck(cpa::lower(std::stoi(r)));
      else if (k == "upper") t->addCheck(cpa::upper(std::stoi(r)));
      else if (k == "range") { auto q = r.find(':'); t->addCheck(cpa::range(std::stoi(r.substr(0, q)), std::stoi(r.substr(q + 1)))); }
      else if (k == "values") {
         bool ic = false;
         auto q = r.find(':');
         if (q != std::string::npos) { ic = r.substr(q + 1) == "ic"; r = r.substr(0, q); }
         t->addCheck(cpa::values(r, ic));
      }
      else if (k == "minlen") t->addCheck(cpa::minLength(std::stoul(r)));
      else if (k == "maxlen") t->addCheck(cpa::maxLength(std::stoul(r)));
      else if (k == "pattern") { std::string pat; vh::hexDecodeStr(r, pat); t->addCheck(cpa::pattern(pat)); }   // std::regex, ECMAScript
      else throw std::logic_error("harness: unknown check " + c);
   }
   for (auto& c : a.constraints) {
      if (c.first == 'r') t->addConstraint(cpa::requiresArg(c.second));
      else t->addConstraint(cpa::excludes(c.second));
   }
   if (a.multi) t->setTakesMultiValue();
   if (a.sep) t->setListSep(a.sep);
   if (a.deprecated) t->setIsDeprecated();
   if (a.mix) t->setAllowMixIncSet();
}

static void defineGlob(Handler& h, const GlobSpec& g) {
   if (g.kind == "allof") h.addConstraint(cpa::all_of(g.keys));
   else if (g.kind == "anyof") h.addConstraint(cpa::any_of(g.keys));
   else if (g.kind == "oneof") h.addConstraint(cpa::one_of(g.keys));
   else if (g.kind == "differ") h.addConstraint(cpa::differ(g.keys));
   else if (g.kind == "disjoint") h.addConstraint(cpa::disjoint(g.keys));
   else throw std::logic_error("harness: unknown handler constraint " + g.kind);
}

static std::string showDest(const std::vector<ArgSpec>& args, const std::deque<Dest>& ds) {
   std::string out;
   for (size_t k = 0; k < args.size(); ++k) {
      const auto& a = args[k];
      const auto& d = ds[k];
      out += " " + std::to_string(k) + ":";
      if (a.kind == "flag") out += std::string("f=") + (d.f ? "1" : "0");
      else if (a.kind == "int") out += "i=" + std::to_string(d.i);
      else if (a.kind == "str") out += "s=" + vh::hexOut(d.s);
      else if (a.kind == "level") out += "l=" + std::to_string(d.l.value());
      else {
         out += "v=[";
         for (size_t j = 0; j < d.v.size(); ++j) out += (j ? "," : "") + std::to_string(d.v[j]);
         out += "]";
      }
   }
   return out;
}

// exact-size heap copies of the words: ASan sees every read beyond a word and beyond argv
struct Argv {
   std::vector<std::unique_ptr<char[]>> words;
   std::unique_ptr<char*[]> argv;
   int argc;
   explicit Argv(const std::vector<std::string>& ws) : argc(static_cast<int>(ws.size())) {
      argv.reset(new char*[ws.size() + 1]);
      for (size_t k = 0; k < ws.size(); ++k) {
         words.emplace_back(new char[ws[k].size() + 1]);
         std::memcpy(words.back().get(), ws[k].c_str(), ws[k].size() + 1);
         argv[k] = words.back().get();
      }
      argv[ws.size()] = nullptr;
   }
};

// the file name the handler derives from argv[0]: POSIX basename() of a copy
static std::string progBase(const std::string& prog) {
   std::vector<char> copy(prog.begin(), prog.end());
   copy.push_back('\0');
   return ::basename(copy.data());
}

static const char* typeName(cpa::detail::ArgListElement::Type t) {
   using T = cpa::detail::ArgListElement::Type;
   switch (t) {
   case T::singleCharArg: return "C";
   case T::stringArg: return "S";
   case T::value: return "V";
   case T::control: return "X";
   default: return "I";
   }
}

int main() {
   Config cfg, building;
   bool haveCfg = false;
   std::string progName = "prog";
   ::setenv("HOME", ".", 1);
   return vh::run([&](const std::vector<std::string>& t, const std::string&) -> std::string {
      if (t.size() == 2 && t[0] == "case") { haveCfg = false; cfg = Config(); progName = "prog"; return "ok"; }
      if (t.size() < 2 || t[0] != "pa") return "bad-op";
      if (t[1] == "cfg" && t.size() >= 3 && t[2] == "begin") {
         building = Config();
         building.abbr = vh::kv(t, "abbr", "1") == "1";
         return "ok";
      }
      if (t[1] == "arg") {
         ArgSpec a;
         for (size_t k = 2; k < t.size(); ++k) {
            const std::string& x = t[k];
            auto p = x.find('=');
            std::string key = x.substr(0, p), val = p == std::string::npos ? "" : x.substr(p + 1);
            if (key == "key") a.key = val;
            else if (key == "kind") a.kind = val;
            else if (key == "mandatory") a.mandatory = true;
            else if (key == "multi") a.multi = true;
            else if (key == "deprecated") a.deprecated = true;
            else if (key == "mix") a.mix = true;
            else if (key == "vmode") a.vmode = val;
            else if (key == "card") a.card = val;
            else if (key == "check") a.checks.push_back(val);
            else if (key == "req") a.constraints.emplace_back('r', val);
            else if (key == "excl") a.constraints.emplace_back('x', val);
            else if (key == "sep") { std::string s; vh::hexDecodeStr(val, s); a.sep = s.empty() ? 0 : s[0]; }
            else if (key == "init") a.init = val;
            else return "bad-op";
         }
         building.args.push_back(a);
         return "ok";
      }
      if (t[1] == "glob" && t.size() == 4) { building.globs.push_back({t[2], t[3]}); return "ok"; }
      if (t[1] == "cfg" && t.size() >= 3 && t[2] == "end") {
         // dry run of the definitions: report set-up errors (duplicate keys, invalid constraint lists ...)
         std::deque<Dest> ds(building.args.size());
         std::string err = vh::guarded([&] {
            Handler h(building.abbr ? 0 : Handler::hfNoAbbr);
            for (size_t k = 0; k < building.args.size(); ++k) { initDest(building.args[k], ds[k]); defineArg(h, building.args[k], ds[k]); }
            for (auto& g : building.globs) defineGlob(h, g);
         });
         if (!err.empty()) { haveCfg = false; return err; }
         cfg = building;
         haveCfg = true;
         return "ok args=" + std::to_string(cfg.args.size());
      }
      if (t[1] == "prog" && t.size() == 3) { vh::hexDecodeStr(t[2], progName); return "ok"; }
      if (t[1] == "tokens") {
         std::vector<std::string> ws{progName};
         for (size_t k = 2; k < t.size(); ++k) { std::string w; if (!vh::hexDecodeStr(t[k], w)) return "bad-op"; ws.push_back(w); }
         Argv av(ws);
         std::string out;
         std::string err = vh::guarded([&] {
            cpa::detail::ArgListParser alp(av.argc, av.argv.get());
            auto ai = alp.begin();
            for (; ai != alp.end(); ++ai) {
               out += std::string(" ") + typeName(ai->mElementType) + "@" + std::to_string(ai->mArgIndex);
               using T = cpa::detail::ArgListElement::Type;
               if (ai->mElementType == T::singleCharArg || ai->mElementType == T::control)
                  out += "." + std::to_string(ai->mArgCharPos) + ":" + vh::hexOut(std::string(1, ai->mArgChar));
               else if (ai->mElementType == T::stringArg) out += ":" + vh::hexOut(ai->mArgString);
               else out += ":" + vh::hexOut(ai->mValue);
            }
            // one more ++ on the end iterator (what Handler::iterateArguments() does after a sub-group
            // argument that was the last word): must stay the end iterator, must not read behind argv
            ++ai;
            out += (ai == alp.end()) ? " E" : " E!";
         });
         if (!err.empty()) return err + " after" + out;
         return "ok" + out;
      }
      if (t[1] == "rest") {
         // for every element: argsAsString( true) and argsAsString( false) (which reads through the
         // private isSingleArg()); an exception of one call is printed in place as !<class>
         std::vector<std::string> ws{progName};
         for (size_t k = 2; k < t.size(); ++k) { std::string w; if (!vh::hexDecodeStr(t[k], w)) return "bad-op"; ws.push_back(w); }
         Argv av(ws);
         std::string out;
         std::string err = vh::guarded([&] {
            cpa::detail::ArgListParser alp(av.argc, av.argv.get());
            for (auto ai = alp.begin(); ai != alp.end(); ++ai) {
               for (int self = 1; self >= 0; --self) {
                  std::string r;
                  std::string e = vh::guarded([&] { r = ai.argsAsString(self == 1); });
                  out += std::string(self ? " T=" : " F=") + (e.empty() ? vh::hexOut(r) : "!" + e.substr(6));
               }
            }
         });
         if (!err.empty()) return err + " after" + out;
         return "ok" + out;
      }
      if (t[1] == "gdef") {
         // pa gdef members=<n> -- <m>:<keyspec> ...  : n member handlers are created first, then the
         // definitions are made in the given sequence; result: ok, or the first refusal
         size_t k = 2, n = 0;
         for (; k < t.size() && t[k] != "--"; ++k) {
            if (t[k].compare(0, 8, "members=") == 0) n = std::stoul(t[k].substr(8));
            else if (t[k].compare(0, 2, "x-") == 0) continue;
            else return "bad-op";
         }
         if (k == t.size() || n == 0 || n > 9) return "bad-op";
         std::vector<std::pair<size_t, std::string>> defs;
         for (++k; k < t.size(); ++k) {
            auto c = t[k].find(':');
            if (c == std::string::npos) return "bad-op";
            size_t m = std::stoul(t[k].substr(0, c));
            if (m >= n) return "bad-op";
            defs.emplace_back(m, t[k].substr(c + 1));
         }
         Groups::instance().removeAllArgHandler();
         std::deque<int> dests(defs.size());
         std::string res = "ok";
         {
            std::vector<std::shared_ptr<Handler>> hs;
            for (size_t m = 0; m < n; ++m) hs.push_back(Groups::instance().getArgHandler(std::string("g") + char('0' + m), 0));
            for (size_t d = 0; d < defs.size(); ++d) {
               std::string err = vh::guarded([&] { hs[defs[d].first]->addArgument(defs[d].second, cpa::destination(dests[d], "d"), "desc"); });
               if (!err.empty()) { res = err + " at " + std::to_string(d); break; }
            }
         }
         Groups::instance().removeAllArgHandler();
         return res;
      }
      if (t[1] == "eval" || t[1] == "group") {
         if (!haveCfg) return "bad-op";
         // pa eval [file=<hexline>|<hexline> | fileraw=<hex bytes of the file>] [env=<hex>] -- words...
         // pa group <member of arg 0><member of arg 1>... [order=<perm of members>] -- words...
         size_t k = 2;
         std::string fileSpec, envSpec, membership, order;
         bool haveFile = false, haveEnv = false, fileRaw = false;
         for (; k < t.size() && t[k] != "--"; ++k) {
            if (t[k].compare(0, 5, "file=") == 0) { fileSpec = t[k].substr(5); haveFile = true; }
            else if (t[k].compare(0, 8, "fileraw=") == 0) { fileSpec = t[k].substr(8); haveFile = true; fileRaw = true; }
            else if (t[k].compare(0, 4, "env=") == 0) { envSpec = t[k].substr(4); haveEnv = true; }
            else if (t[k].compare(0, 8, "members=") == 0) membership = t[k].substr(8);
            else if (t[k].compare(0, 6, "order=") == 0) order = t[k].substr(6);
            else if (t[k].compare(0, 2, "x-") == 0) continue;   // generator annotations (expectation, label)
            else return "bad-op";
         }
         if (k == t.size()) return "bad-op";
         std::vector<std::string> ws{progName};
         for (++k; k < t.size(); ++k) { std::string w; if (!vh::hexDecodeStr(t[k], w)) return "bad-op"; ws.push_back(w); }
         Argv av(ws);
         std::deque<Dest> ds(cfg.args.size());
         for (size_t a = 0; a < cfg.args.size(); ++a) initDest(cfg.args[a], ds[a]);
         std::string err;
         if (t[1] == "eval") {
            int flags = cfg.abbr ? 0 : Handler::hfNoAbbr;
            if (haveFile) {
               ::mkdir(".progargs", 0700);
               std::ofstream f(".progargs/" + progBase(progName) + ".pa");
               std::istringstream is(fileSpec);
               std::string hx;
               if (fileRaw) { std::string bytes; vh::hexDecodeStr(fileSpec, bytes); f << bytes; }   // the bytes as they are
               else while (std::getline(is, hx, '|')) { std::string line; vh::hexDecodeStr(hx, line); f << line << "\n"; }
               f.close();
               flags |= Handler::hfReadProgArg;
            }
            if (haveEnv) {
               std::string e;
               vh::hexDecodeStr(envSpec, e);
               ::setenv("CELMA_VERIF_ARGS", e.c_str(), 1);
            }
            err = vh::guarded([&] {
               Handler h(flags);
               if (haveEnv) h.checkEnvVarArgs("CELMA_VERIF_ARGS");
               for (size_t a = 0; a < cfg.args.size(); ++a) defineArg(h, cfg.args[a], ds[a]);
               for (auto& g : cfg.globs) defineGlob(h, g);
               h.evalArguments(av.argc, av.argv.get());
            });
            if (haveFile) ::unlink((".progargs/" + progBase(progName) + ".pa").c_str());
            if (haveEnv) ::unsetenv("CELMA_VERIF_ARGS");
         } else {
            // membership[a] = digit naming the member handler that owns argument a; handler constraints
            // are attached to the member named by the digit after '/' (e.g. members=0011/1)
            std::string gl;
            auto sl = membership.find('/');
            if (sl != std::string::npos) { gl = membership.substr(sl + 1); membership = membership.substr(0, sl); }
            if (membership.size() != cfg.args.size() || gl.size() != cfg.globs.size()) return "bad-op";
            if (order.empty()) { for (char c = '0'; c <= '9'; ++c) if (membership.find(c) != std::string::npos || gl.find(c) != std::string::npos) order += c; }
            Groups::instance().removeAllArgHandler();
            err = vh::guarded([&] {
               std::vector<std::shared_ptr<Handler>> hs(10);
               for (char c : order) hs[c - '0'] = Groups::instance().getArgHandler(std::string("g") + c, cfg.abbr ? 0 : Handler::hfNoAbbr);
               for (size_t a = 0; a < cfg.args.size(); ++a) defineArg(*hs[membership[a] - '0'], cfg.args[a], ds[a]);
               for (size_t g = 0; g < cfg.globs.size(); ++g) defineGlob(*hs[gl[g] - '0'], cfg.globs[g]);
               Groups::instance().evalArguments(av.argc, av.argv.get());
            });
            Groups::instance().removeAllArgHandler();
         }
         if (!err.empty()) return err;
         return "ok" + showDest(cfg.args, ds);
      }
      return "bad-op";
   });
}
