// correspondence harness for the argument handler (C01-C04, C07 sources, C08):
// builds a real celma::prog_args::Handler (or Groups) from configuration lines and evaluates
// argument vectors given as hex words.
#include "common.hpp"

#include <algorithm>
#include <deque>
#include <fstream>
#include <memory>
#include <libgen.h>
#include <sys/stat.h>
#include <sys/wait.h>   // pa argc0: the call runs in a fork()ed child
#include <fcntl.h>
#include <cerrno>
#include <unistd.h>

#include "celma/prog_args.hpp"
#include "celma/prog_args/groups.hpp"
#include "celma/prog_args/detail/arg_list_parser.hpp"

using celma::prog_args::Groups;
using celma::prog_args::Handler;
using celma::prog_args::LevelCounter;
namespace cpa = celma::prog_args;

struct ArgSpec {
   std::string key, kind;
   bool mandatory = false, multi = false, deprecated = false, mix = false;
   std::string vmode;                         // "" = default of the kind
   std::string card;                          // "" = default, none, max:n, exact:n, range:lo:hi
   std::vector<std::string> checks;           // lower:3 upper:9 range:1:5 values:<csv>[:ic] minlen:n maxlen:n pattern:<hex>
   std::vector<std::pair<char, std::string>> constraints;   // ('r'|'x', "k1;k2")
   char sep = 0;
   std::string init;                          // initial value (int: decimal, flag: 0/1, str: hex, vec: csv)
   std::string fmt;                           // "" = no formatter, upper = addFormat( uppercase()), lower = addFormat( lowercase())
};

struct GlobSpec { std::string kind, keys; };

struct Dest {                                 // destination variables of one evaluation
   bool f = false;
   int i = 0;
   std::string s;
   LevelCounter l;
   std::vector<int> v;
};

// one line of a configuration in line order: 'a' = args[idx], 'g' = globs[idx], 's' = subs[idx] (the whole
// `pa sub begin` ... `pa sub end` block: the sub handler is created, its own items are defined, then the
// sub-group argument is added to the owning handler)
typedef std::pair<char, size_t> Item;

struct SubSpec {                              // a sub-group argument and the handler it refers to
   std::string key;
   bool mandatory = false, deprecated = false, abbr = true;
   std::string card;                          // "" = none installed (a TypedArgSubGroup has no cardinality by default)
   std::vector<std::pair<char, std::string>> constraints;
   std::vector<ArgSpec> args;
   std::vector<GlobSpec> globs;
   std::vector<Item> items;                   // the sub handler's own lines in order
};

struct Config {
   bool abbr = true;
   std::vector<ArgSpec> args;
   std::vector<GlobSpec> globs;
   std::vector<SubSpec> subs;
   std::vector<Item> items;                   // the main handler's lines in order
};

static std::vector<int> csvInts(const std::string& s) {
   std::vector<int> out;
   if (s.empty() || s == "-") return out;
   std::istringstream is(s);
   std::string t;
   while (std::getline(is, t, ',')) out.push_back(std::stoi(t));
   return out;
}

static void initDest(const ArgSpec& a, Dest& d) {
   if (a.init.empty()) return;
   if (a.kind == "flag") d.f = a.init == "1";
   else if (a.kind == "int") d.i = std::stoi(a.init);
   else if (a.kind == "str") vh::hexDecodeStr(a.init, d.s);
   else if (a.kind == "level") d.l = LevelCounter(std::stoi(a.init));
   else if (a.kind == "vec") d.v = csvInts(a.init);
}

static void applyCardinality(cpa::detail::TypedArgBase* t, const std::string& card) {
   auto p = card.find(':');
   std::string k = card.substr(0, p);
   if (k == "none") t->setCardinality();
   else if (k == "max") t->setCardinality(cpa::cardinality_max(std::stoi(card.substr(p + 1))));
   else if (k == "exact") t->setCardinality(cpa::cardinality_exact(std::stoi(card.substr(p + 1))));
   else if (k == "range") {
      auto q = card.find(':', p + 1);
      t->setCardinality(cpa::cardinality_range(std::stoi(card.substr(p + 1, q - p - 1)), std::stoi(card.substr(q + 1))));
   }
   else throw std::logic_error("harness: unknown cardinality " + card);
}

static void defineArg(Handler& h, const ArgSpec& a, Dest& d) {
   cpa::detail::TypedArgBase* t = nullptr;
   if (a.kind == "flag") t = h.addArgument(a.key, cpa::destination(d.f, "f"), "desc");
   else if (a.kind == "int") t = h.addArgument(a.key, cpa::destination(d.i, "i"), "desc");
   else if (a.kind == "str") t = h.addArgument(a.key, cpa::destination(d.s, "s"), "desc");
   else if (a.kind == "level") t = h.addArgument(a.key, cpa::destination(d.l, "l"), "desc");
   else if (a.kind == "vec") t = h.addArgument(a.key, cpa::destination(d.v, "v"), "desc");
   else throw std::logic_error("harness: unknown kind " + a.kind);
   if (a.mandatory) t->setIsMandatory();
   if (a.vmode == "required") t->setValueMode(Handler::ValueMode::required);
   else if (a.vmode == "optional") t->setValueMode(Handler::ValueMode::optional);
   if (!a.card.empty()) applyCardinality(t, a.card);
   for (auto& c : a.checks) {
      auto p = c.find(':');
      std::string k = c.substr(0, p), r = c.substr(p + 1);
      if (k == "lower") t->addCheck(cpa::lower(std::stoi(r)));
      else if (k == "upper") t->addCheck(cpa::upper(std::stoi(r)));
      else if (k == "range") { auto q = r.find(':'); t->addCheck(cpa::range(std::stoi(r.substr(0, q)), std::stoi(r.substr(q + 1)))); }
      else if (k == "values") {
         bool ic = false;
         auto q = r.find(':');
         if (q != std::string::npos) { ic = r.substr(q + 1) == "ic"; r = r.substr(0, q); }
         t->addCheck(cpa::values(r, ic));
      }
      else if (k == "minlen") t->addCheck(cpa::minLength(std::stoul(r)));
      else if (k == "maxlen") t->addCheck(cpa::maxLength(std::stoul(r)));
      else if (k == "pattern") { std::string pat; vh::hexDecodeStr(r, pat); t->addCheck(cpa::pattern(pat)); }   // std::regex, ECMAScript
      else throw std::logic_error("harness: unknown check " + c);
   }
   for (auto& c : a.constraints) {
      if (c.first == 'r') t->addConstraint(cpa::requiresArg(c.second));
      else t->addConstraint(cpa::excludes(c.second));
   }
   if (a.fmt == "upper") t->addFormat(cpa::uppercase());
   else if (a.fmt == "lower") t->addFormat(cpa::lowercase());
   if (a.multi) t->setTakesMultiValue();
   if (a.sep) t->setListSep(a.sep);
   if (a.deprecated) t->setIsDeprecated();
   if (a.mix) t->setAllowMixIncSet();
}

static void defineGlob(Handler& h, const GlobSpec& g) {
   if (g.kind == "allof") h.addConstraint(cpa::all_of(g.keys));
   else if (g.kind == "anyof") h.addConstraint(cpa::any_of(g.keys));
   else if (g.kind == "oneof") h.addConstraint(cpa::one_of(g.keys));
   else if (g.kind == "differ") h.addConstraint(cpa::differ(g.keys));
   else if (g.kind == "disjoint") h.addConstraint(cpa::disjoint(g.keys));
   else throw std::logic_error("harness: unknown handler constraint " + g.kind);
}

// the run-time objects of the sub-group arguments of one evaluation.  The sub handlers are created from (and
// therefore after) the handler that owns the sub-group argument; this object is declared after the owning
// handler(s) inside the evaluation scope, so the sub handlers are destroyed first.  The destinations live outside.
struct SubRun {
   std::deque<std::unique_ptr<Handler>> handlers;
   std::vector<cpa::detail::TypedArgBase*> targs;      // per sub-group argument j (nullptr = not defined yet)
   explicit SubRun(size_t n) : targs(n, nullptr) {}
};

// `pa sub begin` ... `pa sub end` for sub-group argument j of cfg on the handler `owner`
static void defineSub(Handler& owner, const Config& cfg, size_t j, std::deque<Dest>& ds, SubRun& run) {
   const SubSpec& sp = cfg.subs[j];
   run.handlers.emplace_back(new Handler(owner, sp.abbr ? 0 : Handler::hfNoAbbr));
   Handler& sub = *run.handlers.back();
   for (auto& it : sp.items) {
      if (it.first == 'a') defineArg(sub, sp.args[it.second], ds[it.second]);
      else defineGlob(sub, sp.globs[it.second]);
   }
   cpa::detail::TypedArgBase* t = owner.addArgument(sp.key, sub, "desc");
   run.targs[j] = t;
   if (sp.mandatory) t->setIsMandatory();
   if (!sp.card.empty()) applyCardinality(t, sp.card);
   for (auto& c : sp.constraints) {
      if (c.first == 'r') t->addConstraint(cpa::requiresArg(c.second));
      else t->addConstraint(cpa::excludes(c.second));
   }
   if (sp.deprecated) t->setIsDeprecated();
}

// every line of the configuration in line order on one handler
static void defineAll(Handler& h, const Config& cfg, std::deque<Dest>& ds, std::vector<std::deque<Dest>>& sds, SubRun& run) {
   for (auto& it : cfg.items) {
      if (it.first == 'a') defineArg(h, cfg.args[it.second], ds[it.second]);
      else if (it.first == 'g') defineGlob(h, cfg.globs[it.second]);
      else defineSub(h, cfg, it.second, sds[it.second], run);
   }
}

static std::string showDest(const std::vector<ArgSpec>& args, const std::deque<Dest>& ds) {
   std::string out;
   for (size_t k = 0; k < args.size(); ++k) {
      const auto& a = args[k];
      const auto& d = ds[k];
      out += " " + std::to_string(k) + ":";
      if (a.kind == "flag") out += std::string("f=") + (d.f ? "1" : "0");
      else if (a.kind == "int") out += "i=" + std::to_string(d.i);
      else if (a.kind == "str") out += "s=" + vh::hexOut(d.s);
      else if (a.kind == "level") out += "l=" + std::to_string(d.l.value());
      else {
         out += "v=[";
         for (size_t j = 0; j < d.v.size(); ++j) out += (j ? "," : "") + std::to_string(d.v[j]);
         out += "]";
      }
   }
   return out;
}

// exact-size heap copies of the words: ASan sees every read beyond a word and beyond argv
struct Argv {
   std::vector<std::unique_ptr<char[]>> words;
   std::unique_ptr<char*[]> argv;
   int argc;
   explicit Argv(const std::vector<std::string>& ws) : argc(static_cast<int>(ws.size())) {
      argv.reset(new char*[ws.size() + 1]);
      for (size_t k = 0; k < ws.size(); ++k) {
         words.emplace_back(new char[ws[k].size() + 1]);
         std::memcpy(words.back().get(), ws[k].c_str(), ws[k].size() + 1);
         argv[k] = words.back().get();
      }
      argv[ws.size()] = nullptr;
   }
};

// the file name the handler derives from argv[0]: POSIX basename() of a copy
static std::string progBase(const std::string& prog) {
   std::vector<char> copy(prog.begin(), prog.end());
   copy.push_back('\0');
   return ::basename(copy.data());
}

static const char* typeName(cpa::detail::ArgListElement::Type t) {
   using T = cpa::detail::ArgListElement::Type;
   switch (t) {
   case T::singleCharArg: return "C";
   case T::stringArg: return "S";
   case T::value: return "V";
   case T::control: return "X";
   default: return "I";
   }
}

int main() {
   Config cfg, building;
   bool haveCfg = false;
   bool inSub = false;                        // between `pa sub begin` and `pa sub end`
   std::string progName = "prog";
   ::setenv("HOME", ".", 1);
   return vh::run([&](const std::vector<std::string>& t, const std::string&) -> std::string {
      if (t.size() == 2 && t[0] == "case") { haveCfg = false; inSub = false; cfg = Config(); progName = "prog"; return "ok"; }
      if (t.size() < 2 || t[0] != "pa") return "bad-op";
      if (t[1] == "cfg" && t.size() >= 3 && t[2] == "begin") {
         building = Config();
         building.abbr = vh::kv(t, "abbr", "1") == "1";
         inSub = false;
         return "ok";
      }
      if (t[1] == "sub" && t.size() >= 3 && t[2] == "begin") {
         // pa sub begin key=<spec> [mandatory] [card=...] [abbr=0|1] [deprecated] [req=<k1;k2>] [excl=<k1;k2>]
         if (inSub) return "bad-op";
         SubSpec sp;
         bool haveKey = false;
         for (size_t k = 3; k < t.size(); ++k) {
            const std::string& x = t[k];
            auto p = x.find('=');
            std::string key = x.substr(0, p), val = p == std::string::npos ? "" : x.substr(p + 1);
            if (key == "key") { sp.key = val; haveKey = true; }
            else if (key == "mandatory") sp.mandatory = true;
            else if (key == "deprecated") sp.deprecated = true;
            else if (key == "abbr") sp.abbr = val == "1";
            else if (key == "card") {
               std::string kd = val.substr(0, val.find(':'));
               size_t colons = std::count(val.begin(), val.end(), ':');
               if (!((kd == "none" && colons == 0) || (kd == "max" && colons == 1) || (kd == "exact" && colons == 1) || (kd == "range" && colons == 2)))
                  return "bad-op";
               sp.card = val;
            }
            else if (key == "req") sp.constraints.emplace_back('r', val);
            else if (key == "excl") sp.constraints.emplace_back('x', val);
         }
         if (!haveKey) return "bad-op";
         building.subs.push_back(sp);
         inSub = true;
         return "ok";
      }
      if (t[1] == "sub" && t.size() == 3 && t[2] == "end") {
         if (!inSub) return "bad-op";
         building.items.emplace_back('s', building.subs.size() - 1);
         inSub = false;
         return "ok";
      }
      if (t[1] == "arg") {
         ArgSpec a;
         for (size_t k = 2; k < t.size(); ++k) {
            const std::string& x = t[k];
            auto p = x.find('=');
            std::string key = x.substr(0, p), val = p == std::string::npos ? "" : x.substr(p + 1);
            if (key == "key") a.key = val;
            else if (key == "kind") a.kind = val;
            else if (key == "mandatory") a.mandatory = true;
            else if (key == "multi") a.multi = true;
            else if (key == "deprecated") a.deprecated = true;
            else if (key == "mix") a.mix = true;
            else if (key == "vmode") a.vmode = val;
            else if (key == "card") a.card = val;
            else if (key == "check") a.checks.push_back(val);
            else if (key == "req") a.constraints.emplace_back('r', val);
            else if (key == "excl") a.constraints.emplace_back('x', val);
            else if (key == "sep") { std::string s; vh::hexDecodeStr(val, s); a.sep = s.empty() ? 0 : s[0]; }
            else if (key == "init") a.init = val;
            else if (key == "fmt") { if (val != "upper" && val != "lower") return "bad-op"; a.fmt = val; }
            else return "bad-op";
         }
         // value formatters are in the protocol for string and int destinations only (as in the model driver)
         if (!a.fmt.empty() && a.kind != "str" && a.kind != "int") return "bad-op";
         if (inSub) {
            SubSpec& sp = building.subs.back();
            sp.args.push_back(a);
            sp.items.emplace_back('a', sp.args.size() - 1);
         } else {
            building.args.push_back(a);
            building.items.emplace_back('a', building.args.size() - 1);
         }
         return "ok";
      }
      if (t[1] == "glob" && t.size() == 4) {
         if (t[2] != "allof" && t[2] != "anyof" && t[2] != "oneof" && t[2] != "differ" && t[2] != "disjoint") return "bad-op";
         if (inSub) {
            SubSpec& sp = building.subs.back();
            sp.globs.push_back({t[2], t[3]});
            sp.items.emplace_back('g', sp.globs.size() - 1);
         } else {
            building.globs.push_back({t[2], t[3]});
            building.items.emplace_back('g', building.globs.size() - 1);
         }
         return "ok";
      }
      if (t[1] == "cfg" && t.size() >= 3 && t[2] == "end") {
         // dry run of the definitions: report set-up errors (duplicate keys, invalid constraint lists ...)
         // (every line in line order; a sub-group argument is added at its `pa sub end`, after the sub handler's lines)
         if (inSub) return "bad-op";
         std::deque<Dest> ds(building.args.size());
         std::vector<std::deque<Dest>> sds;
         for (auto& sp : building.subs) sds.emplace_back(sp.args.size());
         for (size_t k = 0; k < building.args.size(); ++k) initDest(building.args[k], ds[k]);
         for (size_t j = 0; j < building.subs.size(); ++j)
            for (size_t k = 0; k < building.subs[j].args.size(); ++k) initDest(building.subs[j].args[k], sds[j][k]);
         std::string err = vh::guarded([&] {
            Handler h(building.abbr ? 0 : Handler::hfNoAbbr);
            SubRun run(building.subs.size());
            defineAll(h, building, ds, sds, run);
         });
         if (!err.empty()) { haveCfg = false; return err; }
         cfg = building;
         haveCfg = true;
         return "ok args=" + std::to_string(cfg.args.size()) + (cfg.subs.empty() ? "" : " subs=" + std::to_string(cfg.subs.size()));
      }
      if (t[1] == "prog" && t.size() == 3) { vh::hexDecodeStr(t[2], progName); return "ok"; }
      if (t[1] == "tokens") {
         std::vector<std::string> ws{progName};
         for (size_t k = 2; k < t.size(); ++k) { std::string w; if (!vh::hexDecodeStr(t[k], w)) return "bad-op"; ws.push_back(w); }
         Argv av(ws);
         std::string out;
         std::string err = vh::guarded([&] {
            cpa::detail::ArgListParser alp(av.argc, av.argv.get());
            auto ai = alp.begin();
            for (; ai != alp.end(); ++ai) {
               out += std::string(" ") + typeName(ai->mElementType) + "@" + std::to_string(ai->mArgIndex);
               using T = cpa::detail::ArgListElement::Type;
               if (ai->mElementType == T::singleCharArg || ai->mElementType == T::control)
                  out += "." + std::to_string(ai->mArgCharPos) + ":" + vh::hexOut(std::string(1, ai->mArgChar));
               else if (ai->mElementType == T::stringArg) out += ":" + vh::hexOut(ai->mArgString);
               else out += ":" + vh::hexOut(ai->mValue);
            }
            // one more ++ on the end iterator (what Handler::iterateArguments() does after a sub-group
            // argument that was the last word): must stay the end iterator, must not read behind argv
            ++ai;
            out += (ai == alp.end()) ? " E" : " E!";
         });
         if (!err.empty()) return err + " after" + out;
         return "ok" + out;
      }
      if (t[1] == "argc0") {
         // pa argc0 : Handler::evalArguments( 0, argv) on a handler made from the current cfg, with argv = an
         // exact-size heap array { nullptr } - what celma::appl::ArgString2Array( "") builds (mArgC == 0).
         // A sanitizer report ends the process, so the call runs in a fork()ed child; the parent prints how
         // the child ended:  ok | throw <class> | crash exit=<code> or signal=<n> [<sanitizer error> <file>:<line>]
         // (known finding argc0-reads-outside-argv, property C04)
         if (!haveCfg) return "bad-op";
         std::fflush(stdout);                                // nothing buffered may be written twice
         std::fflush(stderr);
         int fds[2];
         if (::pipe(fds) != 0) return "!! argc0: pipe() failed";
         pid_t pid = ::fork();
         if (pid < 0) { ::close(fds[0]); ::close(fds[1]); return "!! argc0: fork() failed"; }
         if (pid == 0) {
            // child: leaves through _exit() only (no stdio flush, no return into the line loop); its stderr (sanitizer
            // report, exception class) goes to the parent, its stdout nowhere
            ::close(fds[0]);
            ::dup2(fds[1], 2);
            ::close(fds[1]);
            int nul = ::open("/dev/null", O_WRONLY);
            if (nul >= 0) ::dup2(nul, 1);
            std::deque<Dest> ds(cfg.args.size());
            for (size_t a = 0; a < cfg.args.size(); ++a) initDest(cfg.args[a], ds[a]);
            std::vector<std::deque<Dest>> sds;
            for (auto& sp : cfg.subs) sds.emplace_back(sp.args.size());
            for (size_t j = 0; j < cfg.subs.size(); ++j)
               for (size_t a = 0; a < cfg.subs[j].args.size(); ++a) initDest(cfg.subs[j].args[a], sds[j][a]);
            char** argv0 = new char*[1]{nullptr};
            std::string err = vh::guarded([&] {
               Handler h(cfg.abbr ? 0 : Handler::hfNoAbbr);
               SubRun run(cfg.subs.size());
               defineAll(h, cfg, ds, sds, run);
               h.evalArguments(0, argv0);
            });
            if (err.empty()) ::_exit(0);
            err = "\nARGC0 " + err + "\n";
            ssize_t wr = ::write(2, err.data(), err.size());
            (void) wr;
            ::_exit(3);
         }
         ::close(fds[1]);
         std::string rep;
         char buf[4096];
         for (;;) {
            ssize_t n = ::read(fds[0], buf, sizeof buf);
            if (n > 0) rep.append(buf, static_cast<size_t>(n));
            else if (n == 0 || errno != EINTR) break;
         }
         ::close(fds[0]);
         int st = 0;
         while (::waitpid(pid, &st, 0) < 0 && errno == EINTR) {}
         if (WIFEXITED(st) && WEXITSTATUS(st) == 0) return "ok";
         if (WIFEXITED(st) && WEXITSTATUS(st) == 3) {
            auto p = rep.find("\nARGC0 throw ");
            if (p != std::string::npos) return rep.substr(p + 7, rep.find('\n', p + 7) - (p + 7));
         }
         std::string out = WIFSIGNALED(st) ? "crash signal=" + std::to_string(WTERMSIG(st))
                                           : "crash exit=" + std::to_string(WIFEXITED(st) ? WEXITSTATUS(st) : -1);
         // "SUMMARY: AddressSanitizer: heap-buffer-overflow <place> in ..." -> the error word (the place is not
         // symbolised reliably in the child, so it is not printed)
         auto sp = rep.find("SUMMARY: ");
         if (sp != std::string::npos) {
            std::istringstream is(rep.substr(sp + 9, rep.find('\n', sp) - (sp + 9)));
            std::string san, what;
            is >> san >> what;
            if (!what.empty()) out += " " + what;
         }
         return out;
      }
      if (t[1] == "rest") {
         // for every element: argsAsString( true) and argsAsString( false) (which reads through the
         // private isSingleArg()); an exception of one call is printed in place as !<class>
         std::vector<std::string> ws{progName};
         for (size_t k = 2; k < t.size(); ++k) { std::string w; if (!vh::hexDecodeStr(t[k], w)) return "bad-op"; ws.push_back(w); }
         Argv av(ws);
         std::string out;
         std::string err = vh::guarded([&] {
            cpa::detail::ArgListParser alp(av.argc, av.argv.get());
            for (auto ai = alp.begin(); ai != alp.end(); ++ai) {
               for (int self = 1; self >= 0; --self) {
                  std::string r;
                  std::string e = vh::guarded([&] { r = ai.argsAsString(self == 1); });
                  out += std::string(self ? " T=" : " F=") + (e.empty() ? vh::hexOut(r) : "!" + e.substr(6));
               }
            }
         });
         if (!err.empty()) return err + " after" + out;
         return "ok" + out;
      }
      if (t[1] == "gdef") {
         // pa gdef members=<n> -- <m>:<keyspec> ...  : n member handlers are created first, then the
         // definitions are made in the given sequence; result: ok, or the first refusal
         size_t k = 2, n = 0;
         for (; k < t.size() && t[k] != "--"; ++k) {
            if (t[k].compare(0, 8, "members=") == 0) n = std::stoul(t[k].substr(8));
            else if (t[k].compare(0, 2, "x-") == 0) continue;
            else return "bad-op";
         }
         if (k == t.size() || n == 0 || n > 9) return "bad-op";
         // item <m>s:<keyspec> (digits, then the letter s): a SUB-GROUP argument of member m, i.e.
         // Handler::addArgument( spec, Handler& subGroup, desc) with a fresh sub handler made from member m
         std::vector<std::pair<size_t, std::string>> defs;
         std::vector<bool> defIsSub;
         for (++k; k < t.size(); ++k) {
            auto c = t[k].find(':');
            if (c == std::string::npos || c == 0) return "bad-op";
            bool isSub = t[k][c - 1] == 's';
            std::string num = t[k].substr(0, isSub ? c - 1 : c);
            if (num.empty() || num.find_first_not_of("0123456789") != std::string::npos) return "bad-op";
            size_t m = std::stoul(num);
            if (m >= n) return "bad-op";
            defs.emplace_back(m, t[k].substr(c + 1));
            defIsSub.push_back(isSub);
         }
         Groups::instance().removeAllArgHandler();
         std::deque<int> dests(defs.size());
         std::string res = "ok";
         {
            std::vector<std::shared_ptr<Handler>> hs;
            for (size_t m = 0; m < n; ++m) hs.push_back(Groups::instance().getArgHandler(std::string("g") + char('0' + m), 0));
            // the sub handlers of the sub-group definitions: made from (after) the member handler, declared after
            // `hs` so that they are destroyed before the members (as SubRun in `pa group`); they live to the end of the op
            std::deque<std::unique_ptr<Handler>> subs;
            for (size_t d = 0; d < defs.size(); ++d) {
               std::string err = vh::guarded([&] {
                  if (defIsSub[d]) {
                     subs.emplace_back(new Handler(*hs[defs[d].first], 0));
                     hs[defs[d].first]->addArgument(defs[d].second, *subs.back(), "desc");
                     return;
                  }
                  hs[defs[d].first]->addArgument(defs[d].second, cpa::destination(dests[d], "d"), "desc"); });
               if (!err.empty()) { res = err + " at " + std::to_string(d); break; }
            }
         }
         Groups::instance().removeAllArgHandler();
         return res;
      }
      if (t[1] == "eval" || t[1] == "group") {
         if (!haveCfg) return "bad-op";
         // pa eval [file=<hexline>|<hexline> | fileraw=<hex bytes of the file>] [env=<hex>] -- words...
         // pa group <member of arg 0><member of arg 1>... [order=<perm of members>] -- words...
         size_t k = 2;
         std::string fileSpec, envSpec, membership, submembers, order;
         bool haveFile = false, haveEnv = false, fileRaw = false;
         for (; k < t.size() && t[k] != "--"; ++k) {
            if (t[k].compare(0, 5, "file=") == 0) { fileSpec = t[k].substr(5); haveFile = true; }
            else if (t[k].compare(0, 8, "fileraw=") == 0) { fileSpec = t[k].substr(8); haveFile = true; fileRaw = true; }
            else if (t[k].compare(0, 4, "env=") == 0) { envSpec = t[k].substr(4); haveEnv = true; }
            else if (t[k].compare(0, 8, "members=") == 0) membership = t[k].substr(8);
            else if (t[k].compare(0, 11, "submembers=") == 0) submembers = t[k].substr(11);
            else if (t[k].compare(0, 6, "order=") == 0) order = t[k].substr(6);
            else if (t[k].compare(0, 2, "x-") == 0) continue;   // generator annotations (expectation, label)
            else return "bad-op";
         }
         if (k == t.size()) return "bad-op";
         std::vector<std::string> ws{progName};
         for (++k; k < t.size(); ++k) { std::string w; if (!vh::hexDecodeStr(t[k], w)) return "bad-op"; ws.push_back(w); }
         Argv av(ws);
         std::deque<Dest> ds(cfg.args.size());
         for (size_t a = 0; a < cfg.args.size(); ++a) initDest(cfg.args[a], ds[a]);
         std::vector<std::deque<Dest>> sds;                 // destinations of the sub handlers
         for (auto& sp : cfg.subs) sds.emplace_back(sp.args.size());
         for (size_t j = 0; j < cfg.subs.size(); ++j)
            for (size_t a = 0; a < cfg.subs[j].args.size(); ++a) initDest(cfg.subs[j].args[a], sds[j][a]);
         std::vector<int> called(cfg.subs.size(), 0);       // hasValue() of the sub-group arguments after the evaluation
         std::string err;
         if (t[1] == "eval") {
            int flags = cfg.abbr ? 0 : Handler::hfNoAbbr;
            if (haveFile) {
               ::mkdir(".progargs", 0700);
               std::ofstream f(".progargs/" + progBase(progName) + ".pa");
               std::istringstream is(fileSpec);
               std::string hx;
               if (fileRaw) { std::string bytes; vh::hexDecodeStr(fileSpec, bytes); f << bytes; }   // the bytes as they are
               else while (std::getline(is, hx, '|')) { std::string line; vh::hexDecodeStr(hx, line); f << line << "\n"; }
               f.close();
               flags |= Handler::hfReadProgArg;
            }
            if (haveEnv) {
               std::string e;
               vh::hexDecodeStr(envSpec, e);
               ::setenv("CELMA_VERIF_ARGS", e.c_str(), 1);
            }
            err = vh::guarded([&] {
               Handler h(flags);
               SubRun run(cfg.subs.size());                 // after h: the sub handlers are destroyed before it
               if (haveEnv) h.checkEnvVarArgs("CELMA_VERIF_ARGS");
               defineAll(h, cfg, ds, sds, run);
               h.evalArguments(av.argc, av.argv.get());
               for (size_t j = 0; j < cfg.subs.size(); ++j) called[j] = run.targs[j]->hasValue() ? 1 : 0;
            });
            if (haveFile) ::unlink((".progargs/" + progBase(progName) + ".pa").c_str());
            if (haveEnv) ::unsetenv("CELMA_VERIF_ARGS");
         } else {
            // membership[a] = digit naming the member handler that owns argument a; handler constraints
            // are attached to the member named by the digit after '/' (e.g. members=0011/1)
            std::string gl;
            auto sl = membership.find('/');
            if (sl != std::string::npos) { gl = membership.substr(sl + 1); membership = membership.substr(0, sl); }
            // submembers[j] = digit naming the member that owns sub-group argument j (its sub handler is
            // constructed from that member handler)
            if (membership.size() != cfg.args.size() || gl.size() != cfg.globs.size() || submembers.size() != cfg.subs.size()) return "bad-op";
            if (order.empty()) { for (char c = '0'; c <= '9'; ++c) if (membership.find(c) != std::string::npos || gl.find(c) != std::string::npos || submembers.find(c) != std::string::npos) order += c; }
            for (const std::string* m : {&membership, &gl, &submembers, &order})
               for (char c : *m) if (c < '0' || c > '9') return "bad-op";
            Groups::instance().removeAllArgHandler();
            err = vh::guarded([&] {
               std::vector<std::shared_ptr<Handler>> hs(10);
               for (char c : order) hs[c - '0'] = Groups::instance().getArgHandler(std::string("g") + c, cfg.abbr ? 0 : Handler::hfNoAbbr);
               SubRun run(cfg.subs.size());
               // all plain arguments first (index order), then the sub-group arguments (j order), then the handler constraints
               for (size_t a = 0; a < cfg.args.size(); ++a) defineArg(*hs[membership[a] - '0'], cfg.args[a], ds[a]);
               for (size_t j = 0; j < cfg.subs.size(); ++j) defineSub(*hs[submembers[j] - '0'], cfg, j, sds[j], run);
               for (size_t g = 0; g < cfg.globs.size(); ++g) defineGlob(*hs[gl[g] - '0'], cfg.globs[g]);
               Groups::instance().evalArguments(av.argc, av.argv.get());
               for (size_t j = 0; j < cfg.subs.size(); ++j) called[j] = run.targs[j]->hasValue() ? 1 : 0;
            });
            Groups::instance().removeAllArgHandler();
         }
         if (!err.empty()) return err;
         std::string out = "ok" + showDest(cfg.args, ds);
         for (size_t j = 0; j < cfg.subs.size(); ++j)
            out += " | s" + std::to_string(j) + "=" + std::to_string(called[j]) + showDest(cfg.subs[j].args, sds[j]);
         return out;
      }
      return "bad-op";
   });
}
